use anything::rational::DisplaySpec;
use anything::Rational;
use std::str::FromStr;

fn show(s: &str, limit: usize, el: usize) -> String {
    let r = Rational::from_str(s).unwrap();
    let mut spec = DisplaySpec::default();
    spec.limit = limit; spec.exponent_limit = el; spec.show_continuation = true;
    r.display(&spec).to_string()
}

#[test]
fn c08_cases() {
    for (s, l, e) in [
        ("0.1234567890123", 12, 12), ("0.123456789012", 12, 12), ("0.12345678901234", 12, 12),
        ("1e13", 12, 12), ("1e13", 13, 12), ("10000000000000.5", 12, 12), ("12345678901234", 12, 12),
        ("1234567890123.5", 12, 12), ("1234567890123.5", 13, 12),("1234567890123", 12, 12),
        ("-0.00012", 1, 3), ("0.00012", 1, 3), ("0.00012", 1, 8), ("0.00102", 2, 8), ("0.0012", 1, 8),
        ("123.456", 2, 8), ("123.45", 2, 8), ("-123.456", 3, 8), ("1234567.25", 3, 3), ("1200000", 3, 3), ("1230000", 1, 3),("1000000.25", 6, 3), ("1000000.25", 8, 3),
    ] {
        println!("{:>20} limit={:2} explimit={:2} -> {}", s, l, e, show(s, l, e));
    }
}
