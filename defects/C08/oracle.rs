use anything::rational::DisplaySpec;
use anything::Rational;
use num::{BigInt, BigRational, Zero, Signed, One};

// oracle: parse text "[-]D[.DDD][…][e[-]N]" -> (sign, mantissa digits value as rational, mark)
fn readback(s: &str) -> (BigRational, bool) {
    let mark = s.contains('…');
    let t: String = s.chars().filter(|c| *c != '…').collect();
    let (m, e) = match t.split_once('e') { Some((m, e)) => (m.to_string(), e.parse::<i32>().unwrap()), None => (t.clone(), 0) };
    let neg = m.starts_with('-');
    let m = m.trim_start_matches('-');
    let (ip, fp) = match m.split_once('.') { Some((a, b)) => (a, b), None => (m, "") };
    let digits: BigInt = format!("{}{}", ip, fp).parse().unwrap();
    let mut v = BigRational::new(digits, num::pow(BigInt::from(10), fp.len()));
    if e >= 0 { v = v * BigRational::from_integer(num::pow(BigInt::from(10), e as usize)); } else { v = v / BigRational::from_integer(num::pow(BigInt::from(10), (-e) as usize)); }
    // unit in last place
    if neg { v = -v; }
    (v, mark)
}
fn ulp(s: &str) -> BigRational {
    let t: String = s.chars().filter(|c| *c != '…').collect();
    let (m, e) = match t.split_once('e') { Some((m, e)) => (m.to_string(), e.parse::<i32>().unwrap()), None => (t.clone(), 0) };
    let fp = match m.split_once('.') { Some((_, b)) => b.len() as i32, None => 0 };
    let p = e - fp;
    let ten = BigRational::from_integer(BigInt::from(10));
    let mut u = BigRational::one();
    for _ in 0..p.abs() { if p >= 0 { u = u * &ten } else { u = u / &ten } }
    u
}

#[test]
fn c08_oracle() {
    let mut bad = 0;
    let mut n = 0u64;
    let mut vals: Vec<BigRational> = vec![];
    for num in 0..220i64 { for den in [1i64,2,3,4,5,7,8,9,10,16,25,40,125,1000,1024,7001,100000] { vals.push(BigRational::new(num.into(), den.into())); } }
    for k in 0..16u32 { for m in [1i64, 12, 123, 1005, 99999, 100001, 1234567, 5000000] { for d in [1i64, 3, 8, 1000, 3000] {
        vals.push(BigRational::new(BigInt::from(m) * num::pow(BigInt::from(10), k as usize), d.into()));
        vals.push(BigRational::new(BigInt::from(m), BigInt::from(d) * num::pow(BigInt::from(10), k as usize)));
    }}}
    for v in &vals { for sign in [1, -1] { let v = if sign < 0 { -v.clone() } else { v.clone() };
        for limit in 1..=9usize { for el in 1..=7usize {
            let mut spec = DisplaySpec::default(); spec.limit = limit; spec.exponent_limit = el; spec.show_continuation = true;
            let r = Rational::new(v.numer().clone(), v.denom().clone());
            let s = r.display(&spec).to_string();
            let (back, mark) = readback(&s);
            let u = ulp(&s);
            n += 1;
            let diff = &v - &back;
            let ok_sign = back.is_zero() || (back.is_negative() == v.is_negative());
            let trunc = if v.is_negative() { diff <= BigRational::zero() && -diff.clone() < u } else { diff >= BigRational::zero() && diff < u };
            let markok = mark == !diff.is_zero();
            let sgn_text = v.is_negative() == s.starts_with('-');
            if !(ok_sign && trunc && markok && sgn_text) { bad += 1; if bad < 40 { println!("BAD v={} limit={} el={} -> {} (back={}, trunc={}, markok={})", v, limit, el, s, back, trunc, markok); } }
        }}
    }}
    println!("checked {} bad {}", n, bad);
    assert_eq!(bad, 0);
}
