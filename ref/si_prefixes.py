"""SI prefixes (SI brochure 9th ed., table 7; the four prefixes added in 2022 are not part of the crate's vocabulary)."""
PREFIXES = {
    "yotta": ("Y", 24), "zetta": ("Z", 21), "exa": ("E", 18), "peta": ("P", 15), "tera": ("T", 12), "giga": ("G", 9),
    "mega": ("M", 6), "kilo": ("k", 3), "hecto": ("h", 2), "deca": ("da", 1),
    "deci": ("d", -1), "centi": ("c", -2), "milli": ("m", -3), "micro": ("μ", -6), "nano": ("n", -9), "pico": ("p", -12),
    "femto": ("f", -15), "atto": ("a", -18), "zepto": ("z", -21), "yocto": ("y", -24),
}
