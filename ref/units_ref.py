"""Reference definitions of the 78 derived units, authored independently of the repository.

Each entry: static path below `units::` -> (dimension vector over the base units, scale to the coherent SI unit as an exact
Fraction, kind, source).  Definitions are written relationally (in = ft/12 ...) and evaluated with exact fractions.

Sources: SI brochure 9th ed. (tables 4, 7, 8: coherent derived units, prefixes, non-SI units accepted for use; CODATA 2018
values of eV and Da), the international yard and pound agreement of 1959 (yd = 0.9144 m, lb = 0.45359237 kg), NIST Handbook 44
appendix C (US customary capacity: gal = 231 in^3 and its subdivisions; survey-free chain/rod/link/furlong; avoirdupois mass).
Entries marked source='crate-doc' are units none of these fixes; they take the crate's own documentation as reference and are
listed so that the table stays total.  `armed=False` marks reviewed naming choices where several standards disagree.
"""
from fractions import Fraction as Fr

M, KG, S, A, K, MOL, CD, B = "Meter", "KiloGram", "Second", "Ampere", "Kelvin", "Mole", "Candela", "Byte"

# --- lengths -------------------------------------------------------------------------------------------------
ft = Fr(3048, 10000)            # 1959 agreement: yd = 0.9144 m, ft = yd / 3
inch = ft / 12
yd = 3 * ft
mi = 5280 * ft
ch = 66 * ft
rd = ch / 4
link = ch / 100
fur = 10 * ch
lea = 3 * mi
hand = 4 * inch
th = inch / 1000
bc = inch / 3
nmi = Fr(1852)
cable = nmi / 10
au = Fr(149597870700)
# --- masses --------------------------------------------------------------------------------------------------
lb = Fr(45359237, 100000000)
oz = lb / 16
dr = lb / 256
gr = lb / 7000
st = 14 * lb
qr = 28 * lb
cwt = 112 * lb
long_ton = 2240 * lb
tonne = Fr(1000)
dalton = Fr(166053906660, 10 ** 11) * Fr(1, 10 ** 27)   # 1.660 539 066 60e-27 kg (CODATA 2018)
# --- volumes (US customary) --------------------------------------------------------------------------------
gal = 231 * inch ** 3
quart = gal / 4
pint = gal / 8
cup = gal / 16
gill = gal / 32
floz = gal / 128
tbsp = floz / 2
tsp = floz / 6
litre = Fr(1, 1000)
cc = Fr(1, 10 ** 6)
# --- areas ---------------------------------------------------------------------------------------------------
ha = Fr(10 ** 4)
acre = 43560 * ft ** 2
rood = acre / 4
perch = rd ** 2
# --- times ---------------------------------------------------------------------------------------------------
minute = Fr(60)
hour = 60 * minute
day = 24 * hour
week = 7 * day
year = Fr(36525, 100) * day          # Julian year
# --- others --------------------------------------------------------------------------------------------------
kt = nmi / hour
c0 = Fr(299792458)
eV = Fr(1602176634, 10 ** 9) * Fr(1, 10 ** 19)
g0 = Fr(980665, 100000)


def dim(**kw):
    return dict(kw)


L = {M: 1}
MASS = {KG: 1}
VOL = {M: 3}
AREA = {M: 2}
T = {S: 1}
VEL = {M: 1, S: -1}
ACC = {M: 1, S: -2}
ENERGY = {KG: 1, M: 2, S: -2}

UNITS = {
    # time
    "time::MINUTE": (T, minute, "factor", "SI brochure table 8"),
    "time::HOUR": (T, hour, "factor", "SI brochure table 8"),
    "time::DAY": (T, day, "factor", "SI brochure table 8"),
    "time::WEEK": (T, week, "factor", "7 d"),
    "time::MONTH": (T, year / 12, "factor", "crate-doc"),
    "time::YEAR": (T, year, "factor", "Julian year, IAU"),
    "time::DECADE": (T, 10 * year, "factor", "10 yr"),
    "time::CENTURY": (T, 100 * year, "factor", "100 yr"),
    "time::MILLENIUM": (T, 1000 * year, "factor", "1000 yr"),
    # mass
    "mass::TONNE": (MASS, tonne, "factor", "SI brochure table 8"),
    "mass::DALTON": (MASS, dalton, "factor", "SI brochure table 8 / CODATA 2018", {"rel_tol": Fr(1, 10 ** 9)}),
    "mass::GRAIN": (MASS, gr, "factor", "1959 agreement; avoirdupois"),
    "mass::DRACHM": (MASS, dr, "factor", "avoirdupois"),
    "mass::OUNCE": (MASS, oz, "factor", "avoirdupois"),
    "mass::POUND": (MASS, lb, "factor", "1959 agreement"),
    "mass::STONE": (MASS, st, "factor", "imperial"),
    "mass::QUARTER": (MASS, qr, "factor", "imperial"),
    "mass::HUNDREDWEIGHT": (MASS, cwt, "factor", "imperial (long)"),
    "mass::TON": (MASS, long_ton, "factor", "imperial long ton"),
    "mass::SLUG": (MASS, Fr(1459390294, 100000000), "factor", "crate-doc"),
    # volume
    "volume::LITRE": (VOL, litre, "factor", "SI brochure table 8"),
    "volume::CUBIC_CENTIMETER": (VOL, cc, "factor", "cm^3"),
    "volume::GALLON": (VOL, gal, "factor", "NIST HB44 C: 231 in^3"),
    "volume::PINT": (VOL, pint, "factor", "NIST HB44 C: gal/8"),
    "volume::QUART": (VOL, quart, "factor", "NIST HB44 C: gal/4"),
    "volume::CUP": (VOL, cup, "factor", "NIST HB44 C: gal/16"),
    "volume::GILL": (VOL, gill, "factor", "NIST HB44 C: gal/32"),
    "volume::FLUID_OUNCE": (VOL, floz, "factor", "NIST HB44 C: gal/128"),
    "volume::TABLE_SPOON": (VOL, tbsp, "factor", "floz/2"),
    "volume::TEA_SPOON": (VOL, tsp, "factor", "floz/6"),
    # area
    "area::HECTARE": (AREA, ha, "factor", "SI brochure table 8"),
    "area::PERCH": (AREA, perch, "factor", "rd^2"),
    "area::ROOD": (AREA, rood, "factor", "acre/4"),
    "area::ACRE": (AREA, acre, "factor", "43560 ft^2"),
    # mechanics / electromagnetism (coherent SI derived units: scale 1)
    "ACCELERATION": (ACC, Fr(1), "none", "crate-doc (pseudo unit m/s^2)"),
    "VELOCITY": (VEL, Fr(1), "none", "crate-doc (pseudo unit m/s)"),
    "GFORCE": (ACC, g0, "factor", "standard gravity 9.80665 m/s^2 (CGPM 1901)"),
    "NEWTON": ({KG: 1, M: 1, S: -2}, Fr(1), "none", "SI brochure table 4"),
    "PASCAL": ({KG: 1, M: -1, S: -2}, Fr(1), "none", "SI brochure table 4"),
    "energy::JOULE": (ENERGY, Fr(1), "none", "SI brochure table 4"),
    "energy::BTU": (ENERGY, Fr(1055), "factor", "crate-doc"),
    "energy::ELECTRONVOLT": (ENERGY, eV, "factor", "SI brochure table 8"),
    "WATT": ({KG: 1, M: 2, S: -3}, Fr(1), "none", "SI brochure table 4"),
    "COULOMB": ({S: 1, A: 1}, Fr(1), "none", "SI brochure table 4"),
    "VOLT": ({KG: 1, M: 2, S: -3, A: -1}, Fr(1), "none", "SI brochure table 4"),
    "FARAD": ({KG: -1, M: -2, S: 4, A: 2}, Fr(1), "none", "SI brochure table 4"),
    "OHM": ({KG: 1, M: 2, S: -3, A: -2}, Fr(1), "none", "SI brochure table 4"),
    "SIEMENS": ({KG: -1, M: -2, S: 3, A: 2}, Fr(1), "none", "SI brochure table 4"),
    "WEBER": ({KG: 1, M: 2, S: -2, A: -1}, Fr(1), "none", "SI brochure table 4"),
    "TESLA": ({KG: 1, S: -2, A: -1}, Fr(1), "none", "SI brochure table 4"),
    "HENRY": ({KG: 1, M: 2, S: -2, A: -2}, Fr(1), "none", "SI brochure table 4"),
    "LUMEN": ({CD: 1}, Fr(1), "none", "SI brochure table 4 (sr is dimensionless)"),
    "LUX": ({CD: 1, M: -2}, Fr(1), "none", "SI brochure table 4"),
    "BECQUEREL": ({S: -1}, Fr(1), "none", "SI brochure table 4"),
    "GRAY": ({M: 2, S: -2}, Fr(1), "none", "SI brochure table 4"),
    "SIEVERT": ({M: 2, S: -2}, Fr(1), "none", "SI brochure table 4"),
    "KATAL": ({MOL: 1, S: -1}, Fr(1), "none", "SI brochure table 4"),
    "SPECIFIC_IMPULSE": (T, Fr(1), "none", "crate-doc (pseudo unit s)"),
    # velocity / length
    "velocity::LIGHT_SPEED": (VEL, c0, "factor", "SI brochure: defining constant"),
    "velocity::KNOT": (VEL, kt, "factor", "NM/h"),
    "length::AU": (L, au, "factor", "SI brochure table 8 (IAU 2012)"),
    "length::FATHOM": (L, Fr(1852, 1000), "factor", "crate-doc", {"armed": False,
                       "note": "the crate documents 1.852 m (1/1000 NM); the imperial fathom is 6 ft = 1.8288 m"}),
    "length::CABLE": (L, cable, "factor", "NM/10"),
    "length::NAUTICAL_MILE": (L, nmi, "factor", "SI brochure (1852 m)"),
    "length::LINK": (L, link, "factor", "ch/100"),
    "length::ROD": (L, rd, "factor", "ch/4"),
    "length::THOU": (L, th, "factor", "in/1000"),
    "length::BARLEYCORN": (L, bc, "factor", "in/3"),
    "length::INCH": (L, inch, "factor", "1959 agreement"),
    "length::HAND": (L, hand, "factor", "4 in"),
    "length::FOOT": (L, ft, "factor", "1959 agreement"),
    "length::YARD": (L, yd, "factor", "1959 agreement"),
    "length::CHAIN": (L, ch, "factor", "66 ft"),
    "length::FURLONG": (L, fur, "factor", "10 ch"),
    "length::MILE": (L, mi, "factor", "5280 ft"),
    "length::LEAGUE": (L, lea, "factor", "3 mi"),
    # temperature (affine): K = x * slope + offset
    "temperature::CELSIUS": ({K: 1}, Fr(27315, 100), "offset", "SI brochure: t/degC = T/K - 273.15"),
    "temperature::FAHRENHEIT": ({K: 1}, (Fr(5, 9), Fr(45967, 100) * Fr(5, 9)), "affine", "degF: T/K = (t + 459.67) * 5/9"),
}

assert len(UNITS) == 78, len(UNITS)
