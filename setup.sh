#!/bin/sh
# Build the anyscan driver and warm the fact cache (offline).
set -e
cd "$(dirname "$0")"
export CARGO_NET_OFFLINE=true
(cd driver && cargo build --release --offline)
python3 sa/extract.py dev rel
