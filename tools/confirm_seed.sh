#!/bin/bash
# usage: tools/confirm_seed.sh <worktree> <seed-dir>
# Confirms a seeded change independently: applies patch.diff in the scratch worktree, builds, runs the full test-suite
# (must pass), runs the demonstration (must fail), reverts, runs the demonstration again (must pass).
WT="$1"; SD="$2"
export CARGO_TARGET_DIR="$WT/target" CARGO_NET_OFFLINE=true
cd "$WT" || exit 2
git checkout -q -- . ; git clean -fdq tests
R="$SD/confirm.txt"; : > "$R"
say() { echo "$@" | tee -a "$R"; }
git apply "$SD/patch.diff" || { say "RESULT: patch does not apply"; exit 1; }
if ! cargo build --offline >/dev/null 2>"$SD/build.log"; then say "RESULT: does not build"; git checkout -q -- .; exit 1; fi
T=$(cargo test --workspace --no-fail-fast --offline 2>&1 | grep -E "^test result" | awk '{p+=$4; f+=$6} END {print p" passed "f" failed"}')
say "suite with change: $T"
case "$T" in *" 0 failed") ;; *) say "RESULT: suite fails with change"; git checkout -q -- .; exit 1;; esac
run_demo() {
  if [ -f "$SD/demo.rs" ]; then
    cp "$SD/demo.rs" "$WT/tests/zz_demo.rs"
    cargo test --offline --test zz_demo >"$SD/demo.$1.log" 2>&1; rc=$?
    rm -f "$WT/tests/zz_demo.rs"
  else
    sed "s#/tmp/wt-[A-Za-z0-9_-]*#$WT#g" "$SD/demo.sh" > "$SD/demo.local.sh"
    bash "$SD/demo.local.sh" >"$SD/demo.$1.log" 2>&1; rc=$?
  fi
  return $rc
}
run_demo with; W=$?
say "demo with change: exit $W"
git checkout -q -- . ; git clean -fdq tests
cargo build --offline >/dev/null 2>&1
run_demo without; O=$?
say "demo without change: exit $O"
if [ $W -ne 0 ] && [ $O -eq 0 ]; then say "RESULT: confirmed"; exit 0; fi
say "RESULT: NOT confirmed"; exit 1
