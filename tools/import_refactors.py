#!/usr/bin/env python3
"""usage: import_refactors.py <PROP> [offset [max]]   -- (r<i> is stored as r<i+offset>; only r1..r<max> are taken)
 copies /tmp/out-r-<PROP>/r*/ (patch.diff, meta.json, equiv.*) into /verif/refactors/<PROP>-r<i>/"""
import json, os, shutil, sys
P = sys.argv[1]
OFF = int(sys.argv[2]) if len(sys.argv) > 2 else 0
MAX = int(sys.argv[3]) if len(sys.argv) > 3 else 99
src = "/tmp/out-r-%s" % P
for d in sorted(os.listdir(src)):
    sd = os.path.join(src, d)
    if not os.path.isfile(os.path.join(sd, "patch.diff")):
        continue
    if not (d.startswith("r") and d[1:].isdigit() and int(d[1:]) <= MAX):
        continue
    dst = os.path.join("/verif/refactors", "%s-r%d" % (P, int(d[1:]) + OFF))
    os.makedirs(dst, exist_ok=True)
    shutil.copy(os.path.join(sd, "patch.diff"), dst)
    for f in ("equiv.rs", "equiv.sh"):
        if os.path.exists(os.path.join(sd, f)):
            shutil.copy(os.path.join(sd, f), dst)
    m = json.load(open(os.path.join(sd, "meta.json"))) if os.path.exists(os.path.join(sd, "meta.json")) else {}
    m["author"] = "independent sub-agent given only the property text (with anchors) and a scratch worktree; asked for behaviour-preserving maintenance changes"
    json.dump(m, open(os.path.join(dst, "meta.json"), "w"), indent=1)
    print("imported", dst)
