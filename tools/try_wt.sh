#!/bin/bash
# usage: tools/try_wt.sh <patch.diff> <PROP>...   -- applies the patch in a scratch worktree (/tmp/wt-try), runs the checks there, reverts
P="$(realpath "$1")"; shift
WT=/tmp/wt-try
[ -d $WT ] || git -C /repo worktree add --detach $WT HEAD -q
git -C $WT checkout -q --detach $(git -C /repo rev-parse HEAD) 2>/dev/null
git -C $WT checkout -q -- . ; git -C $WT clean -fdq
git -C $WT apply "$P" || { echo "patch does not apply"; exit 2; }
cd /verif
for id in "$@"; do
  ANYSCAN_REPO=$WT ./check "$id" 2>&1 | grep -v "^VIOLATION" | cut -c1-600 | tail -${TAILN:-5}
done
git -C $WT checkout -q -- .
