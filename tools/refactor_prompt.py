#!/usr/bin/env python3
"""Prints the prompt given to a refactoring sub-agent: only the property text (with its anchors) and its own scratch
worktree.  The agent produces BEHAVIOUR-PRESERVING changes to the code behind the property; they are used to look for
false alarms of the checks (a check that fires on one of them is wrong, not the code)."""
import json, sys
pid, wt, out = sys.argv[1], sys.argv[2], sys.argv[3]
n = sys.argv[4] if len(sys.argv) > 4 else "4"
focus = sys.argv[5] if len(sys.argv) > 5 else ""
p = [json.loads(l) for l in open("/verif/properties.jsonl") if json.loads(l)["id"] == pid][0]
mech = "\n".join("    - %s (%s)" % (m["name"], m["where"]) for m in p["anchors"].get("mechanism", []))
print(f"""You are a maintainer of the Rust project `anything` (udoprog/anything): the `any` CLI, a unit-aware calculator with exact BigRational arithmetic, a hand-written lexer/parser, dimensional analysis and a tantivy-indexed fact lookup.

You have your own scratch git worktree of the repository at {wt} (work ONLY there; never touch /repo or /verif, and do not read anything under /verif). It builds offline: always pass --offline to cargo and set CARGO_TARGET_DIR={wt}/target. There is no network.

Here is a semantic property the project satisfies today and must keep satisfying:

  Title: {p['title']}
  Statement: {p['statement']}
  Code that implements it (line numbers may have drifted a little):
{mech}

Your task: produce {n} DIFFERENT, independent, BEHAVIOUR-PRESERVING source changes to that code, of the kind that ordinary maintenance produces, each of which keeps the property true for every input and keeps every observable behaviour of the library and the binary exactly the same. Make them realistic and varied, for example:
  - renaming local variables / private helper functions; reordering independent statements or match arms; reformatting;
  - extracting a few lines into a private helper function or a closure, or inlining a small private helper into its caller;
  - rewriting control flow in an equivalent form: `match` <-> `if let` / `let else`, `for` <-> `while let`, early return <-> nested if, `?` <-> explicit match, a boolean flag <-> an enum or Option, iterator adaptor chain <-> explicit loop;
  - replacing an API call by an equivalent one (`x.is_zero()` <-> `x == zero`, `a * b` <-> `b * a` for commutative exact arithmetic ONLY where the result is provably identical, `checked_add(..).ok_or(..)?` <-> match on the Option, `entry().or_insert` <-> `get_mut` / `insert`, `Vec::push` in a loop <-> `extend` / `collect`);
  - adding a doc comment, a `debug_assert!` that always holds, a `#[inline]`, a `const` for a repeated literal, an unused private helper, a new private field that is never read.
  Each change should touch a few lines to a few dozen lines, in the functions listed above (or their direct helpers), and different changes should touch different functions or use different kinds of rewrite. At least one of them should be a real restructuring (helper extraction, loop form change or control-flow rewrite), not just renaming. {focus}

Each change must
  1. COMPILE without new warnings turned into errors (cargo build --offline),
  2. PASS the entire existing test suite unchanged: `cd {wt} && CARGO_TARGET_DIR={wt}/target cargo test --workspace --no-fail-fast --offline`,
  3. be behaviour-preserving: convince yourself by reasoning AND by a differential demonstration: write a small integration test (tests/equiv_r<i>.rs, using only the public API: anything::parse, anything::query, anything::Db::in_memory(), anything::Rational, anything::rational::DisplaySpec, ... - see tests/entry.rs for how the tests drive the library) that evaluates at least 40 varied inputs exercising the touched code (including unusual ones: negative values, zero, prefixes, powers, nested parentheses, malformed input, long literals ... whatever is relevant) and prints one line per input with the complete result (values, units, errors with their spans); run it with `-- --nocapture` on the UNCHANGED tree and save the output as expected.txt, then run it with your change and check that the output is byte-for-byte identical. If the property is about the binary or on-disk state use a shell script driving {wt}/target/debug/any with HOME=<tempdir> instead.

For each change i (1..{n}) write into the directory {out}/r<i>/ :
  - patch.diff : the output of `git diff` for that change alone relative to the worktree's HEAD (only the src change, not the test),
  - equiv.rs (or equiv.sh) : the differential demonstration, and expected.txt : its output on the unchanged tree,
  - meta.json : {{"property": "{pid}", "summary": "<one sentence: what was rewritten>", "kind": "<rename|reorder|extract-helper|inline-helper|control-flow|loop-form|api-equivalent|additive>", "why_equivalent": "<the argument>", "verified": "<what you ran and observed>"}}

Procedure for each change: start from a clean tree (`git -C {wt} checkout -- . && git -C {wt} clean -fd tests`), write the equivalence test and record expected.txt on the unchanged tree, make the change, build, run the full test suite (must pass), run the equivalence test and diff against expected.txt (must be identical), save patch.diff, revert the source change. Only keep changes for which all of this holds. Do not edit existing tests. Do not add cfg flags or dependencies. Each patch.diff must apply alone to a clean HEAD.

When done, leave the worktree clean and reply with a short list: for each change its directory, kind and one-line summary. If you could not produce {n}, say how many and why.""")
