#!/usr/bin/env python3
"""Prints the prompt given to a mutation sub-agent: only the property text and its own scratch worktree."""
import json, sys
pid, wt, out = sys.argv[1], sys.argv[2], sys.argv[3]
n = sys.argv[4] if len(sys.argv) > 4 else "3"
import glob, os
known = ""
if len(sys.argv) > 5 and sys.argv[5] == "--avoid-known":
    ks = []
    for m in sorted(glob.glob("/verif/seeded/%s-*/meta.json" % pid)):
        ks.append("    - " + json.load(open(m))["breaks"][:300])
    known = "\n\nThe following changes are ALREADY KNOWN - do not produce these or close variants of them; find different sites, different mechanisms, different classes of input (also consider code far from the obvious place: helpers, generated tables in src/generated, tools/gen/data.toml, the binary src/bin, query.rs, config.rs, Display impls, trait impls):\n" + "\n".join(ks)
p = [json.loads(l) for l in open("/verif/properties.jsonl") if json.loads(l)["id"] == pid][0]
print(f"""You are testing how robust a Rust project's quality gates are. The project is `anything` (udoprog/anything): the `any` CLI, a unit-aware calculator with exact BigRational arithmetic, a hand-written lexer/parser, dimensional analysis and a tantivy-indexed fact lookup.

You have your own scratch git worktree of the repository at {wt} (work ONLY there; never touch /repo or /verif, and do not read anything under /verif). It builds offline: always pass --offline to cargo and set CARGO_TARGET_DIR={wt}/target. There is no network.

Here is a semantic property the project is supposed to satisfy:

  Title: {p['title']}
  Statement: {p['statement']}
  Quantified over: {p['quantifier']['text']}

Your task: produce {n} DIFFERENT, independent source changes (mutations) to the repository's non-test source (under src/, or tools/gen/data.toml + regenerated code if relevant), each of which
  1. BREAKS the property above (makes the program's observable behaviour violate it for some input / schedule / crash point / history),
  2. still COMPILES (cargo build --offline) and
  3. still PASSES the entire existing test suite unchanged: `cd {wt} && CARGO_TARGET_DIR={wt}/target cargo test --workspace --no-fail-fast --offline` (all tests must pass with the change applied), and
  4. is REALISTIC: the kind of slip a maintainer could make in a refactoring or a "small improvement" (an off-by-one, a swapped operand, a dropped guard, a wrong constant, a reordered pair of statements, a forgotten case, a sign error, a stale variable...), not sabotage that ordinary use would expose at once. Prefer changes that need something specific to manifest: an unusual input, a particular multi-step sequence, a specific class of values (negative, zero, very long, exponent form...), two cooperating sites that each look fine alone, a crash at a particular point, a particular thread interleaving.
  5. Each change should be small (a few lines) and touch different code or a different mechanism from the others.

For each mutation i (1..{n}) write into the directory {out}/m<i>/ :
  - patch.diff : the output of `git diff` for that change alone, relative to the worktree's HEAD (so that `git apply patch.diff` on a clean checkout reproduces it);
  - a demonstration that FAILS with the change and PASSES without it: preferably a Rust integration test file demo.rs that can be dropped into {wt}/tests/ (name it so it does not clash, e.g. tests/demo_m<i>.rs) using only the crate's public API (anything::parse, anything::query, anything::Db::in_memory(), anything::Rational, anything::Compound, ...; look at tests/entry.rs for how the existing tests drive the library), or, if the property is about the binary or on-disk state, a shell script demo.sh that builds and drives {wt}/target/debug/any (use HOME=<tempdir> so the data directory is private). State how to run it.
  - meta.json : {{"property": "{pid}", "summary": "<one sentence: what was changed>", "needs": "<what specific input/sequence/schedule is needed for it to manifest>", "demo_cmd": "<exact command to run the demonstration>", "verified": "<what you ran and observed: build ok, N tests pass with change, demo fails with change, demo passes without change>"}}

Procedure for each mutation: start from a clean tree (`git -C {wt} checkout -- . && git -C {wt} clean -fd tests`), make the change, build, run the full test suite (must pass), write the demo, run it (must fail), save patch.diff (only the src change, not the demo), revert the source change (`git -C {wt} checkout -- src tools`), run the demo again (must pass), then clean up the demo from tests/. You MUST actually run these steps and only keep mutations for which all of them hold; if a candidate fails a step, discard it and try another. Note the existing test-suite is small (58 tests in tests/ and src/rational/tests.rs) and much of the code (e.g. `^`, floor/ceil/round, percentages, descriptions, on-disk index, the binary) is not executed by any test.

{known}

Do not weaken or edit existing tests. Do not add cfg flags. Keep the mutations independent of each other (each patch.diff applies alone to a clean HEAD).

When done, leave the worktree clean (`git -C {wt} status --short` empty apart from target/) and reply with a short list: for each mutation its directory, one-line summary, and the verification you performed. If you could not produce {n}, say how many you produced and why.""")
