#!/usr/bin/env python3
"""usage: import_seed.py <seed-dir> <name>   -- copies a confirmed seeded change into /verif/seeded/<name>/"""
import json, os, shutil, sys
sd, name = sys.argv[1], sys.argv[2]
dst = os.path.join("/verif/seeded", name)
conf = open(os.path.join(sd, "confirm.txt")).read() if os.path.exists(os.path.join(sd, "confirm.txt")) else ""
if "RESULT: confirmed" not in conf:
    print("not confirmed:", sd); sys.exit(1)
os.makedirs(dst, exist_ok=True)
shutil.copy(os.path.join(sd, "patch.diff"), dst)
for f in ("demo.rs", "demo.sh"):
    if os.path.exists(os.path.join(sd, f)):
        shutil.copy(os.path.join(sd, f), dst)
m = json.load(open(os.path.join(sd, "meta.json")))
meta = {
    "property": m.get("property"),
    "breaks": m.get("summary"),
    "needs_to_manifest": m.get("needs"),
    "author": "independent sub-agent given only the property text and a scratch worktree",
    "agent_verification": m.get("verified"),
    "confirmed_by_me": "tools/confirm_seed.sh in a scratch worktree of /repo: " + " | ".join(l for l in conf.splitlines() if l),
    "demo": "demo.rs is dropped into tests/ of a scratch worktree (cargo test --offline --test <name>); demo.sh drives the binary with a private HOME",
    "caught_by": [],
}
old = os.path.join(dst, "meta.json")
if os.path.exists(old):
    meta["caught_by"] = json.load(open(old)).get("caught_by", [])
json.dump(meta, open(old, "w"), indent=1)
print("imported", name)
