#!/usr/bin/env python3
"""Runs every seeded change (and reintroduction mutant) against every check, in scratch worktrees (never in /repo).
usage: tools/seed_matrix.py [--refactors] [-j N] [names...]
Results are kept in <corpus>/matrix.json (one entry per change; a run with names only replaces those entries) and
rendered to <corpus>/MATRIX.md; seeded/*/meta.json (caught_by) and refactors/*/meta.json (checks_fired) are updated."""
import concurrent.futures
import json
import os
import queue
import subprocess
import sys

VERIF = os.path.dirname(os.path.dirname(os.path.abspath(__file__)))
PROPS = [c["property_id"] for c in json.load(open(os.path.join(VERIF, "MANIFEST.json")))["checks"]]
TIMEOUT = int(os.environ.get("MATRIX_CHECK_TIMEOUT", "1500"))
HOME_FIRST = False


def sh(cmd, **kw):
    return subprocess.run(cmd, shell=True, capture_output=True, text=True, **kw)


def work(idx, q, out):
    wt = "/tmp/mx-%d" % idx
    sh("git -C /repo worktree remove --force %s; rm -rf %s" % (wt, wt))
    sh("git -C /repo worktree add --detach %s HEAD" % wt)
    env = dict(os.environ, ANYSCAN_REPO=wt)
    while True:
        try:
            name, patch = q.get_nowait()
        except queue.Empty:
            break
        sh("git -C %s checkout -- . && git -C %s clean -fdq" % (wt, wt))
        a = sh("git -C %s apply %s" % (wt, patch))
        if a.returncode != 0:
            out.append((name, None, "patch does not apply: " + a.stderr.strip()[:200]))
            continue
        res = {}
        home = name.split("-")[0] if HOME_FIRST and not name.startswith("mutant:") else None
        order = ([home] + [p for p in PROPS if p != home]) if home in PROPS else list(PROPS)
        for p in order:
            if home is not None and p != home and res.get(home, "").startswith("caught: src"):
                # home-first mode: the home check reports the change; the other checks are not run in this pass (an earlier
                # full pass may have recorded them; they are kept)
                break
            try:
                c = subprocess.run(["./check", p], cwd=VERIF, env=env, capture_output=True, text=True, timeout=TIMEOUT)
            except subprocess.TimeoutExpired:
                res[p] = "caught: TIMEOUT after %d s (a check must terminate)" % TIMEOUT
                continue
            if c.returncode == 2:
                res[p] = "infra"
            else:
                viol = [l for l in c.stdout.splitlines() if l.startswith("VIOLATION")]
                first = next((l for l in c.stdout.splitlines() if ": rule " in l), "")
                res[p] = ("caught: " + first[:160]) if viol else "silent"
        out.append((name, res, ""))
        print("done", name, " ".join(p for p, v in res.items() if v != "silent") or "-", flush=True)
    sh("git -C /repo worktree remove --force %s; rm -rf %s" % (wt, wt))
    tag = __import__("hashlib").sha256(wt.encode()).hexdigest()[:8]
    sh("rm -rf %s/.cache/target-*-%s %s/.cache/facts/*-%s" % (VERIF, tag, VERIF, tag))


def main():
    args = sys.argv[1:]
    refactors = False
    if args and args[0] == "--refactors":
        refactors = True
        args = args[1:]
    global HOME_FIRST
    if args and args[0] == "--home-first":
        HOME_FIRST = True
        args = args[1:]
    j = 4
    if args and args[0] == "-j":
        j = int(args[1])
        args = args[2:]
    items = []
    sd = os.path.join(VERIF, "refactors" if refactors else "seeded")
    for n in sorted(os.listdir(sd)):
        p = os.path.join(sd, n, "patch.diff")
        if os.path.exists(p) and (not args or n in args):
            items.append((n, p))
    md = os.path.join(VERIF, "mutants")
    for n in sorted(os.listdir(md) if not refactors else []):
        if n.endswith(".diff") and (not args or "mutant:" + n[:-5] in args or n in args):
            items.append(("mutant:" + n[:-5], os.path.join(md, n)))
    q = queue.Queue()
    for it in items:
        q.put(it)
    results = []
    with concurrent.futures.ThreadPoolExecutor(j) as ex:
        futs = [ex.submit(work, i, q, results) for i in range(min(j, max(1, len(items))))]
        for f in futs:
            f.result()
    store_p = os.path.join(sd, "matrix.json")
    store = json.load(open(store_p)) if os.path.exists(store_p) else {}
    for name, res, err in results:
        if HOME_FIRST and res is not None and name in store and isinstance(store[name].get("res"), dict) and len(res) < len(PROPS):
            merged = dict(store[name]["res"])  # verdicts of checks not run in this pass are kept from the last full pass
            merged.update(res)
            res = merged
        store[name] = {"res": res, "err": err}
    # entries whose change no longer exists are dropped
    present = {n for n in os.listdir(sd) if os.path.exists(os.path.join(sd, n, "patch.diff"))}
    present |= {"mutant:" + n[:-5] for n in (os.listdir(md) if not refactors else []) if n.endswith(".diff")}
    store = {k: v for k, v in store.items() if k in present}
    json.dump(store, open(store_p, "w"), indent=0, sort_keys=True)
    rows = sorted((k, v["res"], v["err"]) for k, v in store.items())
    if refactors:
        lines = ["# Behaviour-preserving changes x checks", "",
                 "Every change here keeps all behaviour (differential demonstration by its author, patch read by me); a check that fires on one is a FALSE ALARM.",
                 "Produced by tools/seed_matrix.py --refactors (%d changes)." % len(rows), "", "| change | kind | checks that fire | first report |", "|---|---|---|---|"]
        for name, res, err in rows:
            if res is None:
                lines.append("| %s | | %s | |" % (name, err))
                continue
            mp = os.path.join(sd, name, "meta.json")
            m = json.load(open(mp))
            fired = [p for p, v in res.items() if v.startswith("caught")]
            infra = [p for p, v in res.items() if v == "infra"]
            lines.append("| %s | %s | %s%s | %s |" % (name, m.get("kind", ""), " ".join(fired) or "-", (" INFRA:" + " ".join(infra)) if infra else "",
                                                  (res[fired[0]][8:150].replace("|", "/") if fired else "")))
            m["checks_fired"] = fired
            json.dump(m, open(mp, "w"), indent=1)
        open(os.path.join(sd, "MATRIX.md"), "w").write("\n".join(lines) + "\n")
        print("\n".join(l for l in lines if "| - |" not in l))
        return
    lines = ["# Seeded changes x checks", "",
             "`caught` = the check exits 1 with a VIOLATION line when the change is applied to a scratch copy of /repo HEAD; `-` = silent.",
             "Produced by tools/seed_matrix.py (%d changes)." % len(rows), "", "| change | home property | caught by | silent home? |", "|---|---|---|---|"]
    for name, res, err in rows:
        if res is None:
            lines.append("| %s | | %s | |" % (name, err))
            continue
        home = name.split("-")[0] if not name.startswith("mutant:") else ""
        caught = [p for p, v in res.items() if v.startswith("caught")]
        lines.append("| %s | %s | %s | %s |" % (name, home, " ".join(caught) or "-", "MISSED" if (home and home in res and home not in caught) or not caught else ""))
        if not name.startswith("mutant:"):
            mp = os.path.join(sd, name, "meta.json")
            m = json.load(open(mp))
            m["caught_by"] = [{"check": p, "first_report": res[p][8:]} for p in caught]
            m["checks_run"] = "tools/seed_matrix.py: patch applied to a scratch worktree of /repo HEAD, `./check <P>` (quick tier) for every claimed property"
            json.dump(m, open(mp, "w"), indent=1)
    open(os.path.join(sd, "MATRIX.md"), "w").write("\n".join(lines) + "\n")
    print("\n".join(l for l in lines if "MISSED" in l or "does not apply" in l))


if __name__ == "__main__":
    main()
