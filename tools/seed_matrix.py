#!/usr/bin/env python3
"""Runs every seeded change (and reintroduction mutant) against every check, in scratch worktrees (never in /repo).
usage: tools/seed_matrix.py [-j N] [seed names...]     writes seeded/MATRIX.md and updates seeded/*/meta.json (caught_by)"""
import concurrent.futures
import json
import os
import subprocess
import sys

VERIF = os.path.dirname(os.path.dirname(os.path.abspath(__file__)))
PROPS = [c["property_id"] for c in json.load(open(os.path.join(VERIF, "MANIFEST.json")))["checks"]]


def sh(cmd, **kw):
    return subprocess.run(cmd, shell=True, capture_output=True, text=True, **kw)


def work(idx, items):
    wt = "/tmp/mx-%d" % idx
    sh("git -C /repo worktree remove --force %s" % wt)
    r = sh("git -C /repo worktree add --detach %s HEAD" % wt)
    out = []
    env = dict(os.environ, ANYSCAN_REPO=wt)
    for name, patch in items:
        sh("git -C %s checkout -- . && git -C %s clean -fdq" % (wt, wt))
        a = sh("git -C %s apply %s" % (wt, patch))
        if a.returncode != 0:
            out.append((name, None, "patch does not apply: " + a.stderr.strip()[:200]))
            continue
        res = {}
        for p in PROPS:
            c = subprocess.run(["./check", p], cwd=VERIF, env=env, capture_output=True, text=True)
            if c.returncode == 2:
                res[p] = "infra"
            else:
                viol = [l for l in c.stdout.splitlines() if l.startswith("VIOLATION")]
                first = next((l for l in c.stdout.splitlines() if ": rule " in l), "")
                res[p] = ("caught: " + first[:160]) if viol else "silent"
        out.append((name, res, ""))
    sh("git -C /repo worktree remove --force %s" % wt)
    sh("rm -rf %s/.cache/target-*-$(python3 -c \"import hashlib;print(hashlib.sha256(b'%s').hexdigest()[:8])\") %s/.cache/facts/*-$(python3 -c \"import hashlib;print(hashlib.sha256(b'%s').hexdigest()[:8])\")" % (VERIF, wt, VERIF, wt))
    return out


def main():
    args = sys.argv[1:]
    refactors = False
    if args and args[0] == "--refactors":
        refactors = True
        args = args[1:]
    j = 4
    if args and args[0] == "-j":
        j = int(args[1])
        args = args[2:]
    items = []
    sd = os.path.join(VERIF, "refactors" if refactors else "seeded")
    for n in sorted(os.listdir(sd)):
        p = os.path.join(sd, n, "patch.diff")
        if os.path.exists(p) and (not args or n in args):
            items.append((n, p))
    md = os.path.join(VERIF, "mutants")
    for n in sorted(os.listdir(md) if not refactors else []):
        if n.endswith(".diff") and (not args or n in args):
            items.append(("mutant:" + n[:-5], os.path.join(md, n)))
    chunks = [items[i::j] for i in range(j)]
    results = []
    with concurrent.futures.ThreadPoolExecutor(j) as ex:
        for r in ex.map(lambda a: work(*a), list(enumerate(chunks))):
            results.extend(r)
    results.sort()
    if refactors:
        lines = ["# Behaviour-preserving changes x checks", "",
                 "Every change here keeps all behaviour (differential demonstration by its author, patch read by me); a check that fires on one is a FALSE ALARM.",
                 "Produced by tools/seed_matrix.py --refactors.", "", "| change | kind | checks that fire | first report |", "|---|---|---|---|"]
        for name, res, err in results:
            if res is None:
                lines.append("| %s | | %s | |" % (name, err))
                continue
            mp = os.path.join(sd, name, "meta.json")
            m = json.load(open(mp))
            fired = [p for p, v in res.items() if v.startswith("caught")]
            infra = [p for p, v in res.items() if v == "infra"]
            lines.append("| %s | %s | %s%s | %s |" % (name, m.get("kind", ""), " ".join(fired) or "-", (" INFRA:" + " ".join(infra)) if infra else "",
                                                  (res[fired[0]][8:150].replace("|", "/") if fired else "")))
            m["checks_fired"] = fired
            json.dump(m, open(mp, "w"), indent=1)
        open(os.path.join(sd, "MATRIX.md"), "w").write("\n".join(lines) + "\n")
        print("\n".join(lines))
        return
    lines = ["# Seeded changes x checks", "",
             "`caught` = the check exits 1 with a VIOLATION line when the change is applied to a scratch copy of /repo HEAD; `-` = silent.",
             "Produced by tools/seed_matrix.py.", "", "| change | home property | caught by | silent home? |", "|---|---|---|---|"]
    for name, res, err in results:
        if res is None:
            lines.append("| %s | | %s | |" % (name, err))
            continue
        home = name.split("-")[0] if not name.startswith("mutant:") else ""
        caught = [p for p, v in res.items() if v.startswith("caught")]
        lines.append("| %s | %s | %s | %s |" % (name, home, " ".join(caught) or "-", "MISSED" if home and home in res and home not in caught else ""))
        if not name.startswith("mutant:"):
            mp = os.path.join(sd, name, "meta.json")
            m = json.load(open(mp))
            m["caught_by"] = [{"check": p, "first_report": res[p][8:]} for p in caught]
            m["checks_run"] = "tools/seed_matrix.py: patch applied to a scratch worktree of /repo HEAD, `./check <P>` (quick tier) for every claimed property"
            json.dump(m, open(mp, "w"), indent=1)
    open(os.path.join(sd, "MATRIX.md"), "w").write("\n".join(lines) + "\n")
    print("\n".join(lines))


if __name__ == "__main__":
    main()
