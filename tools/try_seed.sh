#!/bin/sh
# usage: tools/try_seed.sh <patch.diff> <PROP> [<PROP>...]   -- applies the patch to /repo, runs the checks, reverts
P="$(realpath "$1")"; shift
cd /repo || exit 2
if ! git diff --quiet; then echo "repo has uncommitted changes"; exit 2; fi
git apply "$P" || { echo "patch does not apply"; exit 2; }
cd /verif
for id in "$@"; do
  ./check "$id" 2>&1 | grep -v "^VIOLATION" | cut -c1-700 | tail -6
done
git -C /repo checkout -- . 
git -C /repo status --short | grep -v '^??' | head -3
