#!/bin/bash
# usage: tools/confirm_batch.sh <PROP> <first-number>   -- confirms /tmp/out-m-<PROP>/m* in /tmp/wt-m-<PROP>, imports as seeded/<PROP>-<n>
P="$1"; N="$2"
WT=/tmp/wt-m-$P
for d in /tmp/out-m-$P/m*; do
  [ -f "$d/patch.diff" ] || continue
  /verif/tools/confirm_seed.sh "$WT" "$d" > "$d/confirm.out" 2>&1
  if grep -q "RESULT: confirmed" "$d/confirm.txt" 2>/dev/null; then
    python3 /verif/tools/import_seed.py "$d" "$P-$N"
    N=$((N+1))
  else
    echo "NOT confirmed: $d"; tail -3 "$d/confirm.txt"
  fi
done
git -C /repo worktree remove --force "$WT"; rm -rf "$WT"
