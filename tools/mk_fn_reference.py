#!/usr/bin/env python3
"""Regenerates ref/fn_reference.json (signature and call-graph position of every function) from /repo's current tree.
Run it when /repo's HEAD legitimately moves (a reviewed rename); the checks never write it."""
import os, sys
sys.path.insert(0, os.path.dirname(os.path.dirname(os.path.abspath(__file__))))
from sa import extract, aliases
d, info = extract.extract("dev")
ref = aliases.write_reference(d)
print({k: len(v) for k, v in ref.items()})
