#![feature(rustc_private)]
#![allow(clippy::all)]
extern crate rustc_abi;
extern crate rustc_ast;
extern crate rustc_ast_pretty;
extern crate rustc_data_structures;
extern crate rustc_driver;
extern crate rustc_hir;
extern crate rustc_interface;
extern crate rustc_middle;
extern crate rustc_span;

use rustc_driver::Compilation;
use rustc_hir::def::DefKind;
use rustc_middle::mir::{self, Operand, Place, Rvalue, StatementKind, TerminatorKind};
use rustc_middle::ty::{self, TyCtxt};
use rustc_span::Span;
use std::fmt::Write;

fn esc(s: &str) -> String {
    let mut o = String::with_capacity(s.len() + 2);
    o.push('"');
    for c in s.chars() {
        match c {
            '"' => o.push_str("\\\""),
            '\\' => o.push_str("\\\\"),
            '\n' => o.push_str("\\n"),
            '\t' => o.push_str("\\t"),
            '\r' => o.push_str("\\r"),
            c if (c as u32) < 0x20 => {
                let _ = write!(o, "\\u{:04x}", c as u32);
            }
            c => o.push(c),
        }
    }
    o.push('"');
    o
}

struct Cx<'tcx> {
    tcx: TyCtxt<'tcx>,
}

impl<'tcx> Cx<'tcx> {
    fn span(&self, sp: Span) -> String {
        let sm = self.tcx.sess.source_map();
        // Walk out of macro expansions to the call site, remember macro names.
        let mut macros = Vec::new();
        let mut cur = sp;
        while cur.from_expansion() {
            let data = cur.ctxt().outer_expn_data();
            macros.push(format!("{}", data.kind.descr()));
            cur = data.call_site;
        }
        let lo = sm.lookup_char_pos(cur.lo());
        let hi = sm.lookup_char_pos(cur.hi());
        let file = match &lo.file.name {
            rustc_span::FileName::Real(r) => format!("{}", r.path(rustc_span::RemapPathScopeComponents::DIAGNOSTICS).display()),
            other => format!("{:?}", other),
        };
        let mac = macros.iter().map(|m| esc(m)).collect::<Vec<_>>().join(",");
        format!(
            "{{\"file\":{},\"line\":{},\"col\":{},\"end_line\":{},\"end_col\":{},\"macros\":[{}]}}",
            esc(&file),
            lo.line,
            lo.col.0 + 1,
            hi.line,
            hi.col.0 + 1,
            mac
        )
    }

    fn place(&self, body: &mir::Body<'tcx>, p: &Place<'tcx>) -> String {
        let mut proj = Vec::new();
        let mut pty = mir::PlaceTy::from_ty(body.local_decls[p.local].ty);
        for elem in p.projection.iter() {
            let s = match elem {
                mir::ProjectionElem::Deref => "{\"k\":\"deref\"}".to_string(),
                mir::ProjectionElem::Field(f, _) => {
                    let name = match pty.ty.kind() {
                        ty::Adt(adt, _) => {
                            let v = match pty.variant_index {
                                Some(v) => adt.variant(v),
                                None if adt.is_struct() => adt.non_enum_variant(),
                                None => adt.variant(rustc_abi::VariantIdx::from_u32(0)),
                            };
                            v.fields.get(f).map(|fd| fd.name.to_string()).unwrap_or_default()
                        }
                        _ => String::new(),
                    };
                    format!("{{\"k\":\"field\",\"i\":{},\"name\":{}}}", f.as_u32(), esc(&name))
                }
                mir::ProjectionElem::Downcast(name, v) => format!(
                    "{{\"k\":\"downcast\",\"variant\":{},\"i\":{}}}",
                    esc(&name.map(|n| n.to_string()).unwrap_or_default()),
                    v.as_u32()
                ),
                mir::ProjectionElem::Index(l) => format!("{{\"k\":\"index\",\"local\":{}}}", l.as_u32()),
                other => format!("{{\"k\":\"other\",\"dbg\":{}}}", esc(&format!("{:?}", other))),
            };
            proj.push(s);
            pty = pty.projection_ty(self.tcx, elem);
        }
        format!("{{\"local\":{},\"proj\":[{}]}}", p.local.as_u32(), proj.join(","))
    }

    fn konst(&self, c: &mir::ConstOperand<'tcx>) -> String {
        let ty = c.const_.ty();
        let tys = format!("{}", ty);
        // fn items
        if let ty::FnDef(did, args) = ty.kind() {
            return format!(
                "{{\"k\":\"fn\",\"path\":{},\"args\":{}}}",
                esc(&self.tcx.def_path_str(*did)),
                esc(&format!("{:?}", args))
            );
        }
        // pointers to statics, promoteds
        if let mir::Const::Val(mir::ConstValue::Scalar(rustc_middle::mir::interpret::Scalar::Ptr(ptr, _)), _) = c.const_ {
            let aid = ptr.provenance.alloc_id();
            if let Some(rustc_middle::mir::interpret::GlobalAlloc::Static(sdid)) = self.tcx.try_get_global_alloc(aid) {
                return format!(
                    "{{\"k\":\"static\",\"path\":{},\"ty\":{}}}",
                    esc(&self.tcx.def_path_str(sdid)),
                    esc(&tys)
                );
            }
        }
        if let mir::Const::Unevaluated(uv, _) = c.const_ {
            if let Some(pi) = uv.promoted {
                return format!(
                    "{{\"k\":\"promoted\",\"path\":{},\"index\":{},\"ty\":{}}}",
                    esc(&self.tcx.def_path_str(uv.def)),
                    pi.as_u32(),
                    esc(&tys)
                );
            }
        }
        let typing_env = ty::TypingEnv::fully_monomorphized();
        let mut val = String::from("null");
        if let Some(si) = c.const_.try_eval_scalar_int(self.tcx, typing_env) {
            let size = si.size();
            let bits = si.to_bits(size);
            let v: i128 = match ty.kind() {
                ty::Int(_) => size.sign_extend(bits) as i128,
                _ => bits as i128,
            };
            val = format!("\"{}\"", v);
        } else if matches!(ty.kind(), ty::Ref(_, inner, _) if inner.is_str()) {
            if let Ok(cv) = c.const_.eval(self.tcx, typing_env, c.span) {
                if let Some(bytes) = cv.try_get_slice_bytes_for_diagnostics(self.tcx) {
                    val = esc(&String::from_utf8_lossy(bytes));
                }
            }
        }
        format!("{{\"k\":\"const\",\"ty\":{},\"val\":{},\"dbg\":{}}}", esc(&tys), val, esc(&format!("{}", c.const_)))
    }

    fn operand(&self, body: &mir::Body<'tcx>, o: &Operand<'tcx>) -> String {
        match o {
            Operand::Copy(p) => format!("{{\"k\":\"copy\",\"place\":{}}}", self.place(body, p)),
            Operand::Move(p) => format!("{{\"k\":\"move\",\"place\":{}}}", self.place(body, p)),
            Operand::Constant(c) => self.konst(c),
            other => format!("{{\"k\":\"other\",\"dbg\":{}}}", esc(&format!("{:?}", other))),
        }
    }

    fn rvalue(&self, body: &mir::Body<'tcx>, rv: &Rvalue<'tcx>) -> String {
        match rv {
            Rvalue::Use(o, ..) => format!("{{\"k\":\"use\",\"op\":{}}}", self.operand(body, o)),
            Rvalue::Ref(_, bk, p) => format!(
                "{{\"k\":\"ref\",\"mut\":{},\"place\":{}}}",
                matches!(bk, mir::BorrowKind::Mut { .. }),
                self.place(body, p)
            ),
            Rvalue::RawPtr(_, p) => format!("{{\"k\":\"rawptr\",\"place\":{}}}", self.place(body, p)),
            Rvalue::BinaryOp(op, ab) => format!(
                "{{\"k\":\"binop\",\"op\":{},\"a\":{},\"b\":{}}}",
                esc(&format!("{:?}", op)),
                self.operand(body, &ab.0),
                self.operand(body, &ab.1)
            ),
            Rvalue::UnaryOp(op, a) => format!(
                "{{\"k\":\"unop\",\"op\":{},\"a\":{}}}",
                esc(&format!("{:?}", op)),
                self.operand(body, a)
            ),
            Rvalue::Cast(kind, o, ty) => format!(
                "{{\"k\":\"cast\",\"kind\":{},\"op\":{},\"ty\":{}}}",
                esc(&format!("{:?}", kind)),
                self.operand(body, o),
                esc(&format!("{}", ty))
            ),
            Rvalue::Discriminant(p) => format!("{{\"k\":\"discr\",\"place\":{}}}", self.place(body, p)),
            Rvalue::Repeat(o, ct) => match ct.try_to_target_usize(self.tcx) {
                Some(n) => format!("{{\"k\":\"repeat\",\"op\":{},\"n\":{}}}", self.operand(body, o), n),
                None => format!("{{\"k\":\"other\",\"dbg\":{}}}", esc(&format!("{:?}", rv))),
            },
            Rvalue::Aggregate(kind, ops) => {
                let k = match &**kind {
                    mir::AggregateKind::Tuple => "{\"k\":\"tuple\"}".to_string(),
                    mir::AggregateKind::Array(_) => "{\"k\":\"array\"}".to_string(),
                    mir::AggregateKind::Adt(did, v, ..) => {
                        let adt = self.tcx.adt_def(*did);
                        format!(
                            "{{\"k\":\"adt\",\"path\":{},\"variant\":{},\"vi\":{}}}",
                            esc(&self.tcx.def_path_str(*did)),
                            esc(&adt.variant(*v).name.to_string()),
                            v.as_u32()
                        )
                    }
                    mir::AggregateKind::Closure(did, _) => {
                        format!("{{\"k\":\"closure\",\"path\":{}}}", esc(&self.tcx.def_path_str(*did)))
                    }
                    other => format!("{{\"k\":\"other\",\"dbg\":{}}}", esc(&format!("{:?}", other))),
                };
                let ops: Vec<String> = ops.iter().map(|o| self.operand(body, o)).collect();
                format!("{{\"k\":\"aggregate\",\"kind\":{},\"ops\":[{}]}}", k, ops.join(","))
            }
            other => format!("{{\"k\":\"other\",\"dbg\":{}}}", esc(&format!("{:?}", other))),
        }
    }

    fn body(&self, did: rustc_hir::def_id::DefId, body: &mir::Body<'tcx>, promoted: i64, out: &mut String) {
        let tcx = self.tcx;
        let typing_env = ty::TypingEnv::post_analysis(tcx, did);
        let _ = write!(
            out,
            "{{\"path\":{},\"promoted\":{},\"kind\":{},\"span\":{},\"arg_count\":{},\"locals\":[",
            esc(&tcx.def_path_str(did)),
            promoted,
            esc(&format!("{:?}", tcx.def_kind(did))),
            self.span(body.span),
            body.arg_count
        );
        let mut names = std::collections::HashMap::new();
        for vdi in &body.var_debug_info {
            if let mir::VarDebugInfoContents::Place(p) = &vdi.value {
                if p.projection.is_empty() {
                    names.insert(p.local, vdi.name.to_string());
                }
            }
        }
        let mut first = true;
        for (l, d) in body.local_decls.iter_enumerated() {
            if !first {
                out.push(',');
            }
            first = false;
            let _ = write!(
                out,
                "{{\"id\":{},\"ty\":{},\"name\":{}}}",
                l.as_u32(),
                esc(&format!("{}", d.ty)),
                esc(names.get(&l).map(|s| s.as_str()).unwrap_or(""))
            );
        }
        out.push_str("],\"blocks\":[");
        let mut firstb = true;
        for (bb, data) in body.basic_blocks.iter_enumerated() {
            if !firstb {
                out.push(',');
            }
            firstb = false;
            let _ = write!(out, "{{\"id\":{},\"cleanup\":{},\"stmts\":[", bb.as_u32(), data.is_cleanup);
            let mut firsts = true;
            for st in &data.statements {
                let s = match &st.kind {
                    StatementKind::Assign(b) => format!(
                        "{{\"k\":\"assign\",\"place\":{},\"rv\":{},\"span\":{}}}",
                        self.place(body, &b.0),
                        self.rvalue(body, &b.1),
                        self.span(st.source_info.span)
                    ),
                    StatementKind::SetDiscriminant { place, variant_index } => format!(
                        "{{\"k\":\"setdiscr\",\"place\":{},\"vi\":{}}}",
                        self.place(body, place),
                        variant_index.as_u32()
                    ),
                    StatementKind::StorageLive(_) | StatementKind::StorageDead(_) | StatementKind::Nop => continue,
                    StatementKind::FakeRead(..) | StatementKind::AscribeUserType(..) | StatementKind::PlaceMention(..) => continue,
                    other => format!("{{\"k\":\"other\",\"dbg\":{}}}", esc(&format!("{:?}", other))),
                };
                if !firsts {
                    out.push(',');
                }
                firsts = false;
                out.push_str(&s);
            }
            out.push_str("],\"term\":");
            let term = data.terminator();
            let t = match &term.kind {
                TerminatorKind::Goto { target } => format!("{{\"k\":\"goto\",\"target\":{}}}", target.as_u32()),
                TerminatorKind::SwitchInt { discr, targets } => {
                    let ts: Vec<String> =
                        targets.iter().map(|(v, t)| format!("[\"{}\",{}]", v, t.as_u32())).collect();
                    format!(
                        "{{\"k\":\"switch\",\"discr\":{},\"discr_ty\":{},\"targets\":[{}],\"otherwise\":{}}}",
                        self.operand(body, discr),
                        esc(&format!("{}", discr.ty(&body.local_decls, tcx))),
                        ts.join(","),
                        targets.otherwise().as_u32()
                    )
                }
                TerminatorKind::Return => "{\"k\":\"return\"}".to_string(),
                TerminatorKind::Unreachable => "{\"k\":\"unreachable\"}".to_string(),
                TerminatorKind::UnwindResume => "{\"k\":\"resume\"}".to_string(),
                TerminatorKind::Drop { place, target, .. } => {
                    format!("{{\"k\":\"drop\",\"place\":{},\"target\":{}}}", self.place(body, place), target.as_u32())
                }
                TerminatorKind::Call { func, args, destination, target, .. } => {
                    let fty = func.ty(&body.local_decls, tcx);
                    let callee = if let ty::FnDef(cdid, gargs) = fty.kind() {
                        let resolved = ty::Instance::try_resolve(tcx, typing_env, *cdid, gargs).ok().flatten();
                        let (rp, rk) = match resolved {
                            Some(i) => (tcx.def_path_str(i.def_id()), format!("{:?}", std::mem::discriminant(&i.def))),
                            None => (String::new(), String::new()),
                        };
                        let _ = rk;
                        format!(
                            "{{\"k\":\"direct\",\"path\":{},\"resolved\":{},\"generics\":{},\"krate\":{}}}",
                            esc(&tcx.def_path_str(*cdid)),
                            esc(&rp),
                            esc(&format!("{:?}", gargs)),
                            esc(tcx.crate_name(cdid.krate).as_str())
                        )
                    } else {
                        format!("{{\"k\":\"indirect\",\"op\":{},\"ty\":{}}}", self.operand(body, func), esc(&format!("{}", fty)))
                    };
                    let a: Vec<String> = args.iter().map(|a| self.operand(body, &a.node)).collect();
                    format!(
                        "{{\"k\":\"call\",\"callee\":{},\"args\":[{}],\"dest\":{},\"target\":{}}}",
                        callee,
                        a.join(","),
                        self.place(body, destination),
                        target.map(|t| t.as_u32() as i64).unwrap_or(-1)
                    )
                }
                TerminatorKind::Assert { cond, expected, msg, target, .. } => format!(
                    "{{\"k\":\"assert\",\"cond\":{},\"expected\":{},\"msg\":{},\"target\":{}}}",
                    self.operand(body, cond),
                    expected,
                    esc(&format!("{:?}", msg)),
                    target.as_u32()
                ),
                other => format!("{{\"k\":\"other\",\"dbg\":{}}}", esc(&format!("{:?}", other))),
            };
            let _ = write!(out, "{{\"t\":{},\"span\":{}}}}}", t, self.span(term.source_info.span));
        }
        out.push_str("]}");
    }
}


#[derive(Default)]
struct Cb {
    ast: String,
}

fn attr_strings(attrs: &[rustc_ast::Attribute]) -> String {
    let v: Vec<String> = attrs
        .iter()
        .filter(|a| !a.is_doc_comment())
        .map(|a| esc(&rustc_ast_pretty::pprust::attribute_to_string(a)))
        .collect();
    format!("[{}]", v.join(","))
}

fn ast_items(items: &[Box<rustc_ast::Item>], module: &str, out: &mut Vec<String>) {
    use rustc_ast::ItemKind;
    for it in items {
        match &it.kind {
            ItemKind::Mod(_, ident, rustc_ast::ModKind::Loaded(inner, ..)) => {
                let m = if module.is_empty() { ident.name.to_string() } else { format!("{}::{}", module, ident.name) };
                ast_items(inner, &m, out);
            }
            ItemKind::Enum(ident, _, def) => {
                let vs: Vec<String> = def
                    .variants
                    .iter()
                    .map(|v| {
                        let fs: Vec<String> = v
                            .data
                            .fields()
                            .iter()
                            .map(|f| {
                                format!(
                                    "{{\"name\":{},\"attrs\":{}}}",
                                    esc(&f.ident.map(|i| i.name.to_string()).unwrap_or_default()),
                                    attr_strings(&f.attrs)
                                )
                            })
                            .collect();
                        format!(
                            "{{\"name\":{},\"attrs\":{},\"fields\":[{}]}}",
                            esc(&v.ident.name.to_string()),
                            attr_strings(&v.attrs),
                            fs.join(",")
                        )
                    })
                    .collect();
                out.push(format!(
                    "{{\"kind\":\"enum\",\"module\":{},\"name\":{},\"attrs\":{},\"variants\":[{}]}}",
                    esc(module),
                    esc(&ident.name.to_string()),
                    attr_strings(&it.attrs),
                    vs.join(",\n")
                ));
            }
            ItemKind::Struct(ident, _, data) => {
                let fs: Vec<String> = data
                    .fields()
                    .iter()
                    .map(|f| {
                        format!(
                            "{{\"name\":{},\"attrs\":{},\"ty\":{}}}",
                            esc(&f.ident.map(|i| i.name.to_string()).unwrap_or_default()),
                            attr_strings(&f.attrs),
                            esc(&rustc_ast_pretty::pprust::ty_to_string(&f.ty))
                        )
                    })
                    .collect();
                out.push(format!(
                    "{{\"kind\":\"struct\",\"module\":{},\"name\":{},\"attrs\":{},\"fields\":[{}]}}",
                    esc(module),
                    esc(&ident.name.to_string()),
                    attr_strings(&it.attrs),
                    fs.join(",")
                ));
            }
            _ => {}
        }
    }
}

fn wanted(krate: &str) -> bool {
    let want = std::env::var("ANYSCAN_CRATES").unwrap_or("anything,any".into());
    want.split(',').any(|w| w == krate)
}

impl rustc_driver::Callbacks for Cb {
    fn after_expansion<'tcx>(&mut self, _c: &rustc_interface::interface::Compiler, tcx: TyCtxt<'tcx>) -> Compilation {
        let krate = tcx.crate_name(rustc_hir::def_id::LOCAL_CRATE);
        if !wanted(krate.as_str()) {
            return Compilation::Continue;
        }
        let resolver = tcx.resolver_for_lowering().borrow();
        let ast_crate = &resolver.1;
        let mut out = Vec::new();
        ast_items(&ast_crate.items, "", &mut out);
        self.ast = out.join(",\n");
        Compilation::Continue
    }

    fn after_analysis<'tcx>(&mut self, _c: &rustc_interface::interface::Compiler, tcx: TyCtxt<'tcx>) -> Compilation {
        let krate = tcx.crate_name(rustc_hir::def_id::LOCAL_CRATE);
        if !wanted(krate.as_str()) {
            return Compilation::Continue;
        }
        let cx = Cx { tcx };
        let mut out = String::new();
        out.push_str("{\"crate\":");
        out.push_str(&esc(krate.as_str()));
        let _ = write!(
            out,
            ",\"debug_assertions\":{},\"overflow_checks\":{}",
            tcx.sess.opts.debug_assertions,
            tcx.sess.overflow_checks()
        );
        out.push_str(",\"fns\":[\n");
        let mut first = true;
        for def in tcx.hir_body_owners() {
            let did = def.to_def_id();
            let kind = tcx.def_kind(did);
            let body: &mir::Body<'tcx> = match kind {
                DefKind::Fn | DefKind::AssocFn | DefKind::Closure => tcx.optimized_mir(did),
                DefKind::Static { .. } => tcx.mir_for_ctfe(did),
                DefKind::Const { .. } | DefKind::AssocConst { .. } => {
                    if tcx.generics_of(did).requires_monomorphization(tcx) {
                        continue;
                    }
                    tcx.mir_for_ctfe(did)
                }
                _ => continue,
            };
            for (pi, pb) in tcx.promoted_mir(did).iter_enumerated() {
                if !first {
                    out.push_str(",\n");
                }
                first = false;
                cx.body(did, pb, pi.as_u32() as i64, &mut out);
            }
            if !first {
                out.push_str(",\n");
            }
            first = false;
            cx.body(did, body, -1, &mut out);
        }
        out.push_str("\n],\"consts\":[\n");
        let mut first = true;
        let items = tcx.hir_crate_items(());
        let mut const_ids: Vec<rustc_hir::def_id::DefId> = Vec::new();
        let mut adt_ids: Vec<rustc_hir::def_id::DefId> = Vec::new();
        for id in items.free_items() {
            let did = id.owner_id.to_def_id();
            match tcx.def_kind(did) {
                DefKind::Const { .. } => const_ids.push(did),
                DefKind::Struct | DefKind::Enum => adt_ids.push(did),
                _ => {}
            }
        }
        for id in items.impl_items() {
            let did = id.owner_id.to_def_id();
            if matches!(tcx.def_kind(did), DefKind::AssocConst { .. }) {
                const_ids.push(did);
            }
        }
        for did in const_ids {
            if tcx.generics_of(did).requires_monomorphization(tcx) {
                continue;
            }
            let ty = tcx.type_of(did).skip_binder();
            let v = match tcx.const_eval_poly(did) {
                Ok(mir::ConstValue::Scalar(rustc_middle::mir::interpret::Scalar::Int(si))) => {
                    let size = si.size();
                    let bits = si.to_bits(size);
                    let v: i128 = match ty.kind() {
                        ty::Int(_) => size.sign_extend(bits) as i128,
                        _ => bits as i128,
                    };
                    format!("\"{}\"", v)
                }
                Ok(cv @ mir::ConstValue::Slice { .. }) => match cv.try_get_slice_bytes_for_diagnostics(tcx) {
                    Some(b) => esc(&String::from_utf8_lossy(b)),
                    None => "null".to_string(),
                },
                _ => "null".to_string(),
            };
            if !first {
                out.push_str(",\n");
            }
            first = false;
            let _ = write!(
                out,
                "{{\"path\":{},\"ty\":{},\"val\":{},\"span\":{}}}",
                esc(&tcx.def_path_str(did)),
                esc(&format!("{}", ty)),
                v,
                cx.span(tcx.def_span(did))
            );
        }
        out.push_str("\n],\"adts\":[\n");
        let mut first = true;
        for did in adt_ids {
            let adt = tcx.adt_def(did);
            let mut vs = Vec::new();
            for (vi, v) in adt.variants().iter_enumerated() {
                let discr = if adt.is_enum() {
                    format!("\"{}\"", adt.discriminant_for_variant(tcx, vi).val)
                } else {
                    "null".to_string()
                };
                let fs: Vec<String> = v
                    .fields
                    .iter()
                    .map(|f| {
                        format!(
                            "{{\"name\":{},\"ty\":{}}}",
                            esc(&f.name.to_string()),
                            esc(&format!("{}", tcx.type_of(f.did).skip_binder()))
                        )
                    })
                    .collect();
                vs.push(format!(
                    "{{\"name\":{},\"discr\":{},\"fields\":[{}]}}",
                    esc(&v.name.to_string()),
                    discr,
                    fs.join(",")
                ));
            }
            if !first {
                out.push_str(",\n");
            }
            first = false;
            let _ = write!(
                out,
                "{{\"path\":{},\"is_enum\":{},\"span\":{},\"variants\":[{}]}}",
                esc(&tcx.def_path_str(did)),
                adt.is_enum(),
                cx.span(tcx.def_span(did)),
                vs.join(",")
            );
        }
        out.push_str("\n],\"ast\":[\n");
        out.push_str(&self.ast);
        out.push_str("\n]}\n");
        let dir = std::env::var("ANYSCAN_OUT").unwrap_or("/tmp/anyscan".into());
        std::fs::create_dir_all(&dir).unwrap();
        // one write per process
        let tmp = format!("{}/.{}.{}.tmp", dir, krate, std::process::id());
        std::fs::write(&tmp, out).unwrap();
        std::fs::rename(&tmp, format!("{}/{}.mir.json", dir, krate)).unwrap();
        Compilation::Continue
    }
}

fn main() {
    let mut args: Vec<String> = std::env::args().collect();
    // RUSTC_WORKSPACE_WRAPPER: argv[1] is the real rustc path
    args.remove(1);
    rustc_driver::run_compiler(&args, &mut Cb::default());
}
