#!/usr/bin/env python3
"""Regenerates MANIFEST.json from the table below (single source of truth)."""
import json, os
HERE = os.path.dirname(os.path.abspath(__file__))
props = [json.loads(l) for l in open(os.path.join(HERE, "properties.jsonl"))]

TRUST_MIR = "rustc's MIR for the current tree is the program (anyscan reads optimized_mir at mir-opt-level 0); "

CLAIMED = {
 "C10": dict(
   technique="abstract interpretation of MIR over a finite partition of Q (class table), exact transfer functions",
   text="Decides, for every rational x (16 classes of a finite partition of Q; 24 in the thorough tier, both MIR "
        "configurations), that Rational::floor/ceil/round return floor(x), ceil(x) and round-half-away-from-zero(x): "
        "each class follows exactly one MIR path and every num call on that path has an exact transfer function, so one "
        "abstract run covers all members of the class. This is a sound and complete decision for code that touches x only "
        "through num-rational calls; anything else is reported as undecided (fail closed).",
   note=TRUST_MIR + "num-rational's trunc/floor/ceil/round/denom behave as documented. Not decided: nothing of the "
        "integer-rounding clause; see DESIGN.md C10 for the remaining rules.",
   design="4/C10"),
 "C12": dict(
   technique="who-writes / who-calls rules, exact character-partition abstract interpretation of the lexer, must-pass-through on the parser",
   text="Decides the structural facts that make lexing and parsing lossless: Lexer.pos is written only by step() by the "
        "UTF-8 length of the character at pos; every token's length is pos - start; an abstract run of Lexer::next for "
        "every atom of the exact character partition (intervals no comparison of the lexer distinguishes) shows every "
        "call returns a non-empty token or None only at end of input and never panics; every loop of the lexer steps; "
        "Builder::token is fed only by Parser::bump with the head token; every lexed token is queued; root() leaves its "
        "loop only at EOF after flushing pending blanks.",
   note=TRUST_MIR + "syntree::Builder builds the tree it is told to; char::is_whitespace is Unicode White_Space.",
   design="4/C12"),
 "C14": dict(
   technique="call-site constant rule, dominance, constant agreement between schema, tokenizer registration and field use",
   text="Decides the clauses of schedule independence that are visible in the code: the only IndexWriter is created with "
        "exactly one indexing thread; the n-gram tokenizer is registered under the schema's tokenizer name before any use "
        "on every path; both index-creation paths use build_schema(); indexing and querying use the same field; the "
        "insertion loop iterates the embedded assets and skips only the sources file. Not decided: tantivy's internal "
        "determinism given one thread (trusted).",
   note=TRUST_MIR + "tantivy assigns doc ids in insertion order with one thread and breaks score ties by doc address; "
        "rust-embed iterates assets in a fixed order.",
   design="4/C14"),
 "C15": dict(
   technique="dominance / must-pass-through over MIR CFG, who-may-write census, slice of the rebuild flag",
   text="Decides the ordering and ownership facts recovery relies on, on every control-flow path: the marker is written "
        "only after commit and reload succeeded and only when not in memory; only write_meta creates it and only "
        "open_inner calls that; the marker is removed before the index directory is destroyed or recreated; a damaged "
        "marker cannot abort start-up; (false, index) is returned only behind version equality and a successful open; "
        "the rebuild flag is hash mismatch OR index_rebuild; in-memory sessions reach no file-system mutation.",
   note=TRUST_MIR + "tantivy's commit is atomic. Crash points are covered as 'between any two effects': the rules are "
        "orderings that hold on every path, not sampled crash points.",
   design="4/C15"),
 "C16": dict(
   technique="path summary of the indexing routine (symbolic document), call-site/slice rules on lookup, static decoding of the shipped data, index-term distinguishability over the shipped constants, exact character-partition run of the word lexer",
   text="Decides the necessary structural conditions of findability: Db::load_bytes indexes every constant of a document "
        "with its payload and every token, in order (path summary over a symbolic document); lookup decodes and returns "
        "the stored payload of the hit; all 878 shipped constants decode completely; with the tokenizer parameters read "
        "from the code no two typable constants with different words have identical index terms; the query lexer accepts "
        "the whole reference word alphabet. Not decided: which document wins tantivy's ranking.",
   note=TRUST_MIR + "tantivy ranks by BM25 over the n-gram terms; the ranking outcome itself is outside static reach.",
   design="4/C16"),
 "C17": dict(
   technique="table bijection (constants, statics, match arms, released ids, generator spec), impl-pair agreement, AST attribute rule, static CBOR decoding of shipped data",
   text="Decides that identifiers are unique, stable (equal to the released table the shipped data was written with) and "
        "bijective with the unit statics and the decode match; that the hand-written Serialize/Deserialize pairs of Derived "
        "and Rational use the same wire type; that no serde attribute alters the wire form of the types a Constant is made "
        "of; and that all 878 shipped constants decode against today's type definitions and id table.",
   note=TRUST_MIR + "serde_cbor / serde_json / num serde impls and attribute-free derives round-trip (trusted).",
   design="4/C17"),
 "C18": dict(
   technique="non-interference by control dependence and liveness, who-writes census, call-graph reachability",
   text="Decides that the describe flag is read at exactly one place; that what depends on it is exactly one unconditional "
        "push of (the looked-up phrase, a clone of the matched constant) and nothing the value is computed from; that "
        "nobody else mutates the descriptions; that evaluation can reach no index or file-system mutation and only holds "
        "shared references to a Db without interior mutability.",
   note=TRUST_MIR + "tantivy's searcher is read-only (trusted).",
   design="4/C18"),
 "C19": dict(
   technique="path summary of main (symbolic results, effect log of writes), compared with the specified line per path condition",
   text="Decides, for 0..2 symbolic query results, that on every path of any::main the writes for an Ok result are exactly "
        "the exact or the 12/12/true decimal rendering, a space iff has_numerator(), and the unit displayed with "
        "!value.is_one(); that an Err result is rendered by term::emit and the loop continues; that the only early exits "
        "are I/O failures; and that descriptions are printed in recorded order. Not decided: the text produced by the "
        "Display impls (C08).",
   note=TRUST_MIR + "Display impls render their values; structopt fills Opts from the command line.",
   design="4/C19"),
}

NA = {
 "C08": "printed-digit faithfulness is arithmetic on remainders and digit budgets across three formatter paths; no table, "
        "ordering, ownership or finite-partition structure decides it statically (DESIGN.md section 6)",
}

checks = []
for p in props:
    pid = p["id"]
    if pid in CLAIMED:
        c = CLAIMED[pid]
        checks.append({
            "property_id": pid,
            "quick_cmd": "./check %s --tier quick" % pid,
            "thorough_cmd": "./check %s --tier thorough" % pid,
            "evidence_file": "evidence/%s.json" % pid,
            "replay_cmd_template": "./check %s --replay {path}" % pid,
            "engine": "anyscan+rules",
            "level_claimed": {"category": "other", "text": c["text"], "design_ref": c["design"]},
            "level_note": c["note"],
            "technique": c["technique"],
        })
na = [{"property_id": p["id"], "reason": NA.get(p["id"], "check under construction (see DESIGN.md); not yet claimed")}
      for p in props if p["id"] not in CLAIMED]
m = {
 "version": 1,
 "setup_cmd": "./setup.sh",
 "hooks": {"guard": "anything_verif",
           "enable": "none needed: the checks analyse /repo's MIR and never execute it; there are no hook commits",
           "baseline_off_cmd": "cd /repo && cargo test --workspace --no-fail-fast --offline",
           "source_commits": [], "add_only": True},
 "engines": [
  {"name": "anyscan", "path": "driver/", "serves_properties": sorted(CLAIMED),
   "kind_free_text": "rustc_private driver (nightly) dumping structured MIR, evaluated constants, ADT definitions and "
                     "expanded-AST attributes of /repo's lib and bin as JSON facts"},
  {"name": "rules", "path": "sa/", "serves_properties": sorted(CLAIMED),
   "kind_free_text": "Python rule kernel: CFG/dominators, slices, call graph, table extraction, abstract interpreters "
                     "(class table, sign, affine, emptiness), typestate dataflow, longest-match token model, CBOR decoder"},
 ],
 "checks": checks,
 "not_applicable": na,
 "notes": "Static analysis only: every verdict is computed from /repo's current source without executing it. "
          "Known findings: known_findings.json. Design: DESIGN.md.",
}
json.dump(m, open(os.path.join(HERE, "MANIFEST.json"), "w"), indent=1)
print("claimed:", sorted(CLAIMED), "n/a:", [x["property_id"] for x in na])
