#!/usr/bin/env python3
"""Regenerates MANIFEST.json from the table below (single source of truth)."""
import json, os
HERE = os.path.dirname(os.path.abspath(__file__))
props = [json.loads(l) for l in open(os.path.join(HERE, "properties.jsonl"))]

TRUST_MIR = "rustc's MIR for the current tree is the program (anyscan reads optimized_mir at mir-opt-level 0); "

CLAIMED = {
 "C10": dict(
   technique="abstract interpretation of MIR over a finite partition of Q (class table), exact transfer functions",
   text="Decides, for every rational x (16 classes of a finite partition of Q; 24 in the thorough tier, both MIR "
        "configurations), that Rational::floor/ceil/round return floor(x), ceil(x) and round-half-away-from-zero(x): "
        "each class follows exactly one MIR path and every num call on that path has an exact transfer function, so one "
        "abstract run covers all members of the class. This is a sound and complete decision for code that touches x only "
        "through num-rational calls; anything else is reported as undecided (fail closed).",
   note=TRUST_MIR + "num-rational's trunc/floor/ceil/round/denom behave as documented. Not decided: nothing of the "
        "integer-rounding clause; see DESIGN.md C10 for the remaining rules.",
   design="4/C10"),
 "C12": dict(
   technique="accessor roles found by behaviour + who-writes rule; exact character-partition abstract interpretation of the lexer with pos abstracted to the number of consumed characters (exact token length); abstract runs of every Parser method on a sequence/stream/effect-log model (queue invariant); path-sensitive loop-progress graph",
   text="Decides the structural facts that make lexing and parsing lossless: Lexer.pos is written only by one stepping primitive, by the UTF-8 length of the character at pos; an abstract run of Lexer::next for every atom of the exact character partition shows every call returns a token whose len is exactly pos_after - pos_before > 0 (whatever helper builds it) or None only at end of input, and never panics; the graph of abstract loop-head states of every lexer function has no cycle that does not consume input; for every Parser method (queue lengths 0..2, small arguments, the lexer a stream of fresh tokens) the tokens handed to Builder::token followed by the queue afterwards are exactly the queue before followed by the newly lexed tokens, in order, each once; root() leaves its loop only at EOF after flushing pending blanks.",
   note=TRUST_MIR + "syntree::Builder builds the tree it is told to; char::is_whitespace is Unicode White_Space.",
   design="4/C12"),
 "C14": dict(
   technique="call-site constant rule, constant agreement between schema / tokenizer registration / field use, session summary of open_inner over symbolic assets (effect log, path conditions), path summary of load_bytes, hash-iteration census over the call graph",
   text="Decides the clauses of schedule independence that are visible in the code: the only IndexWriter is created with "
        "exactly one indexing thread; the n-gram tokenizer is registered under the schema's tokenizer name before any use "
        "on every path; both index-creation paths use build_schema(); indexing and querying use the same field; the "
        "insertion loop iterates the embedded assets and skips only the sources file. Not decided: tantivy's internal "
        "determinism given one thread (trusted).",
   note=TRUST_MIR + "tantivy assigns doc ids in insertion order with one thread and breaks score ties by doc address; "
        "rust-embed iterates assets in a fixed order.",
   design="4/C14"),
 "C15": dict(
   technique="effect summaries (ordered effect log + path conditions, helpers followed) of open_index and open_inner over a symbolic configuration; who-may-write closure over the call graph; dominance rules for the marker write",
   text="Decides the ordering and ownership facts recovery relies on, on every control-flow path: the marker is written "
        "only after commit and reload succeeded and only when not in memory; only write_meta creates it and only "
        "open_inner calls that; the marker is removed before the index directory is destroyed or recreated; a damaged "
        "marker cannot abort start-up; (false, index) is returned only behind version equality and a successful open; "
        "the rebuild flag is hash mismatch OR index_rebuild; in-memory sessions reach no file-system mutation.",
   note=TRUST_MIR + "tantivy's commit is atomic. Crash points are covered as 'between any two effects': the rules are "
        "orderings that hold on every path, not sampled crash points.",
   design="4/C15"),
 "C16": dict(
   technique="path summary of the indexing routine (symbolic document, helpers followed), summary of eval::eval on WORD / SENTENCE nodes (scripted syntax tree), call-site/slice rules on lookup, static decoding of the shipped data, index-term distinguishability over the shipped constants, exact character-partition run of the word lexer",
   text="Decides the necessary structural conditions of findability: Db::load_bytes indexes every constant of a document "
        "with its payload and every token, in order (path summary over a symbolic document); lookup decodes and returns "
        "the stored payload of the hit; all 878 shipped constants decode completely; with the tokenizer parameters read "
        "from the code no two typable constants with different words have identical index terms; the query lexer accepts "
        "the whole reference word alphabet. Not decided: which document wins tantivy's ranking.",
   note=TRUST_MIR + "tantivy ranks by BM25 over the n-gram terms; the ranking outcome itself is outside static reach.",
   design="4/C16"),
 "C17": dict(
   technique="table bijection (constants, statics, match arms, released ids, generator spec), effect summaries of the hand-written Serialize / Deserialize impls, AST attribute rule, static CBOR decoding of shipped data",
   text="Decides that identifiers are unique, stable (equal to the released table the shipped data was written with) and "
        "bijective with the unit statics and the decode match; that the hand-written Serialize/Deserialize pairs of Derived "
        "and Rational use the same wire type; that no serde attribute alters the wire form of the types a Constant is made "
        "of; and that all 878 shipped constants decode against today's type definitions and id table.",
   note=TRUST_MIR + "serde_cbor / serde_json / num serde impls and attribute-free derives round-trip (trusted).",
   design="4/C17"),
 "C18": dict(
   technique="non-interference by path summary of eval::eval on WORD / SENTENCE nodes with a symbolic describe flag and an arbitrary earlier description list (induction over the list), who-reads / who-writes census, call-graph reachability, shared description-order rule of the binary",
   text="Decides that the describe flag is read at exactly one place; that what depends on it is exactly one unconditional "
        "push of (the looked-up phrase, a clone of the matched constant) and nothing the value is computed from; that "
        "nobody else mutates the descriptions; that evaluation can reach no index or file-system mutation and only holds "
        "shared references to a Db without interior mutability.",
   note=TRUST_MIR + "tantivy's searcher is read-only (trusted).",
   design="4/C18"),
 "C19": dict(
   technique="path summary of main and the binary's own helpers (symbolic results, effect log of writes), compared with the specified line per path condition",
   text="Decides, for 0..2 symbolic query results, that on every path of any::main the writes for an Ok result are exactly "
        "the exact or the 12/12/true decimal rendering, a space iff has_numerator(), and the unit displayed with "
        "!value.is_one(); that an Err result is rendered by term::emit and the loop continues; that the only early exits "
        "are I/O failures; and that descriptions are printed in recorded order. Not decided: the text produced by the "
        "Display impls (Rational's: C08).",
   note=TRUST_MIR + "Display impls render their values; structopt fills Opts from the command line.",
   design="4/C19"),
 "C01": dict(
   technique="call-graph effect rule, table extraction, path summaries (symbolic terms + path conditions) of the operator functions, inductive one-turn summary of pow's product loop with its closed form, piecewise semantic (grid) comparison of the pow summary with base^exponent, eval-node summary for percentages, inductive bisimulation of the literal reader, shared precedence-stack induction",
   text="Decides the structural and per-path facts exactness rests on: nothing reachable from exact arithmetic touches a float "
        "or a lossy conversion; the operator characters are wired to the matching BigRational operations with operands in order "
        "(lexer run, op() run, dispatch table, 16 forwarding impls); every path of add/sub/mul/div/pow returns exactly the "
        "specified term (pow through the closed form of its recognised counting loop); division only behind a zero test, 0^-n "
        "only an error, recip only on a non-zero receiver; percent is /100; the fold is left to right; literals are read by a "
        "reader proved to be the decimal transducer. Trusted: num's BigRational.",
   note=TRUST_MIR + "num::BigRational / BigInt are exact. Path summaries are exhaustive over the paths of the analysed "
        "functions; the loop of pow is summarised by a recogniser whose side conditions are checked.",
   design="4/C01"),
 "C02": dict(
   technique="deviant-sibling rule on map updates, path summaries of add/sub and Compound::factor over symbolic maps, CFG edge rules on the cast arm",
   text="Decides that zero powers never stay in a dimension map (every site that updates a stored power removes the entry when "
        "the stored power becomes 0); that Compound::factor reaches 'commensurable' only after comparing sizes and every entry "
        "of the two base maps; that only Ok(true) yields a number in +, - and `to` and the other verdicts only errors; and "
        "that a plain number adopts the quantity's unit in either order (4 emptiness classes).",
   note=TRUST_MIR + "BTreeMap's entry API behaves as documented. The summary of factor uses two symbolic entries per map.",
   design="4/C02"),
 "C03": dict(
   technique="constant tables vs SI reference, path summaries of factor / mul / apply_conversion over symbolic maps compared with the specified composition, linearity of the 78 dimension tables",
   text="Decides that prefixes are the SI powers of ten in all four tables; that factor() computes exactly v * PROD_source[10^"
        "(prefix*power), to-base] * PROD_target[from-base, /10^(prefix*power)] for every combination of conversions (target "
        "side = reversed inverse of the source side); that mul normalises both operands identically; that Factor conversions "
        "are (n/d)^(+-power); that every dimension table is linear and affine closures are exact inverses. The algebraic laws "
        "follow by group algebra (argued, not machine-checked).",
   note=TRUST_MIR + "exact rational arithmetic (C01).",
   design="4/C03"),
 "C04": dict(
   technique="path summaries of eval::pow, Compound::pow, Compound::mul (all emptiness classes), its mapping closure and reconstruct over symbolic maps",
   text="Decides that a power raises the unit with checked multiplication (empty for exponent 0, error on overflow); that the "
        "base merge of a product uses power*n on both arms and removes zero sums; that a re-derived unit sheds exactly the "
        "power it is inserted with; that * passes n=+1 and / passes n=-1; that an empty side yields the other unit with "
        "powers*n and unchanged prefixes. Not decided: that the reconstruction heuristic is value preserving for every mix.",
   note=TRUST_MIR + "bases_match / inner_match are treated as an oracle returning some power (their result is used consistently).",
   design="4/C04"),
 "C05": dict(
   technique="table extraction (AST attributes, scripted runs of the generated parser's MIR, static evaluation of the 78 unit tables) vs generator spec and an independent reference; exhaustive enumeration of the vocabulary under a longest-match model; path summary of eval::unit",
   text="Decides that the generated token tables and per-token actions equal what data.toml prescribes; that each of the 78 "
        "unit tables has the dimensions and exact scale of an independently authored reference (SI brochure, 1959 agreement, "
        "NIST HB44); that the gram bias cancels; that every name alone and every typable prefix x name word (9481 words, "
        "thorough: all two-name words) parses to a valid reading under a longest-match model; that `/` flips, `^n` applies to "
        "the preceding unit and cancelling units disappear. Two known findings (pint, dalton) are pinned by existing tests.",
   note=TRUST_MIR + "logos implements longest match on literal tokens (the `dal` backtracking quirk of logos 0.13 is outside this model).",
   design="4/C05"),
 "C06": dict(
   technique="table extraction, typestate dataflow for the blank counter with consuming/using roles taken from the call graph, summaries of the parser primitives nth/eat/skip/count_skip on an abstract parser state, effect summary of value() for parenthesised groups (helpers followed), finite inductive abstract interpretation of the precedence stack, exact character-partition run for blanks",
   text="Decides the priority order to < +- < */ < ^; that no stale blank count is ever used; that nth and eat agree on the "
        "offset; that a parenthesised group is a node and root-level blanks are not evaluated; that every White_Space "
        "character lexes as a blank; and, inductively over all 15 invariant stacks x 4 priorities, that one turn of the "
        "precedence loop equals the reference precedence-climbing step (closes exactly the tighter groups, keeps the stack "
        "strictly increasing) and that the end closes all groups - i.e. precedence and left associativity for every sequence.",
   note=TRUST_MIR + "syntree's close_at wraps everything since the checkpoint. The lexer's `+4` / `-4` signed-number rule is as documented.",
   design="4/C06"),
 "C07": dict(
   technique="eval-node summaries (one reader on the literal's own text), overflow-site census over the reader's call tree, inductive bisimulation of the reader with a value-level reference transducer (all reachable code states x byte classes, symbolic N / d / E, loops followed into helpers, state found by type), abstract run of the lexer over literal shapes",
   text="Decides that both routes use one reader on exactly the token text; that all fixed-width counters are checked; that, "
        "with the accumulator standing for an arbitrary N and the counter for an arbitrary d, every turn of the main and "
        "exponent loops performs the decimal transducer's step for every byte value and the final value is (-)N*10^(+-E)/10^d "
        "(base case N=0,d=0) - an inductive proof of exact reading for literals of any length; and that each of the 48 "
        "well-formed literal shapes is lexed as one NUMBER token.",
   note=TRUST_MIR + "exact BigRational arithmetic (C01). Quick tier uses one representative per interval of byte values no comparison separates plus all digits; thorough all 256.",
   design="4/C07"),
 "C08": dict(
   technique="inductive transducer check of the decimal formatter on its MIR: path summary of the long-division generator step, "
             "summary of the value split and form dispatch, per-form prologue / arbitrary loop turn / epilogue with an output-atom log, "
             "bisimulation of the small-fraction loop with a reference machine, semantic (grid) comparison of summary terms; "
             "form-independent bounded path summaries of each of the three forms (constant limits, symbolic digits and generator) "
             "that decide the form where the inductive check cannot recognise the loop layout",
   text="Decides the structural and per-step facts faithfulness rests on, for all values, limits and thresholds at once: the digit "
        "generator performs exactly the long-division step (digit floor(10R/D), remainder 10R - D floor(10R/D), end iff R = 0); the "
        "value is split into sign, whole = floor(|n|/|d|), remainder and |d| and each form receives them in the positions in which it "
        "uses them; the form is chosen by digits(whole) >= exponent_limit (digits() checked inductively), then whole != 0 or "
        "remainder = 0; in each of the three forms, from an arbitrary loop state, one turn either leaves without consuming or pulls "
        "exactly one digit and prints exactly it (leading zeros of a small fraction are counted into the exponent instead), within the "
        "budget `limit`; the continuation mark is printed exactly when the remainder left by the last printed digit is non-zero (in the "
        "scientific form: or a cut-off digit of the whole part is not '0'); sign, point, zero padding and exponent are those of the "
        "reference machine. That these facts compose to 'the text is the truncation of the value' is an induction over the loop turns "
        "with the invariant value = printed + remainder/den * 10^-k (argued in DESIGN.md, not machine-checked).",
   note=TRUST_MIR + "exact BigInt arithmetic; std's Take asks its inner iterator only while its budget is positive; Peekable<Chars> over "
        "BigInt::to_string yields the decimal digits in order; integer Display prints the decimal numeral; the Formatter accepts every write. "
        "limit = 0 and exponent_limit = 0 are outside the property's quantifier and not decided.",
   design="4/C08"),
 "C09": dict(
   technique="affine-domain abstract interpretation of the conversion closures, path summary of apply_conversion over a symbolic power, provenance of the sole/power/direction arguments in factor, mul and reconstruct",
   text="Decides that the Fahrenheit and Celsius maps are exactly the defining affine maps and mutually inverse for every "
        "magnitude; that an offset conversion is performed only for a sole scale whose own power was compared equal to one, "
        "once, in the right direction, and refused otherwise; that every caller passes len(map)==1, the entry's own power and "
        "the right direction; and that prefix scaling and offset are composed in the right order on both sides.",
   note=TRUST_MIR + "exact rational arithmetic.",
   design="4/C09"),
 "C11": dict(
   technique="site census over the call graph with per-site discharge: rules evaluated in the same run (canonical form, integrality, zero-guard summaries, span provenance), automatic discharge by term-domain exploration (assertion implied on every path; divisor a term that cannot be zero), frozen exceptions; shared lexer termination runs",
   text="Decides that every panicking construct in hand-written code reachable from the entry points is discharged by a "
        "checked rule or is a frozen, commented exception, and that every error span is a node's span or the whole input. "
        "Not decided: i32 overflow beyond the property's stated bounds (45 compiler-inserted overflow assertions are listed), "
        "termination.",
   note=TRUST_MIR + "library code (num, syntree, tantivy, std) does not panic on valid arguments.",
   design="4/C11"),
 "C13": dict(
   technique="sibling agreement of path summaries, shared summaries of factor / mul / reconstruct, linearity of dimension tables",
   text="Decides that + and - (and * and /) are siblings differing only in the operator, that unit adoption is symmetric, "
        "that both operands of a product are normalised identically and re-derived units shed what they insert, and that "
        "dimension tables are linear. The field laws themselves follow from these facts with exact arithmetic (argued).",
   note=TRUST_MIR + "exact rational arithmetic (C01).",
   design="4/C13"),
}

NA = {}

# rules added after the first descriptions were written (shares of sibling rules and new summaries); appended to the texts
ADDED = {
 "C02": " Also: the units the additive operators compare are those the operand expressions denote (C02-R7 = the unit rules of ^ and of * / with a plain number); the `to` arm is decided on the summary of eval::eval on an OPERATION node (helpers followed).",
 "C03": " Also: prefix words add exactly their SI exponent and unit scales equal the reference table (C03-R8 = C05-R1/R2, two known unit-table defects listed); only commensurable units convert (C03-R9 = C02-R6).",
 "C04": " Also: the value of a power, 1 for exponent 0 whatever the base (C04-R10 = the pow clauses of C01-R4); every mix of * / ^ is grouped as the grammar prescribes (C04-R8 = C06-R1/R6); a unit is re-derived on the value of the operand it came from (C04-R9); every dimension table is linear in the power (C04-R6); the exponent of a displayed unit is the decimal digits of the computed power in superscript (C04-R7: digit table, digit-function arguments proved <= 9, boundary exponents).",
 "C06": " Also: a run of blanks is one WHITESPACE token (C06-R7: where the token ends the next character was looked at and is not a blank); whatever token starts a value, the blanks in front of it are skipped before any checkpoint is taken, so they stay outside its node (C06-R5); the evaluator folds every operator of a group left to right, a `to` in a chain included (C06-R8 = C01-R6, summary of eval::eval on OPERATION nodes with two and three operators).",
 "C07": " Also: a percent literal is its own decimal text / 100 (C07-R6 = C01-R5).",
 "C09": " Also: the magnitude converted is the magnitude written - sign, fraction digits, exponent (C09-R6 = C07-R4); the power guard sees the real power (C09-R5 = C04-R1/R5). The direction parameter of apply_conversion is found by behaviour (bool or enum).",
 "C10": " Also: a negative digits argument is one literal in every argument position - the lexer never looks at the text before the current position (C10-R8 = C12-R10).",
 "C12": " Also: the lexer reads the text forwards only (C12-R10); the parser primitives consume exactly what they promise (C12-R7 = C06-R4); every slice of the text runs between positions the lexer reached (C12-R8 = C11-R1's index obligations for syntax::*); parse() hands the parser the very text it keeps for the spans (C12-R9).",
 "C13": " Also: unit maps never keep cancelled entries, so equal quantities have equal representations (C13-R6 = C02-R1); a*b = b*a also with offset scales: each operand's units are re-derived on its own value (C13-R7 = C04-R9, found a defect, repaired in 42759a9); a / a = 1: the divisor's zero test is made on the normalised value and dominates the division (C13-R8 = the div clauses of C01-R4).",
 "C14": " Also: one segment per build - no function on an asset's loading path commits, merges or opens a writer (C14-R6); a re-opened index is a complete index of this build's data (C14-R7 = C15-R3/R4/R7: marker never outlives the index, trust only behind version equality, the hash covers every asset).",
 "C16": " Also: every kind of session serves a built index (C16-R8 = C15-R3/R4/R6); a constant's source id resolves through the id->index map built from the decoded list (C16-R9); every session that starts has loaded the sources (C16-R8); the constant reported for a phrase is the matched constant unchanged (C16-R10 = C18-R2); the decoders Db::lookup runs on a stored record are the inverses of the encoders that wrote it (C16-R11 = C17-R2).",
 "C15": " Also: open_index passes on an error only after a failed file-system change (an index that cannot be opened is rebuilt); open_index decides from the marker as read from disk; the index is created only in a wiped or absent directory; every session loads the sources; the hash that is compared covers the version and every existing asset's name and content (C15-R7, effect summary of Config::hash_assets).",
 "C17": " Also: the decoded source list keeps the positions its id map was built with (C17-R5 = C16-R9); the payload stored in the index is the encoding of the constant as decoded (C17-R6 = C16-R1).",
 "C18": " Also: any external call that receives a &mut vector or slice of descriptions is a write (sorting through DerefMut included); every result is reported - an evaluation error does not end the run before the report (C18-R5 += C19-R1); every session commits and reloads before it answers (C18-R6 = C15-R6).",
 "C05": " Also: an SI prefix symbol in front of an SI unit symbol keeps its SI meaning (C05-R8); a unit word met twice must carry the same prefix, found out before anything is changed (C05-R9, summary of Compound::update).",
 "C08": " Also: the scientific form is decided, whatever its code looks like, on whole parts of 1..5 digits with limits 0..3 (bounded form of C08-R6: the digit string is a sequence of symbolic characters, the fraction digits come from the symbolic generator); the plain form with limits 0..3 and the small-fraction form with 0..3 leading zeros, limits 1..3, exponent limits 1..3 likewise (bounded C08-R4 / R5); where the inductive forms cannot recognise the loop layout and the bounded form holds, that is a note, not a finding.",
 "C11": " Also: subtractions on unsigned integers whose operands are never compared are reported (they underflow for small values); error spans are in the caller's text (C11-R4 = C12-R9).",
 "C19": " Also: the binary's on-disk session answers like an in-memory one (C19-R5 = C14-R2, C15-R6); the 12-digit rendering is the faithful one (C19-R6 = C08-R1..R7); the exponent of a displayed unit is printed digit by digit, most significant first (C19-R7); the text of a compound unit: numerator units joined by a dot, a slash, denominator units with negated powers, only a sole numerator unit pluralised (C19-R8, summary of compound::Display); one unit is prefix (found for stored prefix + bias), name with the pluralize flag unchanged, exponent (C19-R9); base units print their SI symbol, derived units their own table's name (C19-R10).",
}
ALIAS_NOTE = (" Functions, types and fields renamed or moved against the reference tree (ref/fn_reference.json) are recognised by "
              "signature / shape and call-graph position and analysed under the names the rules know (sa/aliases.py); a consistent "
              "renaming preserves meaning, so this cannot hide a violation.")
FOUNDATION = (" The property is stated over the unit machinery, so it also includes the shared foundations (rule <id>-F): distinct units "
              "have distinct identities (C17-R1), standard base dimensions (C05-R2), canonical unit maps (C02-R1), arithmetic wrappers "
              "that forward unchanged (C01-R3), builtins that keep their argument's unit (C10).")
for k in ("C02", "C03", "C04", "C09", "C13"):
    ADDED[k] = ADDED.get(k, "") + FOUNDATION
for k, extra in ADDED.items():
    CLAIMED[k]["text"] = CLAIMED[k]["text"] + extra
for k in CLAIMED:
    CLAIMED[k]["note"] = CLAIMED[k]["note"] + ALIAS_NOTE

checks = []
for p in props:
    pid = p["id"]
    if pid in CLAIMED:
        c = CLAIMED[pid]
        checks.append({
            "property_id": pid,
            "quick_cmd": "./check %s --tier quick" % pid,
            "thorough_cmd": "./check %s --tier thorough" % pid,
            "evidence_file": "evidence/%s.json" % pid,
            "replay_cmd_template": "./check %s --replay {path}" % pid,
            "engine": "anyscan+rules",
            "level_claimed": {"category": "other", "text": c["text"], "design_ref": c["design"]},
            "level_note": c["note"],
            "technique": c["technique"],
        })
na = [{"property_id": p["id"], "reason": NA.get(p["id"], "check under construction (see DESIGN.md); not yet claimed")}
      for p in props if p["id"] not in CLAIMED]
m = {
 "version": 1,
 "setup_cmd": "./setup.sh",
 "hooks": {"guard": "anything_verif",
           "enable": "none needed: the checks analyse /repo's MIR and never execute it; there are no hook commits",
           "baseline_off_cmd": "cd /repo && cargo test --workspace --no-fail-fast --offline",
           "source_commits": [], "add_only": True},
 "engines": [
  {"name": "anyscan", "path": "driver/", "serves_properties": sorted(CLAIMED),
   "kind_free_text": "rustc_private driver (nightly) dumping structured MIR, evaluated constants, ADT definitions and "
                     "expanded-AST attributes of /repo's lib and bin as JSON facts"},
  {"name": "rules", "path": "sa/", "serves_properties": sorted(CLAIMED),
   "kind_free_text": "Python rule kernel: CFG/dominators, slices, call graph, table extraction, abstract interpreters "
                     "(class table, sign, affine, emptiness), typestate dataflow, longest-match token model, CBOR decoder"},
 ],
 "checks": checks,
 "not_applicable": na,
 "notes": "Static analysis only: every verdict is computed from /repo's current source without executing it. "
          "Known findings: known_findings.json. Design: DESIGN.md.",
}
json.dump(m, open(os.path.join(HERE, "MANIFEST.json"), "w"), indent=1)
print("claimed:", sorted(CLAIMED), "n/a:", [x["property_id"] for x in na])
