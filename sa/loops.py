"""Loop idiom recognisers used to summarise loops the term engine cannot bound."""
from . import facts as F
from . import flow
from .numnames import classify


def ref_target(body, operand, defs=None):
    """Local whose address the operand holds (through reborrows / copies), or None."""
    defs = defs or flow.Defs(body)
    seen = set()
    o = operand
    for _ in range(8):
        if o["k"] not in ("copy", "move"):
            return None
        p = o["place"]
        n = p["local"]
        if n in seen:
            return None
        seen.add(n)
        ds = defs.whole(n)
        if len(ds) != 1 or ds[0][0] != "assign":
            return None
        rv = ds[0][3]["rv"]
        if rv["k"] in ("ref", "rawptr"):
            pl = rv["place"]
            if not pl["proj"]:
                return pl["local"]
            if [e["k"] for e in pl["proj"]] == ["deref"]:
                o = {"k": "copy", "place": {"local": pl["local"], "proj": []}}
                continue
            return None
        if rv["k"] in ("use", "cast"):
            o = rv["op"]
            continue
        return None
    return None


def counted_product_loop(body):
    """Recognise

        let step = c.signum();            // before the loop
        while !c.is_zero() { acc *= &b; c -= &step; }

    Returns dict(head=block with the is_zero call, exit=block after the loop, body_entry=..., acc=, c=, b=, step=) or
    (None, reason).  On success the loop computes acc' = acc * b^|c| and leaves c = 0 (given step = signum(c))."""
    cfg = body.cfg
    defs = flow.Defs(body)
    cands = []
    for x in sorted(cfg.reach0):
        for s in cfg.succ[x]:
            if cfg.dominates(s, x):
                cands.append((x, s))
    for tail, head in cands:
        loop = {head} | {n for n in cfg.reach0 if head in cfg.reachable_from(n, avoid=()) and n in cfg.reachable_from(head)
                         and tail in cfg.reachable_from(n, avoid={head}) | {n}}
        loop = {n for n in loop if n == head or (n in cfg.reachable_after(head) and tail in (cfg.reachable_from(n, avoid={head})))}
        loop.add(head)
        calls = []
        for n in sorted(loop):
            t = body.blocks[n]["term"]["t"]
            if t["k"] == "call":
                calls.append((n, t, F.callee(t)))
        kinds = {}
        other = []
        for n, t, name in calls:
            c = classify(name)
            if c and c[1] == "is_zero" and c[0] == "BigInt":
                kinds.setdefault("is_zero", []).append((n, t))
            elif c and c[1] == "mul_assign" and c[0] in ("Rational", "Ratio"):
                kinds.setdefault("mul_assign", []).append((n, t))
            elif c and c[1] == "sub_assign" and c[0] == "BigInt":
                kinds.setdefault("sub_assign", []).append((n, t))
            else:
                other.append(name)
        if other or any(len(kinds.get(k, [])) != 1 for k in ("is_zero", "mul_assign", "sub_assign")):
            continue
        zb, zt = kinds["is_zero"][0]
        mb, mt = kinds["mul_assign"][0]
        sb, st = kinds["sub_assign"][0]
        if zb != head and not cfg.dominates(zb, tail):
            continue
        e = flow.bool_edges(body, zb)
        if e is None:
            continue
        sw, f_t, t_t = e
        # is_zero true leaves the loop, false enters the body
        if t_t in loop or f_t not in loop:
            continue
        # straight-line body: every block of the loop other than the switch has exactly one successor in the loop
        if any(len([s for s in cfg.succ[n] if s in loop]) != 1 for n in loop if n != sw):
            continue
        if not (cfg.every_path_passes(f_t, {tail}, {mb}) or mb == tail) or not (cfg.every_path_passes(f_t, {tail}, {sb}) or sb == tail):
            continue
        c = ref_target(body, zt["args"][0], defs)
        acc = ref_target(body, mt["args"][0], defs)
        b = ref_target(body, mt["args"][1], defs)
        c2 = ref_target(body, st["args"][0], defs)
        step = ref_target(body, st["args"][1], defs)
        if None in (c, acc, b, c2, step) or c != c2 or len({acc, b, c, step}) != 4:
            continue
        # b and step are loop invariant; step = signum(c) taken before the loop
        inv = True
        for l in (b, step):
            for kind, bid, idx, pl in defs.of(l):
                if bid in loop:
                    inv = False
        sdefs = defs.whole(step)
        if not inv or len(sdefs) != 1 or sdefs[0][0] != "call":
            continue
        sc = classify(F.callee(sdefs[0][3]))
        if not (sc and sc[0] == "BigInt" and sc[1] == "signum" and ref_target(body, sdefs[0][3]["args"][0], defs) == c):
            continue
        if not cfg.dominates(sdefs[0][1], head):
            continue
        # c is written only by its single definition before signum and by the sub_assign
        cdefs = defs.whole(c)
        if len(cdefs) != 1 or not cfg.dominates(cdefs[0][1], sdefs[0][1]):
            continue
        return {"head": head, "switch": sw, "exit": t_t, "body_entry": f_t, "acc": acc, "c": c, "b": b, "step": step,
                "blocks": sorted(loop)}, None
    return None, "no loop of the form `while !c.is_zero() { acc *= &b; c -= &signum(c0) }` found"


# ---- loop structure helpers shared by the inductive checks ------------------------------------------------------------
def loop_heads(body):
    """Targets of back edges, outermost first."""
    cfg = body.cfg
    hs = set()
    for b in cfg.reach0:
        for x in cfg.succ[b]:
            if cfg.dominates(x, b):
                hs.add(x)
    return sorted(hs, key=lambda h: len(cfg.dom[h]))


def loop_blocks(body, head):
    cfg = body.cfg
    fw = cfg.reachable_from(head)
    return {b for b in fw if head in cfg.reachable_after(b) and cfg.dominates(head, b)}


def variant_locals(body, head):
    """Locals assigned, mutably borrowed or written by a call inside the loop of `head` that are live at the head."""
    from . import cfg as _cfg
    live = getattr(body, "_live", None) or _cfg.liveness(body)
    body._live = live
    live_in, addr = live
    v = set()
    for bid in loop_blocks(body, head):
        b = body.blocks[bid]
        for st in b["stmts"]:
            if st["k"] != "assign":
                continue
            if not any(e["k"] == "deref" for e in st["place"]["proj"]):
                v.add(st["place"]["local"])
            rv = st["rv"]
            if rv["k"] == "ref" and rv.get("mut") and not any(e["k"] == "deref" for e in rv["place"]["proj"]):
                v.add(rv["place"]["local"])
        t = b["term"]["t"]
        if t["k"] == "call" and not t["dest"]["proj"]:
            v.add(t["dest"]["local"])
    return {l for l in v if l in live_in[head] or l in addr}
