"""Classification of resolved callee paths of the numeric tower (Rational -> num::BigRational -> BigInt)."""
import re

_TRAIT = re.compile(r"^<(?P<self>.+?) as (?P<trait>[^>]+(?:<.*>)?)>::(?P<m>\w+)$")
_IMPL = re.compile(r"^(?P<pre>.*)::<impl (?P<trait>.+?) for (?P<self>.+)>::(?P<m>\w+)$")


def _self_ty(s):
    s = s.strip()
    s = re.sub(r"^&('\w+ )?(mut )?", "", s)
    if s.startswith("rational::Rational"):
        return "Rational"
    if s.startswith("num::rational::Ratio") or s.startswith("num_rational::Ratio"):
        return "Ratio"
    if s.startswith("num::BigInt") or s.startswith("num_bigint::BigInt") or s.startswith("num::BigUint") or s.startswith("num_bigint::BigUint"):
        return "BigInt"
    return None


def classify(name):
    """-> (type, method, trait or '') for calls on Rational / Ratio / BigInt, else None."""
    if not name:
        return None
    m = _TRAIT.match(name)
    if m:
        ty = _self_ty(m.group("self"))
        if ty:
            return ty, m.group("m"), m.group("trait").split("<")[0]
        return None
    m = _IMPL.match(name)
    if m:
        ty = _self_ty(m.group("self"))
        if ty:
            return ty, m.group("m"), m.group("trait").split("<")[0]
        return None
    for pre, ty in (("rational::Rational::", "Rational"), ("num::rational::Ratio::<T>::", "Ratio"),
                    ("num::rational::Ratio::<num::BigInt>::", "Ratio"), ("num::BigInt::", "BigInt"), ("num_bigint::BigInt::", "BigInt"),
                    ("num::BigUint::", "BigInt"), ("num_bigint::BigUint::", "BigInt")):
        if name.startswith(pre) and "::" not in name[len(pre):]:
            return ty, name[len(pre):], ""
    if name.startswith("num::ToPrimitive::") or name.startswith("num::FromPrimitive::"):
        return "num", name.split("::")[-1], name.split("::")[1]
    return None


# trait method -> canonical operator
OPS = {"add": "+", "sub": "-", "mul": "*", "div": "/", "add_assign": "+=", "sub_assign": "-=",
       "mul_assign": "*=", "div_assign": "/=", "neg": "neg", "rem": "%", "rem_assign": "%="}

# operations that lose exactness or leave the rationals
LOSSY = {"to_f32", "to_f64", "from_float", "from_f32", "from_f64", "to_i8", "to_i16", "to_i32", "to_i64", "to_i128",
         "to_isize", "to_u8", "to_u16", "to_u32", "to_u64", "to_u128", "to_usize", "trunc", "round", "floor", "ceil",
         "to_integer", "fract"}
