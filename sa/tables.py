"""Table extraction from MIR: match tables, static value trees."""
from . import facts as F

STR_EQ = "core::str::traits::<impl std::cmp::PartialEq for str>::eq"


def _switch_on(body, bid, local):
    """Follow gotos from block `bid` to a switch on `local`; returns (false target, true target) or None."""
    seen = set()
    while bid not in seen:
        seen.add(bid)
        t = body.blocks[bid]["term"]["t"]
        if t["k"] == "goto":
            bid = t["target"]
            continue
        if t["k"] == "switch" and F.op_local(t["discr"]) == local:
            f = None
            for v, x in t["targets"]:
                if int(v) == 0:
                    f = x
            return f, t["otherwise"]
        return None
    return None


def str_match_table(body):
    """For `match s { "lit" => ..., }` compiled to a chain of str == const comparisons:
    returns {literal: block id reached when the comparison is true}."""
    out = {}
    for b, t, sp, name in body.calls(lambda n: n == STR_EQ):
        lit = None
        for a in t["args"]:
            v = F.const_val(a) if a["k"] == "const" else None
            if isinstance(v, str):
                lit = v
        d = F.op_local({"k": "copy", "place": t["dest"]})
        if lit is None or d is None or t["target"] < 0:
            continue
        sw = _switch_on(body, t["target"], d)
        if sw is None:
            continue
        out[lit] = sw[1]
    return out


def first_fn_in_block(body, bid):
    """First function item mentioned by a statement of the block (through a reify cast or a use)."""
    for s in body.blocks[bid]["stmts"]:
        if s["k"] != "assign":
            continue
        rv = s["rv"]
        ops = []
        if rv["k"] in ("use", "cast"):
            ops = [rv["op"]]
        elif rv["k"] == "aggregate":
            ops = rv["ops"]
        for o in ops:
            if o["k"] == "fn":
                return o["path"]
    return None


def builtin_table(facts):
    body = facts.fn("eval::builtin")
    if body is None:
        return {}
    return {lit: first_fn_in_block(body, bid) for lit, bid in str_match_table(body).items()}


def int_match_table(body, bid=None, local=None):
    """The value -> target table of the first switch in `body` whose discriminant is `local` (or the first switch
    at all when local is None)."""
    for b, t, sp in body.terms():
        if t["k"] != "switch":
            continue
        if bid is not None and b["id"] != bid:
            continue
        if local is not None and F.op_local(t["discr"]) != local:
            continue
        return {int(v): x for v, x in t["targets"]}, t["otherwise"], b["id"]
    return None


# ---- static value trees -----------------------------------------------------------------------------------
class StaticEvalError(Exception):
    pass


def static_value(facts, path, promoted=-1, crate="anything", _depth=0):
    """Evaluate the straight-line MIR of a static (or one of its promoteds) to a value tree:
       ints | ('fn', path) | ('closure', path) | {'adt': path, 'variant': name, 'fields': [..]} | ('str', s)
    References are transparent.  Reads of other statics are followed."""
    if _depth > 8:
        raise StaticEvalError("static evaluation too deep at %s" % path)
    body = facts.fn(path, crate) if promoted < 0 else facts.promoted(path, promoted, crate)
    if body is None:
        raise StaticEvalError("no body for %s[%s]" % (path, promoted))
    env = {}

    def operand(o):
        k = o["k"]
        if k == "const":
            v = F.const_val(o)
            if v is None:
                # a named constant of the crate (`const X: T = ...`): its own MIR gives the value
                nm = (o.get("dbg") or "").replace("const ", "").strip()
                cb = facts.fn(nm, crate)
                if cb is not None and cb.kind.startswith(("Const", "AssocConst")):
                    return static_value(facts, nm, -1, crate, _depth + 1)
                raise StaticEvalError("unevaluated constant %s in %s" % (o.get("dbg"), path))
            return v
        if k == "fn":
            return ("fn", o["path"])
        if k == "static":
            return static_value(facts, o["path"], -1, crate, _depth + 1)
        if k == "promoted":
            return static_value(facts, o["path"], o["index"], crate, _depth + 1)
        if k in ("copy", "move"):
            return place(o["place"])
        raise StaticEvalError("operand %s" % k)

    def place(p):
        if p["local"] not in env:
            raise StaticEvalError("read of unassigned local _%d in %s" % (p["local"], path))
        v = env[p["local"]]
        for e in p["proj"]:
            if e["k"] == "deref" or e["k"] == "downcast":
                continue
            if e["k"] == "field":
                if not isinstance(v, dict):
                    raise StaticEvalError("field of non-aggregate in %s" % path)
                v = v["fields"][e["i"]]
            else:
                raise StaticEvalError("projection %s" % e["k"])
        return v

    bid = 0
    seen = set()
    while True:
        if bid in seen:
            raise StaticEvalError("loop in static %s" % path)
        seen.add(bid)
        b = body.blocks[bid]
        for s in b["stmts"]:
            if s["k"] != "assign":
                continue
            rv = s["rv"]
            k = rv["k"]
            if k == "use":
                v = operand(rv["op"])
            elif k in ("ref", "rawptr"):
                v = place(rv["place"])
            elif k == "cast":
                v = operand(rv["op"])
                if isinstance(v, tuple) and v[0] == "closure":
                    v = ("fn", v[1])
            elif k == "aggregate":
                kind = rv["kind"]
                ops = [operand(o) for o in rv["ops"]]
                if kind["k"] == "closure":
                    v = ("closure", kind["path"])
                elif kind["k"] == "adt":
                    v = {"adt": kind["path"], "variant": kind["variant"], "fields": ops}
                else:
                    v = {"adt": kind["k"], "variant": None, "fields": ops}
            else:
                raise StaticEvalError("rvalue %s in static %s" % (k, path))
            if s["place"]["proj"]:
                raise StaticEvalError("projected assignment in static %s" % path)
            env[s["place"]["local"]] = v
        t = b["term"]["t"]
        if t["k"] == "return":
            return env.get(0)
        if t["k"] in ("goto", "drop"):
            bid = t["target"]
            continue
        raise StaticEvalError("terminator %s in static %s" % (t["k"], path))


def derived_statics(facts):
    """{static path: value tree} for every `static X: Derived` of the crate."""
    out = {}
    for b in facts.all:
        if b.crate != "anything" or b.promoted >= 0 or not b.kind.startswith("Static"):
            continue
        if b.local_ty(0) != "unit::Derived":
            continue
        out[b.path] = static_value(facts, b.path)
    return out


def id_to_derived_table(facts):
    """{id: static path} from the match in generated::ids::id_to_derived."""
    body = facts.fn("generated::ids::id_to_derived")
    if body is None:
        return None
    r = int_match_table(body)
    if r is None:
        return None
    tbl, other, sw = r
    out = {}
    for v, bid in tbl.items():
        st = None
        for s in body.blocks[bid]["stmts"]:
            if s["k"] == "assign" and s["rv"]["k"] == "use" and s["rv"]["op"]["k"] == "static":
                st = s["rv"]["op"]["path"]
        out[v] = st
    return out
