"""Table extraction from MIR: match tables, static value trees."""
from . import facts as F

STR_EQ = "core::str::traits::<impl std::cmp::PartialEq for str>::eq"


def _switch_on(body, bid, local):
    """Follow gotos from block `bid` to a switch on `local`; returns (false target, true target) or None."""
    seen = set()
    while bid not in seen:
        seen.add(bid)
        t = body.blocks[bid]["term"]["t"]
        if t["k"] == "goto":
            bid = t["target"]
            continue
        if t["k"] == "switch" and F.op_local(t["discr"]) == local:
            f = None
            for v, x in t["targets"]:
                if int(v) == 0:
                    f = x
            return f, t["otherwise"]
        return None
    return None


def str_match_table(body):
    """For `match s { "lit" => ..., }` compiled to a chain of str == const comparisons:
    returns {literal: block id reached when the comparison is true}."""
    out = {}
    for b, t, sp, name in body.calls(lambda n: n == STR_EQ):
        lit = None
        for a in t["args"]:
            v = F.const_val(a) if a["k"] == "const" else None
            if isinstance(v, str):
                lit = v
        d = F.op_local({"k": "copy", "place": t["dest"]})
        if lit is None or d is None or t["target"] < 0:
            continue
        sw = _switch_on(body, t["target"], d)
        if sw is None:
            continue
        out[lit] = sw[1]
    return out


def first_fn_in_block(body, bid):
    """First function item mentioned by a statement of the block (through a reify cast or a use)."""
    for s in body.blocks[bid]["stmts"]:
        if s["k"] != "assign":
            continue
        rv = s["rv"]
        ops = []
        if rv["k"] in ("use", "cast"):
            ops = [rv["op"]]
        elif rv["k"] == "aggregate":
            ops = rv["ops"]
        for o in ops:
            if o["k"] == "fn":
                return o["path"]
    return None


def builtin_table(facts):
    body = facts.fn("eval::builtin")
    if body is None:
        return {}
    return {lit: first_fn_in_block(body, bid) for lit, bid in str_match_table(body).items()}


def int_match_table(body, bid=None, local=None):
    """The value -> target table of the first switch in `body` whose discriminant is `local` (or the first switch
    at all when local is None)."""
    for b, t, sp in body.terms():
        if t["k"] != "switch":
            continue
        if bid is not None and b["id"] != bid:
            continue
        if local is not None and F.op_local(t["discr"]) != local:
            continue
        return {int(v): x for v, x in t["targets"]}, t["otherwise"], b["id"]
    return None
