import json, sys
import os,glob
import hashlib
_tag=hashlib.sha256(os.path.abspath(os.environ.get('ANYSCAN_REPO','/repo')).encode()).hexdigest()[:8]
d=json.load(open(os.path.join(os.path.dirname(os.path.dirname(os.path.abspath(__file__))),'.cache/facts/dev-'+_tag,os.environ.get('MIRPP_CRATE','anything')+'.mir.json')))
F={}
for f in d['fns']: F.setdefault(f['path'], []).append(f)
def pl(p):
    s='_%d'%p['local']
    for pr in p['proj']:
        s = {'deref':'(*%s)'%s,'field':'%s.%s'%(s,pr.get('name','')),'downcast':'(%s as %s)'%(s,pr.get('variant',''))}.get(pr['k'],s+'?')
    return s
def op(o):
    if o['k'] in('copy','move'): return o['k']+' '+pl(o['place'])
    if o['k']=='fn': return 'fn '+o['path']
    return 'const %s'%(o.get('val') if o.get('val') is not None else o.get('dbg'))
def rv(r):
    k=r['k']
    if k=='use': return op(r['op'])
    if k=='ref': return ('&mut ' if r['mut'] else '&')+pl(r['place'])
    if k=='binop': return '%s(%s, %s)'%(r['op'],op(r['a']),op(r['b']))
    if k=='unop': return '%s(%s)'%(r['op'],op(r['a']))
    if k=='discr': return 'discr(%s)'%pl(r['place'])
    if k=='aggregate':
        kk=r['kind']; nm = kk.get('path','')+('::'+kk['variant'] if kk.get('variant') else '') if kk['k'] in('adt','closure') else kk['k']
        return '%s{%s}'%(nm, ', '.join(op(o) for o in r['ops']))
    if k=='cast': return 'cast<%s>(%s)'%(r['kind'][:30],op(r['op']))
    return k+':'+r.get('dbg','')[:80]
def show(f, skip_cleanup=True):
    print('fn', f['path'], f['span']['file'], f['span']['line'])
    for l in f['locals']:
        if l['name'] or l['id']<=f['arg_count']: print('   let _%d: %s // %s'%(l['id'], l['ty'][:80], l['name']))
    for b in f['blocks']:
        if b['cleanup'] and skip_cleanup: continue
        print(' bb%d:'%b['id'])
        for s in b['stmts']:
            if s['k']=='assign': print('    %s = %s'%(pl(s['place']), rv(s['rv'])))
            else: print('    ', s)
        t=b['term']['t']; ln=b['term']['span']['line']
        if t['k']=='call':
            c=t['callee']; nm=(c.get('resolved') or c.get('path')) if c['k']=='direct' else 'INDIRECT '+op(c['op'])
            print('    %s = %s(%s) -> bb%s   // L%d'%(pl(t['dest']), nm, ', '.join(op(a) for a in t['args']), t['target'], ln))
        elif t['k']=='switch': print('    switch %s %s else bb%d  // L%d'%(op(t['discr']), t['targets'], t['otherwise'], ln))
        elif t['k']=='assert': print('    assert(%s == %s, %s) -> bb%d // L%d'%(op(t['cond']), t['expected'], t['msg'][:40], t['target'], ln))
        elif t['k'] in ('goto','drop'): print('    %s -> bb%d'%(t['k'], t['target']))
        else: print('    ', t['k'])
if __name__=='__main__':
    for name in sys.argv[1:]:
        for f in F[name]: show(f)
