"""Intra-procedural flow helpers over one MIR body: definitions, backward slices, success edges of fallible calls."""
from . import facts as F

TRY_BRANCH = "as std::ops::Try>::branch"
TRANSPARENT = (
    "as std::ops::Try>::branch", "as std::convert::From<T>>::from", "as std::convert::Into<U>>::into",
    "as std::clone::Clone>::clone", "as std::ops::Deref>::deref", "as std::convert::AsRef<T>>::as_ref",
    "as std::ops::DerefMut>::deref_mut", "as std::borrow::Borrow<T>>::borrow",
    "as std::iter::IntoIterator>::into_iter",
    "std::convert::Into::into", "std::convert::From::from",
    "Result::<T, E>::map_err", "Option::<T>::ok_or_else", "Option::<T>::ok_or",
    "for std::result::Result<T, E>>::with_context", "for std::result::Result<T, E>>::context",
)


class Defs:
    """All definitions of each local in a body (whole-local or projected writes)."""

    def __init__(self, body):
        self.body = body
        self.defs = {}  # local -> list of (kind, block id, index, payload)
        for b in body.blocks:
            if b["cleanup"]:
                continue
            for i, s in enumerate(b["stmts"]):
                if s["k"] == "assign":
                    self.defs.setdefault(s["place"]["local"], []).append(("assign", b["id"], i, s))
            t = b["term"]["t"]
            if t["k"] == "call":
                self.defs.setdefault(t["dest"]["local"], []).append(("call", b["id"], -1, t))

    def of(self, local):
        return self.defs.get(local, [])

    def whole(self, local):
        return [d for d in self.of(local) if not (d[3]["place"] if d[0] == "assign" else d[3]["dest"])["proj"]]


def slice_back(body, operand, defs=None, depth=24, through_calls=True, facts=None, through_agg=False):
    """Backward data slice of an operand.  Returns a set of leaves:
       ('param', n, fields) | ('const', value) | ('call', callee, block id) | ('agg', path/variant, block id)
       | ('fn', path) | ('static', path) | ('binop', op, block) | ('local', n) | ('other', text)
    Copies, moves, references, derefs, field projections (recorded), Try::branch / From / Into / Clone /
    Deref are looked through."""
    defs = defs or Defs(body)
    leaves = set()
    seen = set()

    def go_operand(o, fields, d):
        k = o["k"]
        if k == "const":
            v = F.const_val(o)
            leaves.add(("const", v if v is not None else o.get("dbg")))
        elif k == "fn":
            leaves.add(("fn", o["path"]))
        elif k == "static":
            leaves.add(("static", o["path"]))
        elif k == "promoted":
            pb = facts.promoted(o["path"], o["index"], body.crate) if facts is not None else None
            if pb is not None:
                for l in slice_back(pb, {"k": "copy", "place": {"local": 0, "proj": []}}, facts=facts):
                    leaves.add(l if l[0] in ("const", "fn", "static") else ("promoted", o["path"], o["index"]))
            else:
                leaves.add(("promoted", o["path"], o["index"]))
        elif k in ("copy", "move"):
            go_place(o["place"], fields, d)
        else:
            leaves.add(("other", o.get("dbg", "")))

    def go_place(p, fields, d):
        fs = tuple(F.place_fields(p)) + tuple(fields)
        go_local(p["local"], fs, d)

    def go_local(n, fields, d):
        key = (n, fields)
        if key in seen or d > depth:
            if d > depth:
                leaves.add(("local", n))
            return
        seen.add(key)
        if 1 <= n <= body.arg_count:
            leaves.add(("param", n, fields))
            # parameters may also be reassigned; continue to look at defs
        ds = defs.of(n)
        if not ds and not (1 <= n <= body.arg_count):
            leaves.add(("local", n))
        for kind, bid, idx, pl in ds:
            if kind == "assign":
                rv = pl["rv"]
                k = rv["k"]
                if k == "use":
                    go_operand(rv["op"], fields, d + 1)
                elif k in ("ref", "rawptr"):
                    go_place(rv["place"], fields, d + 1)
                elif k == "cast":
                    go_operand(rv["op"], fields, d + 1)
                elif k == "aggregate":
                    kind_ = rv["kind"]
                    nm = kind_.get("path", kind_["k"])
                    if kind_.get("variant"):
                        nm += "::" + kind_["variant"]
                    leaves.add(("agg", nm, bid))
                    if through_agg:
                        for o2 in rv["ops"]:
                            go_operand(o2, (), d + 1)
                elif k == "binop":
                    leaves.add(("binop", rv["op"], bid))
                elif k == "unop":
                    leaves.add(("unop", rv["op"], bid))
                elif k == "discr":
                    leaves.add(("discr", bid))
                else:
                    leaves.add(("other", k))
            else:
                name = F.callee(pl)
                if through_calls and any(name.endswith(t) or name == t for t in TRANSPARENT) and pl["args"]:
                    go_operand(pl["args"][0], fields, d + 1)
                else:
                    leaves.add(("call", name or "<indirect>", bid))

    go_operand(operand, (), 0)
    return leaves


def ok_edge(body, call_bid):
    """For a call whose result is a Result/Option examined by `?` or a match: returns
    (switch block id, success target block id, failure target ids) following Try::branch; None if not found."""
    t = body.blocks[call_bid]["term"]["t"]
    if t["k"] != "call" or t["target"] < 0:
        return None
    cur_local = t["dest"]["local"] if not t["dest"]["proj"] else None
    bid = t["target"]
    for _ in range(6):
        b = body.blocks[bid]
        # discriminant read + switch in this block?
        dl = None
        for s in b["stmts"]:
            if s["k"] == "assign" and s["rv"]["k"] == "discr" and s["rv"]["place"]["local"] == cur_local:
                dl = s["place"]["local"]
            elif s["k"] == "assign" and s["rv"]["k"] == "use" and F.op_local(s["rv"]["op"]) == cur_local \
                    and not s["place"]["proj"]:
                cur_local = s["place"]["local"]
        tt = b["term"]["t"]
        if tt["k"] == "switch" and dl is not None and F.op_local(tt["discr"]) == dl:
            succ = None
            fail = []
            for v, x in tt["targets"]:
                if int(v) == 0:
                    succ = x
                else:
                    fail.append(x)
            if tt["otherwise"] not in fail and tt["otherwise"] != succ:
                fail.append(tt["otherwise"])
            return bid, succ, fail
        if tt["k"] == "call" and F.callee(tt).endswith(TRY_BRANCH) and tt["args"] and \
                F.op_local(tt["args"][0]) == cur_local:
            cur_local = tt["dest"]["local"]
            bid = tt["target"]
            continue
        if tt["k"] in ("goto", "drop"):
            bid = tt["target"]
            continue
        return None
    return None


def option_some_edge(body, call_bid):
    """Like ok_edge for Option: success is discriminant 1."""
    r = ok_edge_generic(body, call_bid, 1)
    return r


def ok_edge_generic(body, call_bid, good):
    t = body.blocks[call_bid]["term"]["t"]
    if t["k"] != "call" or t["target"] < 0 or t["dest"]["proj"]:
        return None
    cur_local = t["dest"]["local"]
    bid = t["target"]
    for _ in range(6):
        b = body.blocks[bid]
        dl = None
        for s in b["stmts"]:
            if s["k"] == "assign" and s["rv"]["k"] == "discr" and s["rv"]["place"]["local"] == cur_local:
                dl = s["place"]["local"]
        tt = b["term"]["t"]
        if tt["k"] == "switch" and dl is not None and F.op_local(tt["discr"]) == dl:
            succ = None
            fail = []
            for v, x in tt["targets"]:
                if int(v) == good:
                    succ = x
                else:
                    fail.append(x)
            if succ is None:
                succ = tt["otherwise"]
            elif tt["otherwise"] not in fail:
                fail.append(tt["otherwise"])
            return bid, succ, fail
        if tt["k"] in ("goto", "drop"):
            bid = tt["target"]
            continue
        return None
    return None


def bool_edges(body, call_bid):
    """For a call returning bool that is switched on: (switch block, false target, true target)."""
    t = body.blocks[call_bid]["term"]["t"]
    if t["k"] != "call" or t["target"] < 0 or t["dest"]["proj"]:
        return None
    d = t["dest"]["local"]
    bid = t["target"]
    neg = False
    for _ in range(6):
        b = body.blocks[bid]
        for s in b["stmts"]:
            if s["k"] == "assign" and not s["place"]["proj"]:
                rv = s["rv"]
                if rv["k"] == "use" and F.op_local(rv["op"]) == d:
                    d = s["place"]["local"]
                elif rv["k"] == "unop" and rv["op"] == "Not" and F.op_local(rv["a"]) == d:
                    d = s["place"]["local"]
                    neg = not neg
        tt = b["term"]["t"]
        if tt["k"] == "switch" and F.op_local(tt["discr"]) == d:
            f = None
            for v, x in tt["targets"]:
                if int(v) == 0:
                    f = x
            tr = tt["otherwise"]
            if neg:
                f, tr = tr, f
            return bid, f, tr
        if tt["k"] in ("goto", "drop"):
            bid = tt["target"]
            continue
        return None
    return None


def calls_named(body, pred):
    return [(b["id"], t, sp, name) for b, t, sp, name in body.calls(pred)]


def guarded_by_edge(body, block_id, frm, to):
    """Every path from entry to block_id uses the edge frm->to."""
    return block_id in body.cfg.blocks_only_via_edge(frm, to)


def str_consts(body, operand, facts=None):
    """String constants an operand may evaluate to (through copies, refs and promoteds)."""
    return {l[1] for l in slice_back(body, operand, facts=facts) if l[0] == "const" and isinstance(l[1], str)}


def int_consts(body, operand, facts=None):
    return {l[1] for l in slice_back(body, operand, facts=facts) if l[0] == "const" and isinstance(l[1], int)
            and not isinstance(l[1], bool)}


VIEW_CALLS = ("Option::<T>::as_deref", "Option::<T>::as_ref", "String::as_str", "as std::borrow::ToOwned>::to_owned",
              "impl std::borrow::ToOwned for str>::to_owned", "Option::<T>::as_mut", "Option::<T>::as_deref_mut",
              "PathBuf::as_path", "String::as_bytes", "str::as_bytes")


def field_origins(body, operand, depth=16):
    """Named struct fields (of parameters or locals) an operand's value or address derives from, looking through
    references, copies, enum payload projections and view calls (as_deref, as_ref, Deref, Clone, to_owned ...).
    Returns a set of tuples of field names, e.g. {('meta', 'version')}."""
    defs = Defs(body)
    out = set()
    seen = set()

    def go(o, d):
        if o["k"] not in ("copy", "move") or d > depth:
            return
        p = o["place"]
        named = tuple(e.get("name", "") for e in p["proj"] if e["k"] == "field" and e.get("name", "") not in ("", "0", "1", "2"))
        if named:
            out.add(named)
            return
        n = p["local"]
        if n in seen:
            return
        seen.add(n)
        for kind, bid, idx, pl in defs.of(n):
            if kind == "assign":
                rv = pl["rv"]
                if rv["k"] in ("ref", "rawptr"):
                    go({"k": "copy", "place": rv["place"]}, d + 1)
                elif rv["k"] in ("use", "cast"):
                    go(rv["op"], d + 1)
            else:
                name = F.callee(pl)
                if pl["args"] and (any(name.endswith(t) for t in TRANSPARENT) or any(v in name for v in VIEW_CALLS)):
                    go(pl["args"][0], d + 1)
    go(operand, 0)
    return out


def is_mut_borrow(body, operand, depth=8):
    """The operand is (a reborrow / copy of) a mutable reference created in this body, or a &mut parameter."""
    defs = Defs(body)
    seen = set()

    def go(o, d):
        if o["k"] not in ("copy", "move") or d > depth:
            return False
        n = o["place"]["local"]
        if n in seen:
            return False
        seen.add(n)
        if body.local_ty(n).startswith("&mut "):
            return True
        for kind, bid, idx, pl in defs.of(n):
            if kind == "assign":
                rv = pl["rv"]
                if rv["k"] == "ref" and rv.get("mut"):
                    return True
                if rv["k"] in ("use", "cast") and go(rv["op"], d + 1):
                    return True
        return False
    return go(operand, 0)
