"""Fact extraction: run the anyscan rustc_private driver over /repo's working tree.

The facts are a pure function of the repository's source files and the MIR configuration,
so they are cached under /verif/.cache/facts/<cfg>/ keyed by a content hash of every file
the build reads (src/, db/, Cargo.toml, Cargo.lock, tools/gen/data.toml).  A changed tree
always re-runs the driver; a missing or stale fact file is an infrastructure error (exit 2),
never a pass.
"""
import fcntl
import hashlib
import json
import os
import shutil
import subprocess
import sys
import time

VERIF = os.path.dirname(os.path.dirname(os.path.abspath(__file__)))
CACHE = os.path.join(VERIF, ".cache")
DRIVER_DIR = os.path.join(VERIF, "driver")
DRIVER = os.path.join(DRIVER_DIR, "target", "release", "anyscan")

CONFIGS = {
    # debug assertions and overflow checks on: superset of the panicking sites
    "dev": "-Zmir-opt-level=0 -Awarnings",
    # release-like: rules must not pass merely because of a debug-only block
    "rel": "-Zmir-opt-level=0 -Awarnings -C debug-assertions=off -C overflow-checks=off",
}


class InfraError(Exception):
    pass


def repo_root():
    return os.environ.get("ANYSCAN_REPO", "/repo")


def _hash_tree(repo):
    h = hashlib.sha256()
    roots = ["src", "db", "Cargo.toml", "Cargo.lock", "tools/gen/data.toml"]
    for r in roots:
        p = os.path.join(repo, r)
        if os.path.isfile(p):
            files = [p]
        else:
            files = []
            for d, dirs, fs in os.walk(p):
                dirs.sort()
                for f in sorted(fs):
                    files.append(os.path.join(d, f))
        for f in files:
            h.update(os.path.relpath(f, repo).encode())
            h.update(b"\0")
            with open(f, "rb") as fh:
                h.update(hashlib.sha256(fh.read()).digest())
    # driver identity is part of the key
    try:
        st = os.stat(DRIVER)
        h.update(("%d:%d" % (st.st_size, int(st.st_mtime))).encode())
    except OSError:
        pass
    return h.hexdigest()


def nightly_sysroot():
    out = subprocess.run(["rustc", "+nightly", "--print", "sysroot"], capture_output=True, text=True)
    if out.returncode != 0:
        raise InfraError("no nightly toolchain: " + out.stderr)
    return out.stdout.strip()


def build_driver():
    env = dict(os.environ, CARGO_NET_OFFLINE="true")
    r = subprocess.run(["cargo", "build", "--release", "--offline"], cwd=DRIVER_DIR, env=env,
                       capture_output=True, text=True)
    if r.returncode != 0 or not os.path.exists(DRIVER):
        raise InfraError("driver build failed:\n" + r.stderr[-4000:])


def extract(cfg="dev", force=False):
    """Returns (dir with anything.mir.json and any.mir.json, info dict)."""
    repo = repo_root()
    if not os.path.isdir(os.path.join(repo, "src")):
        raise InfraError("no repository at %s" % repo)
    os.makedirs(CACHE, exist_ok=True)
    # one extraction at a time per (configuration, repository path): different scratch copies do not wait for each other
    tag0 = hashlib.sha256(os.path.abspath(repo).encode()).hexdigest()[:8]
    lock = open(os.path.join(CACHE, "extract-%s-%s.lock" % (cfg, tag0)), "w")
    fcntl.flock(lock, fcntl.LOCK_EX)
    try:
        # the driver is rebuilt when its source changed, and facts written by an older driver are not reused
        dsrc = os.path.join(DRIVER_DIR, "src", "main.rs")
        dkey = hashlib.sha256(open(dsrc, "rb").read()).hexdigest()[:12]
        dstamp = os.path.join(CACHE, "driver.key")
        if not os.path.exists(DRIVER) or not os.path.exists(dstamp) or open(dstamp).read().strip() != dkey:
            dlock = open(os.path.join(CACHE, "driver.lock"), "w")
            fcntl.flock(dlock, fcntl.LOCK_EX)
            try:
                if not os.path.exists(DRIVER) or not os.path.exists(dstamp) or open(dstamp).read().strip() != dkey:
                    build_driver()
                    with open(dstamp, "w") as fh:
                        fh.write(dkey)
            finally:
                fcntl.flock(dlock, fcntl.LOCK_UN)
                dlock.close()
        key = _hash_tree(repo) + ":" + dkey
        tag = hashlib.sha256(os.path.abspath(repo).encode()).hexdigest()[:8]
        out_dir = os.path.join(CACHE, "facts", cfg + "-" + tag)
        stamp = os.path.join(out_dir, "KEY")
        lib = os.path.join(out_dir, "anything.mir.json")
        binf = os.path.join(out_dir, "any.mir.json")
        if (not force and not os.environ.get("ANYSCAN_NOCACHE") and os.path.exists(stamp)
                and open(stamp).read().strip() == key and os.path.exists(lib) and os.path.exists(binf)):
            return out_dir, {"cached": True, "key": key, "cfg": cfg, "repo": repo}
        shutil.rmtree(out_dir, ignore_errors=True)
        os.makedirs(out_dir)
        target = os.path.join(CACHE, "target-%s-%s" % (cfg, tag))
        # cargo's freshness cache would silently skip the wrapper
        fp = os.path.join(target, "debug", ".fingerprint")
        if os.path.isdir(fp):
            for d in os.listdir(fp):
                if d.startswith("anything-"):
                    shutil.rmtree(os.path.join(fp, d), ignore_errors=True)
        env = dict(os.environ)
        env.update({
            "CARGO_NET_OFFLINE": "true",
            "LD_LIBRARY_PATH": nightly_sysroot() + "/lib:" + env.get("LD_LIBRARY_PATH", ""),
            "RUSTFLAGS": CONFIGS[cfg],
            "RUSTC_WORKSPACE_WRAPPER": DRIVER,
            "CARGO_TARGET_DIR": target,
            "ANYSCAN_OUT": out_dir,
            "ANYSCAN_CRATES": "anything,any",
        })
        env.pop("RUSTC_WRAPPER", None)
        t0 = time.time()
        r = subprocess.run(["cargo", "+nightly", "check", "--offline", "-p", "anything", "--lib", "--bins"],
                           cwd=repo, env=env, capture_output=True, text=True)
        if r.returncode != 0:
            raise InfraError("repository does not compile under the driver (cfg=%s):\n%s" % (cfg, r.stderr[-6000:]))
        for f in (lib, binf):
            if not os.path.exists(f) or os.path.getmtime(f) < t0 - 1:
                raise InfraError("fact file %s missing or stale after the driver run" % f)
        with open(stamp, "w") as fh:
            fh.write(key)
        return out_dir, {"cached": False, "key": key, "cfg": cfg, "repo": repo, "extract_s": round(time.time() - t0, 2)}
    finally:
        fcntl.flock(lock, fcntl.LOCK_UN)
        lock.close()


if __name__ == "__main__":
    try:
        for cfg in (sys.argv[1:] or ["dev"]):
            d, info = extract(cfg)
            print(d, json.dumps(info))
    except InfraError as e:
        print("INFRA-ERROR:", e, file=sys.stderr)
        sys.exit(2)
