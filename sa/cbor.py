"""Minimal CBOR decoder (RFC 8949 subset used by serde_cbor) - the shipped data files are read as data."""
import struct


class CborError(Exception):
    pass


def loads(b):
    v, i = _item(b, 0)
    if i != len(b):
        raise CborError("trailing bytes")
    return v


def _arg(b, i, ai):
    if ai < 24:
        return ai, i
    if ai == 24:
        return b[i], i + 1
    if ai == 25:
        return struct.unpack(">H", b[i:i + 2])[0], i + 2
    if ai == 26:
        return struct.unpack(">I", b[i:i + 4])[0], i + 4
    if ai == 27:
        return struct.unpack(">Q", b[i:i + 8])[0], i + 8
    if ai == 31:
        return None, i
    raise CborError("bad additional info %d" % ai)


def _item(b, i):
    ib = b[i]
    i += 1
    mt, ai = ib >> 5, ib & 31
    if mt == 7:
        if ai == 20:
            return False, i
        if ai == 21:
            return True, i
        if ai in (22, 23):
            return None, i
        if ai == 25:
            return struct.unpack(">e", b[i:i + 2])[0], i + 2
        if ai == 26:
            return struct.unpack(">f", b[i:i + 4])[0], i + 4
        if ai == 27:
            return struct.unpack(">d", b[i:i + 8])[0], i + 8
        if ai == 31:
            raise CborError("unexpected break")
        raise CborError("simple value %d" % ai)
    n, i = _arg(b, i, ai)
    if mt == 0:
        return n, i
    if mt == 1:
        return -1 - n, i
    if mt in (2, 3):
        if n is None:
            chunks = []
            while b[i] != 0xFF:
                c, i = _item(b, i)
                chunks.append(c)
            i += 1
            return (b"".join(chunks) if mt == 2 else "".join(chunks)), i
        raw = bytes(b[i:i + n])
        if len(raw) != n:
            raise CborError("truncated string")
        return (raw if mt == 2 else raw.decode("utf-8")), i + n
    if mt == 4:
        out = []
        if n is None:
            while b[i] != 0xFF:
                v, i = _item(b, i)
                out.append(v)
            return out, i + 1
        for _ in range(n):
            v, i = _item(b, i)
            out.append(v)
        return out, i
    if mt == 5:
        out = []
        if n is None:
            while b[i] != 0xFF:
                k, i = _item(b, i)
                v, i = _item(b, i)
                out.append((k, v))
            return Map(out), i + 1
        for _ in range(n):
            k, i = _item(b, i)
            v, i = _item(b, i)
            out.append((k, v))
        return Map(out), i
    if mt == 6:
        v, i = _item(b, i)
        return v, i
    raise CborError("major type %d" % mt)


class Map(list):
    """A CBOR map as an ordered list of pairs (keys may be unhashable)."""

    def get(self, k, default=None):
        for a, b in self:
            if a == k:
                return b
        return default

    def keys(self):
        return [a for a, _ in self]
