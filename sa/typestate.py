"""Typestate dataflow for the parser's blank counter `Skip`.

A `Skip` value says how many WHITESPACE tokens were peeked past at the moment it was produced.  It is
  F  fresh    produced by count_skip(), received from a callee / as a parameter, or a constant
  S  stale    some call has consumed tokens since it was produced
  D  don't care: a sub-parse failed (error recovery is not what the property quantifies over)
Forward may-analysis per Skip-typed local; stale wins at joins; D wins over both (a path through a failed sub-parse).
Uses of a stale value as an argument of nth / skip / eat / a grammar function, or as the returned skip, are reported."""
from . import facts as F
from . import flow
from .cfg import succs_of

P = "syntax::parser::Parser::<'a>::"
G = "syntax::grammar::"
SKIP_TY = "syntax::parser::Skip"


def grammar_functions(facts):
    return [b for b in facts.lib_bodies() if b.path.startswith(G) and b.kind in ("Fn", "AssocFn")]


def analyse(facts, body, consuming, uses, eat_like=None):
    """Returns (list of violations, stats).  consuming / uses: sets of callee paths; eat_like: consuming callees that
    return Result<bool> and consume only when they return true."""
    eat_like = eat_like if eat_like is not None else {P + "eat"}
    skips = {l["id"] for l in body.locals if l["ty"] == SKIP_TY}
    opt_skips = {l["id"] for l in body.locals if SKIP_TY in l["ty"] and l["id"] not in skips}
    cfg = body.cfg
    # eat(): consuming only on its true edge
    eat_edges = {}
    for bid, t, sp, nm in flow.calls_named(body, lambda n: n in eat_like):
        e = flow.ok_edge(body, bid)
        if not e:
            continue
        sw, okt, fails = e
        # find the switch on the boolean payload
        for x in sorted(cfg.reachable_from(okt)):
            tt = body.blocks[x]["term"]["t"]
            if tt["k"] == "switch" and tt.get("discr_ty") == "bool" and cfg.dominates(okt, x):
                ls = flow.slice_back(body, tt["discr"])
                if any(l[0] == "call" and l[1] in eat_like and l[2] == bid for l in ls):
                    neg = _negated(body, tt["discr"])
                    f = None
                    for v, y in tt["targets"]:
                        if int(v) == 0:
                            f = y
                    tr = tt["otherwise"]
                    if neg:
                        f, tr = tr, f
                    eat_edges[(x, f)] = "restore"
                    eat_edges[(x, tr)] = "consume"
                    break
    # None arms of sub-parse results
    none_edges = set()
    for bid, t, sp, nm in flow.calls_named(body, lambda n: n in consuming and n.startswith(G)):
        e = flow.ok_edge(body, bid)
        if not e:
            continue
        sw, okt, fails = e
        for x in sorted(cfg.reachable_from(okt)):
            tt = body.blocks[x]["term"]["t"]
            if tt["k"] == "switch" and cfg.dominates(okt, x):
                ls = flow.slice_back(body, tt["discr"])
                if any(l[0] == "discr" for l in ls) and _discr_of_call(body, tt["discr"], bid):
                    m = {int(v): y for v, y in tt["targets"]}
                    none_t = m.get(0, tt["otherwise"] if 1 in m else None)
                    if none_t is not None:
                        none_edges.add((x, none_t))
                    break
    IN = {0: {l: "F" for l in skips if 1 <= l <= body.arg_count}}
    work = [0]
    viol = {}
    n_uses = 0

    def join(a, b):
        if a == b:
            return a
        if "D" in (a, b):
            return "D"
        if "S" in (a, b) or "E" in (a, b):
            return "S" if "S" in (a, b) else "E"
        return a

    while work:
        bid = work.pop()
        st = dict(IN[bid])
        b = body.blocks[bid]
        if b["cleanup"]:
            continue

        def use(a, what, sp):
            nonlocal n_uses
            if a["k"] in ("copy", "move") and not a["place"]["proj"] and a["place"]["local"] in skips:
                n_uses += 1
                if st.get(a["place"]["local"]) in ("S", "E"):
                    viol[(what, sp["line"])] = (what, body.site(sp), body.local_name(a["place"]["local"]) or "_%d" % a["place"]["local"])

        for s in b["stmts"]:
            if s["k"] != "assign":
                continue
            rv, dst = s["rv"], s["place"]
            if rv["k"] == "aggregate" and rv["kind"].get("path") == "std::option::Option" and dst["local"] in opt_skips | {0}:
                for a in rv["ops"]:
                    use(a, "returned as Some(skip)", s["span"])
            if dst["proj"] or dst["local"] not in skips:
                continue
            L = dst["local"]
            if rv["k"] == "use" and rv["op"]["k"] in ("copy", "move") and not rv["op"]["place"]["proj"] and rv["op"]["place"]["local"] in skips:
                st[L] = st.get(rv["op"]["place"]["local"], "F")
            else:
                st[L] = "F"
        t = b["term"]["t"]
        if t["k"] == "call" and t["callee"]["k"] == "direct":
            c = F.callee(t)
            if c in uses:
                for a in t["args"]:
                    use(a, "argument of " + c.split("::")[-1], b["term"]["span"])
            if c in eat_like:
                for l in list(st):
                    if st[l] == "F":
                        st[l] = "E"
            elif c in consuming:
                for l in list(st):
                    if st[l] != "D":
                        st[l] = "S"
            dl = t["dest"]
            if not dl["proj"] and dl["local"] in skips:
                st[dl["local"]] = "F"
        for sx in succs_of(b):
            if body.blocks[sx]["cleanup"]:
                continue
            st2 = dict(st)
            act = eat_edges.get((bid, sx))
            if act == "restore":
                st2 = {l: ("F" if v == "E" else v) for l, v in st2.items()}
            elif act == "consume":
                st2 = {l: ("S" if v == "E" else v) for l, v in st2.items()}
            if (bid, sx) in none_edges:
                st2 = {l: "D" for l in st2}
            if sx not in IN:
                IN[sx] = st2
                work.append(sx)
            else:
                m = dict(IN[sx])
                ch = False
                for l, v in st2.items():
                    nv = join(m[l], v) if l in m else v
                    if m.get(l) != nv:
                        m[l] = nv
                        ch = True
                if ch:
                    IN[sx] = m
                    work.append(sx)
    return sorted(viol.values()), {"skip_locals": len(skips), "uses": n_uses, "eat_edges": len(eat_edges) // 2, "none_edges": len(none_edges)}


def _negated(body, operand):
    defs = flow.Defs(body)
    neg = False
    o = operand
    for _ in range(6):
        l = F.op_local(o)
        if l is None:
            return neg
        ds = defs.whole(l)
        if len(ds) != 1 or ds[0][0] != "assign":
            return neg
        rv = ds[0][3]["rv"]
        if rv["k"] == "unop" and rv["op"] == "Not":
            neg = not neg
            o = rv["a"]
        elif rv["k"] == "use":
            o = rv["op"]
        else:
            return neg
    return neg


def _discr_of_call(body, operand, call_bid):
    defs = flow.Defs(body)
    l = F.op_local(operand)
    if l is None:
        return False
    for d in defs.whole(l):
        if d[0] == "assign" and d[3]["rv"]["k"] == "discr":
            src = flow.slice_back(body, {"k": "copy", "place": d[3]["rv"]["place"]})
            if any(x[0] == "call" and x[2] == call_bid for x in src):
                return True
    return False
