"""Anchor alias resolution: a renamed or moved function is given back the name the rules know it by.

The rules address about forty hand-written functions by path (`eval::add`, `compound::apply_conversion`, `db::open_index`
...).  Renaming a private function is the most ordinary maintenance there is and changes no behaviour, so it must not
change a verdict.  `ref/fn_reference.json` records, for every function of the reference tree, its signature and its
position in the call graph (who refers to it, what it refers to).  When a function of the reference is missing from the
tree under analysis, the functions of the tree that the reference does not know are candidates; a candidate with the same
signature is accepted when it is the only one, or when its call-graph position (references in common, after the aliases
already found are applied) is the unique best.  The fact files are then read with the new path replaced by the old one
everywhere (bodies, callees, function constants, closure paths, types).

Soundness: a consistent (injective) renaming of functions preserves the meaning of the program, so whatever the rules
decide about the renamed program holds for the program as written; a wrong guess can only make an anchor look odd (a
false alarm), never hide a violation.  Reports keep the file:line of the real source and the aliases are listed in the
evidence."""
import json
import os
import re

REF = os.path.join(os.path.dirname(os.path.dirname(os.path.abspath(__file__))), "ref", "fn_reference.json")
_IDENT = "A-Za-z0-9_"


def _is_plain(path):
    return not path.startswith("<") and "{closure" not in path and "{constant" not in path and "{impl" not in path


def fingerprint(crate_json):
    """{path: {"sig": [...], "refs_out": [...], "refs_in": [...], "file": ...}} for the plain functions of one crate."""
    out = {}
    owner = {}
    fns = crate_json["fns"]
    for j in fns:
        if j["promoted"] >= 0:
            continue
        p = j["path"]
        if _is_plain(p):
            out.setdefault(p, {"sig": [l["ty"] for l in j["locals"][: j["arg_count"] + 1]], "refs_out": set(), "refs_in": set(),
                               "file": j["span"]["file"]})
    plain = sorted(out, key=len, reverse=True)

    def owner_of(p):
        if p in out:
            return p
        for q in plain:
            if p.startswith(q + "::"):
                return q
        return None

    def walk(x, acc):
        if isinstance(x, dict):
            k = x.get("k")
            if k == "fn" and "path" in x:
                acc.add(x["path"])
            if k == "direct":
                acc.add(x.get("resolved") or x.get("path") or "")
            if k == "closure" and "path" in x:
                acc.add(x["path"])
            for v in x.values():
                walk(v, acc)
        elif isinstance(x, list):
            for v in x:
                walk(v, acc)

    for j in fns:
        o = owner_of(j["path"])
        if o is None:
            continue
        acc = set()
        walk(j["blocks"], acc)
        for r in acc:
            if not r:
                continue
            ro = owner_of(r) or r
            if ro != o:
                out[o]["refs_out"].add(ro)
    for p, d in out.items():
        for r in d["refs_out"]:
            if r in out:
                out[r]["refs_in"].add(p)
    return out


def adt_shapes(crate_json):
    """{path: {"is_enum":, "variants": [[variant name, [[field name, field type]...]]...], "file":}}"""
    out = {}
    for a in crate_json.get("adts", []):
        out[a["path"]] = {"is_enum": bool(a["is_enum"]), "file": a["span"]["file"],
                          "variants": [[v["name"], [[f["name"], f["ty"]] for f in v["fields"]]] for v in a["variants"]]}
    return out


def write_reference(facts_dir, dest=REF):
    ref = {}
    for name in ("anything", "any"):
        with open(os.path.join(facts_dir, name + ".mir.json")) as fh:
            j = json.load(fh)
        fp = fingerprint(j)
        ref[name] = {p: {"sig": d["sig"], "refs_out": sorted(d["refs_out"]), "refs_in": sorted(d["refs_in"]), "file": d["file"]}
                     for p, d in sorted(fp.items())}
        ref[name + "#adts"] = adt_shapes(j)
    with open(dest, "w") as fh:
        json.dump(ref, fh, indent=0, sort_keys=True)
    return ref


def _parent(p):
    return p.rsplit("::", 1)[0] if "::" in p else ""


def resolve(cur, ref):
    """cur, ref: fingerprints of one crate.  -> {new path: reference path}."""
    missing = [p for p in ref if p not in cur]
    new = [p for p in cur if p not in ref]
    alias = {}
    if not missing or not new:
        return alias
    # children of a renamed parent follow their parent: handle the outermost paths first
    missing.sort(key=lambda p: (p.count("::"), p))
    changed = True
    while changed:
        changed = False
        inv = {v: k for k, v in alias.items()}

        def canon(p):
            # current name -> reference name, also for paths below a renamed parent
            if p in alias:
                return alias[p]
            for n, o in alias.items():
                if p.startswith(n + "::"):
                    return o + p[len(n):]
            return p

        for m in missing:
            if m in inv:
                continue
            # below an aliased parent the child keeps its own last segment
            par = _parent(m)
            if par in inv and (inv[par] + m[len(par):]) in cur:
                alias[inv[par] + m[len(par):]] = m
                changed = True
                continue
            cands = [c for c in new if c not in alias and cur[c]["sig"] == ref[m]["sig"]]
            if not cands:
                continue
            rin, rout = set(ref[m]["refs_in"]), set(ref[m]["refs_out"])

            def score(c):
                cin = {canon(x) for x in cur[c]["refs_in"]}
                cout = {canon(x) for x in cur[c]["refs_out"]}
                return (len(cin & rin) + len(cout & rout), 1 if canon(_parent(c)) == par else 0, 1 if cur[c]["file"] == ref[m]["file"] else 0)

            # every candidate must itself be a function the reference lacks a counterpart for; several missing functions may
            # compete for it, so it is taken only if m is also c's best match
            ranked = sorted(cands, key=score, reverse=True)
            best = ranked[0]
            if len(ranked) > 1 and score(ranked[1]) == score(best):
                continue
            rivals = [x for x in missing if x not in inv and x != m and ref[x]["sig"] == cur[best]["sig"]]
            if rivals:
                bin_ = {canon(x) for x in cur[best]["refs_in"]}
                bout = {canon(x) for x in cur[best]["refs_out"]}

                def back(x):
                    return (len(bin_ & set(ref[x]["refs_in"])) + len(bout & set(ref[x]["refs_out"])), 1 if canon(_parent(best)) == _parent(x) else 0,
                            1 if cur[best]["file"] == ref[x]["file"] else 0)
                if any(back(x) >= back(m) for x in rivals):
                    continue
            alias[best] = m
            changed = True
    return alias


def rewrite(text, alias):
    """Replace each new path by its reference path in the raw fact text (whole path segments only)."""
    for n in sorted(alias, key=len, reverse=True):
        o = alias[n]
        # rustc prints paths of impl items with the generics of the impl (Parser::<'a>::nth); the path is matched literally
        text = re.sub(r"(?<![%s:])%s(?![%s])" % (_IDENT, re.escape(n), _IDENT), o.replace("\\", "\\\\"), text)
    return text


def _shape_key(path, shape, types_only):
    """Shape of an ADT with its own name abstracted away (a struct's only variant is named after the type)."""
    last = path.rsplit("::", 1)[-1]
    vs = []
    for vn, fs in shape["variants"]:
        vs.append(("%self" if (not shape["is_enum"] and vn == last) else vn,
                   tuple((None if types_only else fn, re.sub(r"(?<![%s:])%s(?![%s])" % (_IDENT, re.escape(path), _IDENT), "%self", ft)) for fn, ft in fs)))
    return (shape["is_enum"], tuple(vs))


def resolve_adts(cur, ref):
    """Renamed or moved types: {new path: reference path} - the same variants, field names and field types."""
    missing = [p for p in ref if p not in cur]
    new = [p for p in cur if p not in ref]
    alias = {}
    for m in sorted(missing):
        km = _shape_key(m, ref[m], False)
        cands = [n for n in new if n not in alias and _shape_key(n, cur[n], False) == km]
        if len(cands) > 1:
            same_file = [n for n in cands if cur[n]["file"] == ref[m]["file"]]
            cands = same_file if len(same_file) == 1 else cands
        if len(cands) == 1 and not [x for x in missing if x != m and _shape_key(x, ref[x], False) == km]:
            alias[cands[0]] = m
    return alias


def resolve_fields(cur, ref):
    """Renamed fields of a type that is otherwise unchanged: [(adt path, variant index, field index, new name, old name)].
    Only names that no type of the reference uses for a field are taken (so that a projection by that name is unambiguous)."""
    used = {fn for sh in ref.values() for _, fs in sh["variants"] for fn, _ in fs}
    out = []
    for p, sh in ref.items():
        c = cur.get(p)
        if c is None or _shape_key(p, c, True) != _shape_key(p, sh, True):
            continue
        for vi, ((_, fs_old), (_, fs_new)) in enumerate(zip(sh["variants"], c["variants"])):
            for fi, ((o, _), (n, _)) in enumerate(zip(fs_old, fs_new)):
                if o != n:
                    if n in used or any(x[3] == n and x[4] != o for x in out):
                        return []  # ambiguous: leave everything as it is (fail closed in the rules)
                    out.append((p, vi, fi, n, o))
    return out


def resolve_variants(cur, ref):
    """Renamed variants of an enum that is otherwise unchanged (same number of variants, same payload types in order):
    [(adt path, variant index, new name, old name)].  Only names that no enum of the reference uses for a variant."""
    used = {vn for sh in ref.values() for vn, _ in sh["variants"]}
    out = []
    for p, sh in ref.items():
        c = cur.get(p)
        if c is None or not sh["is_enum"] or not c["is_enum"] or len(c["variants"]) != len(sh["variants"]):
            continue
        if [[ft for _, ft in fs] for _, fs in c["variants"]] != [[ft for _, ft in fs] for _, fs in sh["variants"]]:
            continue
        for vi, ((o, _), (n, _)) in enumerate(zip(sh["variants"], c["variants"])):
            if o != n:
                if n in used or any(x[2] == n for x in out):
                    return []
                out.append((p, vi, n, o))
    return out


def rename_variants(j, renames):
    """Structured rewrite: the enum's own variant list, aggregates of that enum, downcast projections by (index, fresh name)."""
    by_adt = {(p, vi): o for p, vi, n, o in renames}
    by_name = {(n, vi): o for p, vi, n, o in renames}
    for a in j.get("adts", []):
        for p, vi, n, o in renames:
            if a["path"] == p and a["variants"][vi]["name"] == n:
                a["variants"][vi]["name"] = o

    def walk(x):
        if isinstance(x, dict):
            if x.get("k") == "adt" and (x.get("path"), x.get("vi")) in by_adt:
                x["variant"] = by_adt[(x["path"], x["vi"])]
            if x.get("k") == "downcast" and (x.get("variant"), x.get("i")) in by_name:
                x["variant"] = by_name[(x["variant"], x["i"])]
            for v in x.values():
                walk(v)
        elif isinstance(x, list):
            for v in x:
                walk(v)
    walk(j["fns"])
    for a in j.get("ast", []):
        if isinstance(a, dict):
            for v in a.get("variants", []) or []:
                if isinstance(v, dict):
                    for p, vi, n, o in renames:
                        if v.get("name") == n and ((a.get("module") + "::" if a.get("module") else "") + a.get("name", "")) == p:
                            v["name"] = o


def rename_fields(j, renames):
    """Structured rewrite: the ADT's own field list and every field projection with that index and (fresh) name."""
    by_name = {(n, fi): o for _, _, fi, n, o in renames}
    for a in j.get("adts", []):
        for p, vi, fi, n, o in renames:
            if a["path"] == p and a["variants"][vi]["fields"][fi]["name"] == n:
                a["variants"][vi]["fields"][fi]["name"] = o

    def walk(x):
        if isinstance(x, dict):
            if x.get("k") == "field" and (x.get("name"), x.get("i")) in by_name:
                x["name"] = by_name[(x["name"], x["i"])]
            for v in x.values():
                walk(v)
        elif isinstance(x, list):
            for v in x:
                walk(v)
    walk(j["fns"])
    for a in j.get("ast", []):
        for f in a.get("fields", []) if isinstance(a, dict) else []:
            if isinstance(f, dict):
                for p, vi, fi, n, o in renames:
                    if f.get("name") == n:
                        f["name"] = o


def load_crate(path, crate, ref_all=None):
    """-> (parsed json, {new: old})."""
    with open(path) as fh:
        text = fh.read()
    j = json.loads(text)
    if ref_all is None:
        if not os.path.exists(REF):
            return j, {}
        with open(REF) as fh:
            ref_all = json.load(fh)
    ref = ref_all.get(crate)
    if not ref:
        return j, {}
    alias = {}
    # 1. types (their paths occur inside function paths and signatures)
    ref_adts = ref_all.get(crate + "#adts") or {}
    if ref_adts:
        ta = resolve_adts(adt_shapes(j), ref_adts)
        if ta:
            text = rewrite(text, ta)
            j = json.loads(text)
            alias.update({"type " + n: o for n, o in ta.items()})
        fr = resolve_fields(adt_shapes(j), ref_adts)
        if fr:
            rename_fields(j, fr)
            text = json.dumps(j)
            alias.update({"field %s.%s" % (p, n): "%s.%s" % (p, o) for p, vi, fi, n, o in fr})
        vr = resolve_variants(adt_shapes(j), ref_adts)
        if vr:
            rename_variants(j, vr)
            text = json.dumps(j)
            alias.update({"variant %s::%s" % (p, n): "%s::%s" % (p, o) for p, vi, n, o in vr})
    # 2. functions
    fa = resolve(fingerprint(j), ref)
    if fa:
        j = json.loads(rewrite(text, fa))
        alias.update(fa)
    return j, alias
