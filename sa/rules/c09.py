"""C09 - temperature scales convert by their defining affine formulas."""
from fractions import Fraction

from .. import facts as F
from ..absint.core import Const, Agg
from ..absint.term import Sym, T, K
from .common import anchor
from . import c05
from . import unitops as U

LEVEL = "other"


def r1_maps(facts, rep):
    rep.rule("C09-R1", "defining maps (affine-domain abstract interpretation of the straight-line closures, exact): the "
                       "Fahrenheit `to` closure is x -> (5/9)x + 45967/180, `from` is its exact inverse, the Celsius offset is "
                       "273.15; from(to(x)) = x and to(from(x)) = x identically")
    ut = c05.unit_tables(facts)
    ref = c05.load_ref("units_ref").UNITS
    n = 0
    for path, ent in sorted(ut.items()):
        name = path[len("units::"):]
        if ent["kind"] == "Methods":
            n += 1
            to, w1 = c05.affine_of(facts, ent["to"])
            frm, w2 = c05.affine_of(facts, ent["from"])
            r = ref.get(name)
            want = r[1] if r and r[2] == "affine" else None
            rep.ob("C09-R1", "%s:to" % name, to is not None and want is not None and to == tuple(want),
                   "%s -> K is x -> %s, definition %s" % (name, ("%s*x + %s" % to) if to else w1, ("%s*x + %s" % tuple(want)) if want else "missing"),
                   sample={"unit": name, "to": [str(x) for x in to] if to else None})
            if to and frm:
                comp1 = (frm[0] * to[0], frm[0] * to[1] + frm[1])
                comp2 = (to[0] * frm[0], to[0] * frm[1] + to[1])
                rep.ob("C09-R1", "%s:inverse" % name, comp1 == (1, 0) and comp2 == (1, 0),
                       "from(to(x)) = %s*x + %s, to(from(x)) = %s*x + %s" % (comp1[0], comp1[1], comp2[0], comp2[1]))
            else:
                rep.ob("C09-R1", "%s:inverse" % name, False, "closures are not affine: %s / %s" % (w1, w2))
        elif ent["kind"] == "Offset":
            n += 1
            r = ref.get(name)
            got = Fraction(ent["numer"], ent["denom"]) if ent["denom"] else None
            rep.ob("C09-R1", "%s:offset" % name, r is not None and r[2] == "offset" and got == r[1],
                   "%s -> K is x -> x + %s, definition x + %s" % (name, got, r[1] if r else "missing"),
                   sample={"unit": name, "offset": str(got)})
    rep.floor("C09-R1", "offset / affine scales", n, 2)
    # units of the temperature dimension that are not K: exactly the affine ones
    for path, ent in sorted(ut.items()):
        dims, why = c05.powers_of(facts, ent["powers_fn"]) if ent["powers_fn"] else (None, "")
        if dims == {"Kelvin": 1}:
            rep.ob("C09-R1", "%s:is-affine-kind" % path, ent["kind"] in ("Methods", "Offset"),
                   "the temperature scale %s has conversion kind %s" % (path, ent["kind"]), nontrivial=False)


def r2_apply(facts, rep):
    rep.rule("C09-R2", "guard and direction (path summary of apply_conversion over a symbolic power): an Offset / Methods "
                       "conversion returns Ok only when the scale is the sole unit of the quantity AND its own power was compared "
                       "equal to 1; every other class returns Err before any effect; towards the base units it adds the offset / "
                       "applies `to` exactly once, away from them it subtracts the offset / applies `from` exactly once")
    r = U.summarize_apply_conversion(facts)
    if not rep.ob("C09-R2", "anchor:apply_conversion", r is not None, "compound::apply_conversion analysed"):
        return
    table, tys = r
    x = Sym("x")
    frac = T("new", Sym("numer"), Sym("denom"))
    for (kind, inverse, sole), res in sorted(table.items()):
        if kind == "Factor":
            continue
        for rr in res:
            if rr[0] in ("undecided", "panic"):
                rep.ob("C09-R2", "%s:inverse=%s:sole=%s:%s" % (kind, inverse, sole, rr[0]), False, "apply_conversion %s: %s" % (rr[0], rr[2] if rr[0] == "panic" else rr[1]))
                continue
            status, pc, val, dom, store = rr
            is_one = dom.entails(store, T("Eq", Sym("power"), Const(1))) or dom.entails(store, T("Ne", Sym("power"), Const(1)), False)
            key = "%s:inverse=%s:sole=%s:power_is_one=%s" % (kind, inverse, sole, bool(is_one))
            if status == "ok":
                if kind == "Offset":
                    want = T("-", x, frac) if inverse else T("+", x, frac)
                else:
                    want = T("apply", Sym("methods.from" if inverse else "methods.to"), x)
                good = sole and is_one and val == want
                rep.ob("C09-R2", key, good, "%s conversion (inverse=%s, sole=%s, power==1 %s) yields %r, specified %r and only for a sole scale with power one" % (
                    kind, inverse, sole, "proved" if is_one else "NOT proved", val, want), sample={"kind": kind, "inverse": inverse, "sole": sole, "value": repr(val)})
            else:
                good = val == x and not (sole and is_one)
                rep.ob("C09-R2", key + ":refused", good, "%s conversion (inverse=%s, sole=%s, power==1 %s) is refused%s" % (
                    kind, inverse, sole, "proved" if is_one else "not proved", "" if val == x else " AFTER changing the value to %r" % (val,)))
        oks = [rr for rr in res if rr[0] == "ok"]
        if sole:
            rep.ob("C09-R2", "%s:inverse=%s:sole:has-ok" % (kind, inverse), len(oks) == 1, "%d Ok path(s) for a sole scale" % len(oks))


def _conv_events(log):
    return [e for e in log if e[0] == "conv"]


def r3_sole(facts, rep):
    rep.rule("C09-R3", "sole-unit guard provenance: at every call of apply_conversion (conversion phase of Compound::factor, "
                       "normalisation loops of Compound::mul, reconstruct) the `sole` argument is `len(the map being converted) == 1`, "
                       "the power argument is the entry's own power, and the direction is `towards base units` for a source / operand "
                       "and `away` for a target / re-derived unit")
    res = U.factor_conversion_phase(facts, 1, 1)
    if not rep.ob("C09-R3", "anchor:factor", res is not None, "Compound::factor analysed"):
        return
    n = 0
    for status, log, val, pc in res:
        if status == "panic":
            rep.ob("C09-R3", "factor:panic", False, "factor can panic: %s" % log)
            continue
        for e in _conv_events(log):
            n += 1
            _, power, inverse, conv, sole = e
            side = "other" if "other.unit" in repr(conv) else "self"
            want_sole = T("Eq", T("len", Sym(side + ".unit")), Const(1))
            want_pow = Sym("%s.unit.state0.power" % side)
            want_inv = Const(side == "self")
            good = sole == want_sole and power == want_pow and inverse == want_inv
            rep.ob("C09-R3", "factor:%s-side" % ("target" if side == "self" else "source"), good,
                   "factor converts the %s side with apply_conversion(power=%r, inverse=%r, sole=%r); expected (%r, %r, %r)" % (
                       side, power, inverse, sole, want_pow, want_inv, want_sole), sample={"side": side, "sole": repr(sole)})
    rep.floor("C09-R3", "conversion calls in factor's summary", n, 4)
    mres = U.mul_summary(facts, False, False)
    if rep.ob("C09-R3", "anchor:mul", mres is not None, "Compound::mul analysed"):
        n = 0
        for r in mres:
            if r["kind"] == "panic":
                continue
            for e in _conv_events(r["log"]):
                n += 1
                _, power, inverse, conv, sole = e
                side = "other" if "other.unit" in repr(conv) else "self"
                good = sole == T("Eq", T("len", Sym(side + ".unit")), Const(1)) and power == Sym("%s.unit.state0.power" % side) and inverse == Const(False)
                rep.ob("C09-R3", "mul:%s-operand" % ("left" if side == "self" else "right"), good,
                       "mul normalises the %s operand with apply_conversion(power=%r, inverse=%r, sole=%r)" % (side, power, inverse, sole))
        rep.floor("C09-R3", "conversion calls in mul's summary", n, 2)
    rres = U.reconstruct_summary(facts)
    if rep.ob("C09-R3", "anchor:reconstruct", rres is not None, "reconstruct analysed"):
        n = 0
        for r in rres:
            if r["kind"] == "panic":
                continue
            for e in _conv_events(r["log"]):
                n += 1
                _, power, inverse, conv, sole = e
                good = sole == T("Eq", T("len", Sym("names")), Const(1)) and inverse == Const(True) and power in (
                    Sym("mod_power"), T("i*", Sym("mod_power"), Sym("side")), T("i*", Sym("side"), Sym("mod_power")))
                rep.ob("C09-R3", "reconstruct", good,
                       "reconstruct sheds a re-derived unit with apply_conversion(power=%r, inverse=%r, sole=%r)" % (power, inverse, sole))
            # (Until /repo's 42759a9 the size that decides `sole` also had to be taken after the re-derived unit was back in the
            # map: a scale judged "alone" too early had its zero point shed from the *other* operand's value.  Since each
            # operand's units are re-derived on its own value (C04-R9), an early size only turns a refusal into the interval
            # reading, which the property allows; the obligation was withdrawn together with seed C09-8.)
        rep.floor("C09-R3", "conversion calls in reconstruct's summary", n, 1)
    # who calls apply_conversion at all
    from .common import census
    callers = sorted({b.path for b, bid, t, sp, nm in census(facts, lambda n_: n_ == "compound::apply_conversion")})
    # every caller lies in the call trees of factor / mul, whose summaries (helpers followed) check each conversion event
    from ..callgraph import CallGraph
    covered = CallGraph(facts).reachable(["compound::Compound::factor", "compound::Compound::mul"])
    stray = [c for c in callers if c not in covered]
    rep.ob("C09-R3", "callers", not stray and bool(callers),
           "apply_conversion is called from %s%s" % (callers, "" if not stray else "; %s is outside the summarised call trees of factor / mul" % stray))
    # and who calls the method pointers / reads the Offset fraction
    own = CallGraph(facts).exclusive("compound::apply_conversion")
    for b in facts.lib_bodies():
        if b.from_derive():
            continue
        for blk, t, sp in b.terms():
            if t["k"] == "call" and F.is_indirect(t):
                from .. import flow
                fo = flow.field_origins(b, t["callee"]["op"])
                if any(f[-1] in ("to", "from") for f in fo):
                    # apply_conversion itself or a helper only it uses (its summary, C09-R2, follows them)
                    rep.ob("C09-R3", "method-pointer-call:%s" % b.path, b.path in own,
                           "a ConversionMethods pointer is called in %s" % b.path, b.site(sp))


def r4_order(facts, rep):
    rep.rule("C09-R4", "order on the two sides of a conversion: the source is scaled by its SI prefix before its unit conversion "
                       "and the target's unit conversion is undone before its SI prefix (so a prefixed offset scale shifts the "
                       "unscaled value) - the value term of factor equals the specified composition")
    for nc_self, nc_other in ((True, True), (True, False), (False, True)):
        res = U.factor_conversion_phase(facts, 1, 1)
        if res is None:
            return
        want = U.expected_factor_value(1, 1, [nc_self], [nc_other])
        found = False
        for status, log, val, pc in res:
            if status != "true":
                continue
            hs = dict((repr(p), b) for p, b in pc)
            if hs.get("has_conversion(self.unit.key0)") == nc_self and hs.get("has_conversion(other.unit.key0)") == nc_other:
                found = True
                rep.ob("C09-R4", "factor:self_conv=%s:other_conv=%s" % (nc_self, nc_other), val == want,
                       "factor computes %r, specified %r" % (val, want), sample={"value": repr(val)})
        rep.ob("C09-R4", "factor:self_conv=%s:other_conv=%s:path-exists" % (nc_self, nc_other), found, "a commensurable path with these conversions exists")


def run(fx, rep, tier):
    from . import foundation as _fnd
    _fnd.units(fx["dev"], rep, "C09-F", fx, tier)
    rep.assume("Rational arithmetic is exact (C01); the affine closures are straight-line code (anything else is reported as not affine)")
    facts = fx["dev"]
    r1_maps(facts, rep)
    r2_apply(facts, rep)
    r3_sole(facts, rep)
    r4_order(facts, rep)
    # whether a scale stands alone with power one is decided on the unit the expression denotes: (0 degC)^2 must carry degC^2
    rep.rule("C09-R5", "the power guard sees the real power: a quantity raised to a power carries unit^n also when its value "
                       "is zero, and a product or quotient with a plain number the other side's unit to the power +1 / -1 (shared "
                       "with C04-R1 and C04-R5)")
    from . import c04
    s5 = type(rep)(rep.prop, rep.tier)
    c04.r1_pow_unit(facts, s5)
    c04.r2_r5_mul(facts, s5)
    for o in s5.obls:
        if o["rule"] in ("C04-R1", "C04-R5"):
            o["rule"] = "C09-R5"
            rep.obls.append(o)
    # "exactly for every magnitude": the magnitude is whatever the literal denotes - sign, fraction digits and exponent
    rep.rule("C09-R6", "the magnitude converted is the magnitude written: the literal reader computes (-)N / 10^d * 10^(+-E) "
                       "(inductive transducer check of Rational::from_str, shared with C07-R4)")
    from . import c07
    s6 = type(rep)(rep.prop, rep.tier)
    c07.r4_reader(facts, s6, "quick")
    for o in s6.obls:
        o["rule"] = "C09-R6"
        rep.obls.append(o)
    if "rel" in fx:
        sub = type(rep)(rep.prop, rep.tier)
        r2_apply(fx["rel"], sub)
        r3_sole(fx["rel"], sub)
        r4_order(fx["rel"], sub)
        for o in sub.obls:
            o["key"] += "[rel]"
            rep.obls.append(o)
