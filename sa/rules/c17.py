"""C17 - stored facts and units survive serialisation unchanged."""
import json
import os
import tomllib

from .. import facts as F
from .. import flow, tables, shipped, extract
from .common import census, anchor

LEVEL = "other"
VERIF = os.path.dirname(os.path.dirname(os.path.dirname(os.path.abspath(__file__))))


def id_consts(facts):
    return {k[1].split("::")[-1]: int(v["val"]) for k, v in facts.consts.items()
            if k[0] == "anything" and k[1].startswith("generated::ids::") and v["val"] is not None and v["ty"] == "u32"}


def r1_ids(facts, rep):
    rep.rule("C17-R1", "id triangle: the id constants are pairwise distinct; every `static X: Derived` carries an id that "
                       "no other static carries; id_to_derived(id) returns the static carrying that id and covers every "
                       "static; every identifier released with the pinned commit (ref/ids_released.json, the ids the "
                       "shipped data is written with) still denotes the same unit; the generator's data.toml agrees")
    consts = id_consts(facts)
    rep.floor("C17-R1", "id constants", len(consts), 78)
    inv = {}
    for n, v in consts.items():
        inv.setdefault(v, []).append(n)
    for v, ns in sorted(inv.items()):
        if len(ns) > 1:
            rep.ob("C17-R1", "distinct:%s" % "+".join(sorted(ns)), False, "id %d (0x%x) is shared by %s" % (v, v, sorted(ns)))
    rep.ob("C17-R1", "constants-distinct", all(len(ns) == 1 for ns in inv.values()),
           "%d id constants, %d distinct values" % (len(consts), len(inv)))
    try:
        statics = tables.derived_statics(facts)
    except tables.StaticEvalError as e:
        rep.ob("C17-R1", "statics-evaluate", False, "static evaluation failed: %s" % e)
        return {}
    rep.floor("C17-R1", "Derived statics", len(statics), 78)
    by_id = {}
    for p, v in statics.items():
        by_id.setdefault(v["fields"][0], []).append(p)
    for i, ps in by_id.items():
        rep.ob("C17-R1", "static-id-unique:%s" % "+".join(sorted(ps)), len(ps) == 1,
               "id %d (0x%x) is carried by %s" % (i, i, sorted(ps)), sample={"id": i, "statics": sorted(ps)})
    tbl = tables.id_to_derived_table(facts)
    if not rep.ob("C17-R1", "anchor:id_to_derived", tbl is not None, "match table of generated::ids::id_to_derived found"):
        return statics
    rep.floor("C17-R1", "id_to_derived arms", len(tbl), 78)
    for i, st in sorted(tbl.items()):
        okk = st is not None and st in statics and statics[st]["fields"][0] == i
        rep.ob("C17-R1", "arm:%s" % (st or ("0x%x" % i)), okk,
               "id_to_derived(%d) returns %s whose id is %s" % (i, st, statics.get(st, {"fields": [None]})["fields"][0] if st else None))
    for p, v in sorted(statics.items()):
        i = v["fields"][0]
        rep.ob("C17-R1", "decodable:%s" % p, tbl.get(i) == p,
               "the id %d of %s decodes to %s" % (i, p, tbl.get(i)))
    # released ids
    rel = json.load(open(os.path.join(VERIF, "ref", "ids_released.json")))["ids"]
    for name, i in sorted(rel.items()):
        p = "units::" + name
        okk = tbl.get(i) == p and p in statics and statics[p]["fields"][0] == i
        rep.ob("C17-R1", "released:%s" % name, okk,
               "released id 0x%x of %s now decodes to %s (static carries %s)" % (
                   i, name, tbl.get(i), ("0x%x" % statics[p]["fields"][0]) if p in statics else "nothing"))
    rep.floor("C17-R1", "released ids", len(rel), 78)
    # generator spec
    toml_path = os.path.join(extract.repo_root(), "tools", "gen", "data.toml")
    try:
        spec = tomllib.load(open(toml_path, "rb"))
        sids = {u["name"]: int(u["id"], 16) for u in spec["units"] if u["type"] == "derived"}
        bad = {n: (i, statics.get("units::" + n, {"fields": [None]})["fields"][0]) for n, i in sids.items()
               if statics.get("units::" + n, {"fields": [None]})["fields"][0] != i}
        rep.ob("C17-R1", "data.toml-agrees", not bad and len(sids) == len(statics),
               "data.toml lists %d derived units; disagreements with the statics: %s" % (len(sids), bad or "none"))
    except (OSError, KeyError, ValueError) as e:
        rep.ob("C17-R1", "data.toml-agrees", False, "tools/gen/data.toml cannot be read: %s" % e)
    return statics


def r2_impl_pairs(facts, rep):
    rep.rule("C17-R2", "hand-written Serialize/Deserialize pairs use the same wire type: Derived writes self.id as u32 and "
                       "reads a u32 through id_to_derived (error on None); Rational forwards both ways to BigRational's "
                       "impls and wraps the result unchanged; equality, ordering and hashing of Derived use the id only")
    def find(suffix, self_ty):
        for b in facts.lib_bodies():
            if b.path.endswith(suffix) and self_ty in b.path and not b.from_derive():
                return b
        return None
    ds = find("::serialize", "<unit::Derived as")
    dd = find("::deserialize", "<unit::Derived as")
    rs = find("::serialize", "<rational::Rational as")
    rd = find("::deserialize", "<rational::Rational as")
    # Rational's wire form is BigRational's: a hand-written forwarding pair, or the derived pair of a single-field struct
    # marked #[serde(transparent)] (the derive then forwards to the field's impls - the same bytes)
    transparent = False
    if rs is None and rd is None:
        a = facts.ast.get(("anything", "rational::Rational"))
        adt = facts.adt("rational::Rational")
        paths = {b.path for b in facts.all if b.crate == "anything" and b.from_derive()}
        derived = any("Serialize for rational::Rational>::serialize" in p_ for p_ in paths) and \
            any("Deserialize<'de> for rational::Rational>::deserialize" in p_ for p_ in paths)
        transparent = bool(a) and any("serde" in at and "transparent" in at for at in a["attrs"]) and derived and adt is not None \
            and len(adt["variants"][0]["fields"]) == 1 and "Ratio<" in adt["variants"][0]["fields"][0]["ty"]
        rep.ob("C17-R2", "Rational:transparent", transparent,
               "Rational derives both impls as #[serde(transparent)] over its single BigRational field" if transparent else
               "Rational has neither hand-written forwarding impls nor a derived #[serde(transparent)] pair over one BigRational field")
    for nm, b in (("Derived::serialize", ds), ("Derived::deserialize", dd), ("Rational::serialize", rs), ("Rational::deserialize", rd)):
        if nm.startswith("Rational::") and transparent:
            continue
        rep.ob("C17-R2", "anchor:" + nm, b is not None, "hand-written %s found" % nm)
    from ..absint import core
    from ..absint.core import Agg, Const, Ref, some, NONE, ok, err
    from ..absint.term import EffectDomain, Sym, T

    def derived_value():
        adt = facts.adt("unit::Derived")
        names = [f["name"] for f in adt["variants"][0]["fields"]]
        return Agg("adt", "unit::Derived", 0, "Derived", tuple(Sym("self." + n) for n in names))

    if ds is not None:
        # summary: exactly one thing is handed to the serializer, and it is self.id as a u32
        def oracle(dom, it, name, args, vals, store):
            if name.endswith("for u32>::serialize") and "Serialize" in name:
                return [(T("wire_u32", vals[0]), dom.with_log(store, ("write", "u32", vals[0], vals[1])))]
            if name.endswith("Serializer::serialize_u32"):
                return [(T("wire_u32", vals[1]), dom.with_log(store, ("write", "u32", vals[1], vals[0])))]
            if "Serialize" in name and name.endswith("::serialize") or "Serializer::serialize_" in name:
                return [(T("wire_other", *vals), dom.with_log(store, ("write", name.rsplit("::", 1)[-1], vals[0] if vals else None)))]
            return None
        dom = EffectDomain({}, oracle=oracle)
        dom.uninterp = lambda n: facts.fn(n) is None
        it = core.Interp(facts, dom, budget=20000)
        st, ref = it.fresh_slot({}, derived_value())
        try:
            outs = it.run(ds, [ref, Sym("serializer")], st)
            bad = []
            for o in outs:
                w = [e for e in dom.log(o.store) if e[0] == "write"]
                if o.kind != "ret" or len(w) != 1 or w[0][1] != "u32" or w[0][2] != Sym("self.id") or w[0][3] != Sym("serializer") \
                        or o.value != T("wire_u32", Sym("self.id")):
                    bad.append("writes %s and returns %r" % ([e[1:3] for e in w], o.value))
            okk, detail = (not bad and len(outs) >= 1), ("; ".join(bad[:2]) or "Derived::serialize hands exactly self.id to the serializer as a u32 and returns its result")
        except core.Undecided as e:
            okk, detail = False, "undecided: %s" % e
        rep.ob("C17-R2", "Derived::serialize", okk, detail, ds.site())
    if dd is not None:
        def oracle2(dom, it, name, args, vals, store):
            if name.endswith("for u32>::deserialize") and "Deserialize" in name:
                return [(ok(Sym("wire")), dom.with_log(store, ("read", "u32", vals[0]))), (err(Sym("wire_error")), dom.with_log(store, ("read-failed",)))]
            if "Deserialize" in name and name.endswith("::deserialize"):
                return [(ok(Sym("wire_other")), dom.with_log(store, ("read", name, vals[0] if vals else None)))]
            if name == "generated::ids::id_to_derived":
                # the unit found for an identifier carries that identifier (C17-R1: the table is a bijection on the ids)
                adt = facts.adt("unit::Derived")
                names_ = [f["name"] for f in adt["variants"][0]["fields"]]
                unit = Agg("adt", "unit::Derived", 0, "Derived", tuple(vals[0] if n == "id" else T("unit_of." + n, vals[0]) for n in names_))
                return [(some(unit), dom.with_log(store, ("lookup", vals[0]))), (NONE, dom.with_log(store, ("lookup-none", vals[0])))]
            return None
        dom = EffectDomain({}, oracle=oracle2)
        dom.uninterp = lambda n: facts.fn(n) is None
        it = core.Interp(facts, dom, budget=40000)
        try:
            outs = it.run(dd, [Sym("deserializer")], {})
            bad = []
            n_ok = 0
            for o in outs:
                if o.kind != "ret":
                    if o.kind == "panic":
                        bad.append("can panic: %s" % (o.value,))
                    continue
                log = dom.log(o.store)
                reads = [e for e in log if e[0] == "read"]
                v = o.value
                is_ok = isinstance(v, Agg) and v.path == "std::result::Result" and v.vi == 0
                if is_ok:
                    n_ok += 1
                    got = v.field(0)
                    is_unit = isinstance(got, Agg) and got.path == "unit::Derived" and Sym("wire") in got.fields and all(
                        f == Sym("wire") or (isinstance(f, T) and f.op.startswith("unit_of.") and f.args == (Sym("wire"),)) for f in got.fields)
                    if len(reads) != 1 or reads[0][1] != "u32" or reads[0][2] != Sym("deserializer") or not is_unit \
                            or ("lookup", Sym("wire")) not in log:
                        bad.append("returns %r after %s" % (v, [e[:2] for e in log]))
                else:
                    if any(e[0] == "lookup" for e in log) and not any(e[0] == "lookup-none" for e in log):
                        bad.append("an identifier that names a unit is rejected")
            okk, detail = (not bad and n_ok >= 1), ("; ".join(bad[:2]) or "Derived::deserialize reads one u32, maps it through id_to_derived and returns Ok only with its Some payload (Err on None)")
        except core.Undecided as e:
            okk, detail = False, "undecided: %s" % e
        rep.ob("C17-R2", "Derived::deserialize", okk, detail, dd.site())
    for nm, b, meth in (("Rational::serialize", rs, "serialize"), ("Rational::deserialize", rd, "deserialize")):
        if b is None:
            continue
        cs = [(blk["id"], t, n) for blk, t, sp, n in b.calls() if not (n.endswith("Try>::branch") or "from_residual" in n)]
        fw = [c for c in cs if c[2].startswith("<num::rational::Ratio<T> as ") and c[2].endswith("::" + meth)]
        okk = len(cs) == 1 and len(fw) == 1
        detail = "%s calls %s" % (nm, [c[2] for c in cs])
        if okk and meth == "serialize":
            okk = flow.field_origins(b, fw[0][1]["args"][0]) == {("rational",)}
        if okk and meth == "deserialize":
            # the Rational built wraps exactly the deserialised ratio
            okk = False
            for blk, i, s in b.stmts():
                if s["rv"]["k"] == "aggregate" and s["rv"]["kind"].get("path") == "rational::Rational":
                    ls = flow.slice_back(b, s["rv"]["ops"][0])
                    okk = {l[1] for l in ls if l[0] == "call"} == {fw[0][2]}
        rep.ob("C17-R2", nm, okk, detail, b.site())
    # identity of Derived is its id
    for suffix, want in (("as std::cmp::PartialEq>::eq", "eq"), ("as std::cmp::Ord>::cmp", "cmp"), ("as std::hash::Hash>::hash", "hash")):
        b = None
        for x in facts.lib_bodies():
            if x.path.startswith("<unit::Derived ") and x.path.endswith(suffix):
                b = x
        if not rep.ob("C17-R2", "anchor:Derived::" + want, b is not None, "impl of %s for Derived found" % want):
            continue
        fields = set()
        for blk, i, s in b.stmts():
            rv = s["rv"]
            for o in ([rv.get("op")] if rv["k"] in ("use", "cast") else []) + ([{"k": "copy", "place": rv["place"]}] if rv["k"] in ("ref",) else []):
                if o and o["k"] in ("copy", "move"):
                    fs = F.place_fields(o["place"])
                    if fs:
                        fields.add(fs[-1])
        rep.ob("C17-R2", "Derived::%s-by-id" % want, fields == {"id"}, "Derived::%s reads fields %s" % (want, sorted(fields)), b.site())


ALLOWED_SERDE = {
    ("db", "Constant", "source"): ["#[serde(default)]"],
    ("db", "Constant", "tokens"): ["#[serde(default)]"],
    ("db", "Doc", "constants"): ["#[serde(default)]"],
    ("db", "Doc", "sources"): ["#[serde(default)]", "#[allow(unused)]"],
    ("db", "PartialConstant", "content"): ["#[serde(flatten)]"],
    ("config", "Meta", "version"): ["#[serde(default)]"],
    ("config", "Meta", "database_hash"): ["#[serde(default)]"],
}
WIRE_TYPES = [("db", "Constant"), ("compound", "Compound"), ("compound", "State"), ("unit", "Unit"), ("db", "Source")]


def r3_attrs(facts, rep):
    rep.rule("C17-R3", "no serde attribute changes the wire form of the types a Constant is made of: the only serde "
                       "attributes on Constant / Compound / State / Unit / Source are the decode-side #[serde(default)] "
                       "on Constant.source and Constant.tokens; these types derive both Serialize and Deserialize")
    n = 0
    for (cr, key), a in sorted(facts.ast.items()):
        if cr != "anything":
            continue
        mod, name = a["module"], a["name"]
        members = a.get("fields") or a.get("variants") or []
        wire = (mod, name) in WIRE_TYPES
        for at in a["attrs"]:
            if "serde" in at and wire:
                rep.ob("C17-R3", "%s::%s:container-attr" % (mod, name), False, "container attribute %s on a wire type" % at)
        for m in members:
            for at in m["attrs"]:
                if "serde" not in at:
                    continue
                n += 1
                allowed = ALLOWED_SERDE.get((mod, name, m["name"]), [])
                rep.ob("C17-R3", "%s::%s.%s:%s" % (mod, name, m["name"], at), at in allowed,
                       "serde attribute %s on %s::%s.%s%s" % (at, mod, name, m["name"], "" if at in allowed else " is not in the allowed table"))
            for f in m.get("fields", []):
                for at in f["attrs"]:
                    if "serde" in at:
                        n += 1
                        rep.ob("C17-R3", "%s::%s::%s.%s:%s" % (mod, name, m["name"], f["name"], at), False,
                               "serde attribute %s on a variant field" % at)
    rep.floor("C17-R3", "serde field attributes", n, 4)
    # both derives present on the wire types: look for the derive-generated impls
    paths = {b.path for b in facts.all if b.crate == "anything" and b.from_derive()}
    for mod, name in WIRE_TYPES:
        ty = "%s::%s" % (mod, name)
        ser = any(("Serialize for %s>::serialize" % ty) in p for p in paths)
        de = any(("Deserialize<'de> for %s>::deserialize" % ty) in p for p in paths)
        rep.ob("C17-R3", "derives:%s" % ty, ser and de, "%s derives Serialize=%s Deserialize=%s" % (ty, ser, de))


def r4_shipped(facts, rep, statics):
    rep.rule("C17-R4", "every shipped constant decodes against the type definitions: value is a BigRational pair with a "
                       "non-zero denominator, every unit key is a Unit variant name or {\"Derived\": id} with a known id, "
                       "states are {power != 0, prefix}, source is null or a listed source, tokens are non-empty")
    adt = facts.adt("unit::Unit")
    variants = {v["name"] for v in adt["variants"]} if adt else set()
    tbl = tables.id_to_derived_table(facts) or {}
    files = shipped.assets()
    rep.floor("C17-R4", "shipped asset files", len(files), 4)
    src_ids = set()
    docs = {}
    for name, path in files.items():
        try:
            docs[name] = shipped.load(path)
        except Exception as e:  # noqa: BLE001
            rep.ob("C17-R4", "file:%s" % name, False, "asset does not decode as gzip+CBOR: %s" % e)
    for name, d in docs.items():
        for s in (d.get("sources") or []):
            src_ids.add(s.get("id"))
    total = 0
    for name, d in sorted(docs.items()):
        cs = d.get("constants") or []
        bad = 0
        for i, c in enumerate(cs):
            total += 1
            problems, dec = shipped.decode_constant(c, variants, set(tbl), src_ids)
            if problems:
                bad += 1
                rep.ob("C17-R4", "%s#%s" % (name, " ".join(dec.get("tokens") or [str(i)])), False,
                       "constant %r does not decode: %s" % (c.get("description"), "; ".join(problems)))
        rep.ob("C17-R4", "file:%s" % name, bad == 0, "%d constant(s), %d do not decode" % (len(cs), bad),
               sample={"file": name, "constants": len(cs)})
    rep.count("shipped constants", total)
    rep.floor("C17-R4", "shipped constants", total, 878)


def run(fx, rep, tier):
    rep.assume("serde_cbor, serde_json and num's serde impls round-trip their own wire forms (trusted); derive-generated "
               "Serialize/Deserialize impls without attributes are mutually inverse (trusted)")
    facts = fx["dev"]
    statics = r1_ids(facts, rep)
    r2_impl_pairs(facts, rep)
    r3_attrs(facts, rep)
    r4_shipped(facts, rep, statics)
    # the sources file is shipped data too: a decoded source list must keep the id -> position map it was built with
    from . import c16
    c16.r9_sources(facts, rep, rule="C17-R5")
    # what is stored in the index is the shipped constant, encoded as it was decoded (not a copy edited on the way)
    rep.rule("C17-R6", "the payload stored for a constant is the encoding of that constant as it was decoded from the shipped file "
                       "(summary of Db::load_bytes over a symbolic document, shared with C16-R1)")
    s6 = type(rep)(rep.prop, rep.tier)
    c16.r1_load_bytes(facts, s6)
    for o in s6.obls:
        o["rule"] = "C17-R6"
        rep.obls.append(o)
