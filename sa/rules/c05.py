"""C05 - every unit word denotes the standard definition of a unit and prefix."""
import importlib.util
import os
import re
import tomllib
from fractions import Fraction

from .. import facts as F
from .. import flow, tables, extract
from ..absint import core
from ..absint.core import Agg, Const, TOP, Ref, UNIT, some, NONE, ok, err, Domain
from ..absint.term import TermDomain, EffectDomain, Sym, T, K
from .common import census, anchor

LEVEL = "other"
VERIF = os.path.dirname(os.path.dirname(os.path.dirname(os.path.abspath(__file__))))


def load_ref(name):
    spec = importlib.util.spec_from_file_location(name, os.path.join(VERIF, "ref", name + ".py"))
    m = importlib.util.module_from_spec(spec)
    spec.loader.exec_module(m)
    return m


# ---- unit tables ---------------------------------------------------------------------------------------------
def powers_of(facts, fn_path):
    """Interpret a `powers` function (closure or fn) as a linear map p -> {base unit: k*p}.
    Returns (dict or None, problem text)."""
    body = facts.fn(fn_path)
    if body is None:
        return None, "no body for %s" % fn_path
    dom = EffectDomain({"powers::Powers::insert": ("insert", "unit")})
    dom.uninterp = lambda n: facts.fn(n) is None
    it = core.Interp(facts, dom, budget=20000)
    args = [Sym("powers"), Sym("p")]
    if body.kind == "Closure":
        args = [Agg("closure", fn_path, None, None, ())] + args
        if body.local_ty(1).startswith("&"):
            args[0] = Ref(0, 0)
    store = {(0, 0): Agg("closure", fn_path, None, None, ())}
    try:
        outs = it.run(body, args, store)
    except core.Undecided as e:
        return None, "undecided: %s" % e
    if len(outs) != 1 or outs[0].kind != "ret":
        return None, "%d paths / %s" % (len(outs), [o.kind for o in outs])
    out = {}
    for ev in dom.log(outs[0].store):
        if ev[0] != "insert":
            continue
        unit, power = ev[2], ev[3]
        if not (isinstance(unit, Agg) and unit.path == "unit::Unit"):
            return None, "inserts a non-constant unit %r" % (unit,)
        if unit.vname == "Derived":
            return None, "inserts the derived unit %r (one-step expansion would be incomplete)" % (unit,)
        k = None
        if power == Sym("p"):
            k = 1
        elif isinstance(power, T) and power.op == "i*" and len(power.args) == 2:
            a, b = power.args
            if a == Sym("p") and isinstance(b, Const):
                k = b.v
            elif b == Sym("p") and isinstance(a, Const):
                k = a.v
        elif isinstance(power, T) and power.op == "Neg" and power.args[0] == Sym("p"):
            k = -1
        if k is None:
            return None, "power %r is not a constant multiple of p" % (power,)
        out[unit.vname] = out.get(unit.vname, 0) + k
    return {u: k for u, k in out.items() if k != 0}, None


def unit_tables(facts):
    """{static path: dict(id, powers fn, dims, kind, fraction / closures)}"""
    out = {}
    for path, v in tables.derived_statics(facts).items():
        vt = v["fields"][1]
        pw, fmt, conv = vt["fields"]
        ent = {"id": v["fields"][0], "powers_fn": pw[1] if isinstance(pw, tuple) else None, "format_fn": fmt[1] if isinstance(fmt, tuple) else None}
        if isinstance(conv, dict) and conv["variant"] == "Some":
            c = conv["fields"][0]
            ent["kind"] = c["variant"]
            inner = c["fields"][0]
            if c["variant"] in ("Factor", "Offset"):
                ent["numer"], ent["denom"] = inner["fields"]
            else:
                ent["to"], ent["from"] = inner["fields"][0][1], inner["fields"][1][1]
        else:
            ent["kind"] = "None"
        out[path] = ent
    return out


def powers_are_base_only(facts, rep, rule):
    ut = unit_tables(facts)
    n = 0
    for path, ent in sorted(ut.items()):
        dims, why = powers_of(facts, ent["powers_fn"]) if ent["powers_fn"] else (None, "powers is not a function item")
        n += 1
        rep.ob(rule, "base-only:%s" % path, dims is not None, "%s expands to %s" % (path, dims if dims is not None else why),
               sample={"unit": path, "dims": dims})
    rep.floor(rule, "unit tables", n, 78)


def affine_of(facts, fn_path):
    """Interpret a closure fn(&mut Rational) as x -> a*x + b.  Returns ((a, b), None) or (None, why)."""
    from ..absint.term import as_k
    body = facts.fn(fn_path)
    if body is None:
        return None, "no body"
    dom = TermDomain()
    dom.uninterp = None
    it = core.Interp(facts, dom, budget=20000)
    store = {(0, 0): Agg("adt", "rational::Rational", 0, "Rational", (Sym("x"),)), (0, 1): Agg("closure", fn_path, None, None, ())}
    args = [Ref(0, 0)]
    if body.kind == "Closure":
        args = [Ref(0, 1) if body.local_ty(1).startswith("&") else store[(0, 1)]] + args
    try:
        outs = it.run(body, args, store)
    except core.Undecided as e:
        return None, "undecided: %s" % e
    if len(outs) != 1 or outs[0].kind != "ret":
        return None, "%d paths" % len(outs)
    v = it.read_ref(outs[0].store, Ref(0, 0))
    t = v.field(0) if isinstance(v, Agg) else v

    def lin(t):
        if t == Sym("x"):
            return (Fraction(1), Fraction(0))
        k = as_k(t)
        if k is not None:
            return (Fraction(0), k)
        if isinstance(t, T) and len(t.args) == 2 and t.op in ("+", "-", "*", "/"):
            l, r = lin(t.args[0]), lin(t.args[1])
            if l is None or r is None:
                return None
            if t.op == "+":
                return (l[0] + r[0], l[1] + r[1])
            if t.op == "-":
                return (l[0] - r[0], l[1] - r[1])
            if t.op == "*":
                if l[0] == 0:
                    return (l[1] * r[0], l[1] * r[1])
                if r[0] == 0:
                    return (r[1] * l[0], r[1] * l[1])
                return None
            if t.op == "/":
                if r[0] == 0 and r[1] != 0:
                    return (l[0] / r[1], l[1] / r[1])
                return None
        return None
    r = lin(t)
    if r is None:
        return None, "not affine: %r" % (t,)
    return r, None


def r2_tables(facts, rep):
    rep.rule("C05-R2", "unit tables = reference: every `static X: Derived` has the dimension vector (its powers function "
                       "interpreted as a linear map over the base units) and the conversion (kind and exact reduced fraction, "
                       "or affine closure pair) of the independently authored reference table ref/units_ref.py (SI brochure, "
                       "1959 yard/pound agreement, NIST HB44 US customary); all factors are positive")
    ref = load_ref("units_ref").UNITS
    ut = unit_tables(facts)
    rep.floor("C05-R2", "Derived statics", len(ut), 78)
    for path, ent in sorted(ut.items()):
        name = path[len("units::"):]
        r = ref.get(name)
        if r is None:
            rep.ob("C05-R2", "unit:%s" % name, False, "unit %s has no reference entry (new unit: add it to ref/units_ref.py)" % name)
            continue
        rdims, rscale, rkind, rsrc = r[:4]
        opts = r[4] if len(r) > 4 else {}
        dims, why = powers_of(facts, ent["powers_fn"]) if ent["powers_fn"] else (None, "no powers fn")
        rep.ob("C05-R2", "dims:%s" % name, dims == rdims, "%s has dimensions %s, reference %s [%s]" % (name, dims if dims is not None else why, rdims, rsrc),
               sample={"unit": name, "dims": dims})
        kind = ent["kind"]
        if rkind == "none":
            rep.ob("C05-R2", "scale:%s" % name, kind == "None", "%s is a coherent SI unit; the table has conversion %s" % (name, kind))
        elif rkind == "factor":
            okk = kind == "Factor" and ent["denom"] != 0
            got = Fraction(ent["numer"], ent["denom"]) if okk else None
            tol = opts.get("rel_tol")
            if okk:
                eq = (got == rscale) if tol is None else (abs(got - rscale) <= tol * rscale)
            else:
                eq = False
            armed = opts.get("armed", True)
            rep.ob("C05-R2", "scale:%s" % name, (eq and got > 0) or (not armed and okk and got > 0),
                   "%s = %s base units, reference %s [%s]%s" % (name, got, rscale, rsrc, "" if armed else " (not armed: %s)" % opts.get("note")),
                   sample={"unit": name, "scale": str(got), "reference": str(rscale)})
        elif rkind == "offset":
            okk = kind == "Offset" and ent["denom"] != 0
            got = Fraction(ent["numer"], ent["denom"]) if okk else None
            rep.ob("C05-R2", "scale:%s" % name, okk and got == rscale, "%s: K = x + %s, reference x + %s [%s]" % (name, got, rscale, rsrc))
        elif rkind == "affine":
            okk = kind == "Methods"
            to, why1 = affine_of(facts, ent["to"]) if okk else (None, "kind %s" % kind)
            frm, why2 = affine_of(facts, ent["from"]) if okk else (None, "kind %s" % kind)
            a, b = rscale
            rep.ob("C05-R2", "scale:%s:to" % name, to == (a, b), "%s to kelvin: x -> %s, reference %s*x + %s [%s]" % (
                name, ("%s*x + %s" % to) if to else why1, a, b, rsrc))
            inv = (1 / a, -b / a)
            rep.ob("C05-R2", "scale:%s:from" % name, frm == inv, "%s from kelvin: x -> %s, reference %s*x + %s" % (
                name, ("%s*x + %s" % frm) if frm else why2, inv[0], inv[1]))
    missing = sorted(set(ref) - {p[len("units::"):] for p in ut})
    rep.ob("C05-R2", "no-unit-lost", not missing, "reference units without a static: %s" % missing)


# ---- the generated parser ---------------------------------------------------------------------------------------
class ParseDomain(TermDomain):
    """Drives generated::unit::parse with a scripted token sequence."""

    def __init__(self, facts, script, rem_empty):
        super().__init__()
        self.facts = facts
        self.script = list(script)
        self.rem_empty = rem_empty

    def deref_static(self, it, path):
        return Sym("static:" + path)

    def call(self, it, name, args, store, term, frame):
        if name == "logos::Logos::lexer":
            g = term["callee"].get("generics", "")
            kind = "Combined" if "Combined" in g else ("Units" if "Units" in g else "?")
            return [(Agg("lexer", kind, None, None, ()), store)]
        if name.endswith("as std::iter::Iterator>::next") and "logos::Lexer" in name:
            lx = it.read_ref(store, args[0])
            i = store.get(("pos",), 0)
            s2 = dict(store)
            s2[("pos",)] = i + 1
            if i >= len(self.script) or self.script[i] is None:
                return [(NONE, s2)]
            kind, variant = self.script[i]
            if not isinstance(lx, Agg) or lx.path != kind:
                return [(NONE, self.with_pc(s2, Sym("script-mismatch:%s" % kind), True))]
            adt = self.facts.adt("generated::unit::" + kind)
            vi = [v["name"] for v in adt["variants"]].index(variant)
            return [(some(ok(Agg("adt", "generated::unit::" + kind, vi, variant, ()))), s2)]
        if name == "logos::Lexer::<'source, Token>::remainder":
            return [(Sym("remainder@%d" % store.get(("pos",), 0)), store)]
        if name == "core::str::<impl str>::is_empty":
            return [(Const(bool(self.rem_empty)), store)]
        return super().call(it, name, args, store, term, frame)


def run_parse(facts, script, rem_empty=False):
    body = facts.fn("generated::unit::parse")
    dom = ParseDomain(facts, script, rem_empty)
    it = core.Interp(facts, dom, budget=50000)
    outs = it.run(body, [Sym("input")], {})
    res = []
    for o in outs:
        if o.kind != "ret":
            res.append(("panic", str(o.value)))
            continue
        v = o.value
        if isinstance(v, Agg) and v.vname == "Some":
            t = v.field(0)
            rem, pre, unit = t.field(0), t.field(1), t.field(2)
            u = None
            if isinstance(unit, Agg) and unit.path == "unit::Unit":
                if unit.vname == "Derived":
                    d = unit.field(0)
                    u = d.name[len("static:"):] if isinstance(d, Sym) else repr(d)
                else:
                    u = unit.vname
            res.append(("some", repr(rem) if not isinstance(rem, Const) else rem.v, pre.v if isinstance(pre, Const) else repr(pre), u))
        else:
            res.append(("none",))
    return res


def parser_tables(facts):
    """Extract the behaviour of generated::unit::parse per token:
       combined[variant] = ('unit', prefix delta, unit) | ('prefix', delta, special (delta', unit) or None) | ('skip',) | ('?', raw)
       units[variant]    = ('unit', prefix delta, unit) | ('skip',) | ('?', raw)"""
    cadt = facts.adt("generated::unit::Combined")
    uadt = facts.adt("generated::unit::Units")
    if cadt is None or uadt is None or facts.fn("generated::unit::parse") is None:
        return None, None
    cvars = [v["name"] for v in cadt["variants"]]
    uvars = [v["name"] for v in uadt["variants"]]
    probe_u = "Second" if "Second" in uvars else uvars[0]
    units = {}
    # a prefix token with a known delta to enter the second phase
    combined = {}
    for v in cvars:
        r1 = run_parse(facts, [("Combined", v), ("Units", probe_u)], rem_empty=False)
        r2 = run_parse(facts, [("Combined", v), None], rem_empty=True)
        r3 = run_parse(facts, [("Combined", v), ("Combined", "Second" if "Second" in cvars else cvars[0])], rem_empty=False)
        if len(r3) == 1 and r3[0][0] == "some" and r3[0][1] == "remainder@2" and len(r1) == 1 and r1[0][0] == "none" \
                and v != r3[0][3]:
            combined[v] = ("skip",)
        elif len(r1) == 1 and r1[0][0] == "some" and r1[0][1] == "remainder@1":
            # consumed one token and returned a unit
            combined[v] = ("unit", r1[0][2], r1[0][3])
        elif len(r1) == 1 and r1[0][0] == "some" and r1[0][1] == "remainder@2" and len(r3) == 1 and r3[0][0] == "some" and r3[0][1] == "remainder@2":
            # skipped (continue) and the next Combined token produced the unit
            combined[v] = ("skip",)
        elif len(r1) == 1 and r1[0][0] == "some" and r1[0][1] == "remainder@2":
            special = None
            if len(r2) == 1 and r2[0][0] == "some" and r2[0][1] == "":
                special = (r2[0][2], r2[0][3])
            combined[v] = ("prefix", r1[0][2], special)
        else:
            combined[v] = ("?", (r1, r2))
    pfx = next((v for v, a in combined.items() if a[0] == "prefix"), None)
    for u in uvars:
        if pfx is None:
            units[u] = ("?", "no prefix token")
            continue
        base = combined[pfx][1]
        r = run_parse(facts, [("Combined", pfx), ("Units", u)], rem_empty=False)
        r2 = run_parse(facts, [("Combined", pfx), ("Units", u), ("Units", probe_u)], rem_empty=False)
        if len(r) == 1 and r[0][0] == "some" and r[0][1] == "remainder@2" and isinstance(r[0][2], int):
            units[u] = ("unit", r[0][2] - base, r[0][3])
        elif len(r) == 1 and r[0][0] == "none" and len(r2) == 1 and r2[0][0] == "some" and r2[0][1] == "remainder@3":
            units[u] = ("skip",)
        else:
            units[u] = ("?", r)
    return combined, units


def token_attrs(facts, enum):
    a = facts.ast.get(("anything", "generated::unit::" + enum))
    if a is None:
        return None
    out = {}
    for v in a["variants"]:
        toks = []
        for at in v["attrs"]:
            m = re.match(r'^#\[token\("((?:[^"\\]|\\.)*)"\)\]$', at)
            if m:
                toks.append(m.group(1))
            elif "token" in at or "regex" in at:
                toks.append(("?", at))
        out[v["name"]] = toks
    return out


def spec_tables(spec):
    """What tools/gen would emit for data.toml (independent re-implementation of its selection logic)."""
    prefixes = {}
    for p in spec["prefixes"]:
        for n in p["names"]:
            prefixes[n] = p
    suffix_units = {}
    for u in spec["units"]:
        for n in u["names"]:
            if n in prefixes:
                suffix_units[prefixes[n]["variant"]] = u
    productive = [u for u in spec["units"] if not all(n in prefixes for n in u["names"])]
    combined_tokens = {}
    for u in productive:
        combined_tokens[u["variant"]] = [n for n in u["names"] if n not in prefixes]
    for p in spec["prefixes"]:
        combined_tokens[p["variant"]] = list(p["names"])
    combined_tokens["Separator"] = ["-"]
    units_tokens = {u["variant"]: list(u["names"]) for u in spec["units"]}
    units_tokens["Separator"] = ["-"]

    def unit_of(u):
        return u["unit"] if u["type"] == "base" else "units::" + u["name"]
    combined_act = {}
    for u in productive:
        combined_act[u["variant"]] = ("unit", u.get("prefix_bias") or 0, unit_of(u))
    for p in spec["prefixes"]:
        su = suffix_units.get(p["variant"])
        special = ((su.get("prefix_bias") or 0), unit_of(su)) if su else None
        combined_act[p["variant"]] = ("prefix", p["prefix"], special)
    combined_act["Separator"] = ("skip",)
    units_act = {u["variant"]: ("unit", u.get("prefix_bias") or 0, unit_of(u)) for u in spec["units"]}
    units_act["Separator"] = ("skip",)
    return combined_tokens, units_tokens, combined_act, units_act


def r1_generated(facts, rep):
    rep.rule("C05-R1", "generated tables = generator spec: the token attributes of the two logos enums (expanded AST) and the "
                       "per-token behaviour of generated::unit::parse (extracted by driving its MIR with scripted tokens) equal "
                       "what tools/gen/data.toml prescribes: names per variant, unit per variant, gram bias, prefix exponent per "
                       "prefix (= the SI table), the end-of-word special case of the prefix spellings that are also unit names")
    toml_path = os.path.join(extract.repo_root(), "tools", "gen", "data.toml")
    try:
        spec = tomllib.load(open(toml_path, "rb"))
    except (OSError, ValueError) as e:
        rep.ob("C05-R1", "data.toml", False, "cannot read tools/gen/data.toml: %s" % e)
        return None
    ct, ut, ca, ua = spec_tables(spec)
    got_ct, got_ut = token_attrs(facts, "Combined"), token_attrs(facts, "Units")
    if not rep.ob("C05-R1", "anchor:enums", got_ct is not None and got_ut is not None, "logos enums Combined and Units found in the expanded AST"):
        return None
    for nm, want, got in (("Combined", ct, got_ct), ("Units", ut, got_ut)):
        for v in sorted(set(want) | set(got)):
            rep.ob("C05-R1", "tokens:%s::%s" % (nm, v), sorted(want.get(v, [])) == sorted(map(str, got.get(v, []))),
                   "%s::%s is spelled %s, data.toml prescribes %s" % (nm, v, got.get(v), want.get(v)),
                   sample={"enum": nm, "variant": v, "tokens": got.get(v)})
        allt = [t for ts in got.values() for t in ts]
        dup = sorted({t for t in allt if allt.count(t) > 1})
        rep.ob("C05-R1", "tokens:%s:no-duplicates" % nm, not dup, "spellings bound to two variants of %s: %s" % (nm, dup))
    rep.floor("C05-R1", "unit names", sum(len(v) for v in got_ut.values()), 239)
    combined, units = parser_tables(facts)
    if not rep.ob("C05-R1", "anchor:parse", combined is not None, "generated::unit::parse analysed"):
        return None
    pconst = {k[1].split("::")[-1]: int(v["val"]) for k, v in facts.consts.items() if k[1].startswith("prefix::Prefix::") and v["val"] is not None}
    si = load_ref("si_prefixes").PREFIXES
    for v in sorted(set(ca) | set(combined)):
        want = ca.get(v)
        got = combined.get(v)
        if want and want[0] == "prefix":
            exp = pconst.get(want[1])
            want_n = ("prefix", exp, want[2])
            ref_exp = si.get(v.lower(), (None, None))[1]
            rep.ob("C05-R1", "prefix-exponent:%s" % v, exp is not None and exp == ref_exp,
                   "prefix %s has exponent %s (Prefix::%s), SI table %s" % (v, exp, want[1], ref_exp))
        else:
            want_n = want
        rep.ob("C05-R1", "parse:Combined::%s" % v, got == want_n, "parse() on Combined::%s does %s, data.toml prescribes %s" % (v, got, want_n),
               sample={"variant": v, "action": got})
    for v in sorted(set(ua) | set(units)):
        rep.ob("C05-R1", "parse:Units::%s" % v, units.get(v) == ua.get(v), "parse() on Units::%s does %s, data.toml prescribes %s" % (v, units.get(v), ua.get(v)))
    rep.floor("C05-R1", "Combined variants", len(combined), 90)
    rep.floor("C05-R1", "Units variants", len(units), 86)
    return {"spec": spec, "combined_tokens": got_ct, "units_tokens": got_ut, "combined": combined, "units": units, "pconst": pconst}


def r3_bias(facts, rep, tabs):
    rep.rule("C05-R3", "kilogram bias: the parse-side bias of the gram spellings plus Unit::prefix_bias(KiloGram) is zero, and no "
                       "other unit has a display bias")
    body = anchor(rep, "C05-R3", facts, "unit::Unit::prefix_bias")
    if body is None or tabs is None:
        return
    adt = facts.adt("unit::Unit")
    r = tables.int_match_table(body)
    disp = {}
    if r:
        tbl, other, sw = r
        for v, bid in tbl.items():
            val = None
            for s in body.blocks[bid]["stmts"]:
                if s["k"] == "assign" and s["place"]["local"] == 0 and s["rv"]["k"] == "use" and s["rv"]["op"]["k"] == "const":
                    val = F.const_val(s["rv"]["op"])
            disp[facts.variant_by_discr("unit::Unit", v)] = val
        oval = None
        for s in body.blocks[other]["stmts"]:
            if s["k"] == "assign" and s["place"]["local"] == 0 and s["rv"]["k"] == "use" and s["rv"]["op"]["k"] == "const":
                oval = F.const_val(s["rv"]["op"])
        rep.ob("C05-R3", "display-bias:others", oval == 0, "units without an explicit arm have display bias %s" % oval, body.site())
    parse_bias = {}
    for tab in (tabs["combined"], tabs["units"]):
        for v, a in tab.items():
            if a[0] == "unit" and a[1] != 0:
                parse_bias.setdefault(a[2], set()).add(a[1])
    for u in sorted(set(parse_bias) | {k for k, v in disp.items() if v}):
        pb = parse_bias.get(u, {0})
        db = disp.get(u, 0) or 0
        rep.ob("C05-R3", "bias:%s" % u, len(pb) == 1 and list(pb)[0] + db == 0,
               "unit %s: parse-side bias %s, display bias %s" % (u, sorted(pb), db), body.site(), sample={"unit": u, "parse": sorted(pb), "display": db})
    rep.floor("C05-R3", "biased units", len(parse_bias), 1)


# ---- R4: vocabulary enumeration under the longest-match model ---------------------------------------------------
def longest(tokens_by_variant, s):
    best = None
    for v, toks in tokens_by_variant.items():
        for t in toks:
            if isinstance(t, str) and s.startswith(t) and (best is None or len(t) > len(best[1])):
                best = (v, t)
    return best


def model_parse(tabs, word):
    """Model of generated::unit::parse on one word under longest-match tokenisation of the extracted tables.
    Returns (remainder, prefix, unit) or None."""
    s = word
    prefix = 0
    while True:
        m = longest(tabs["combined_tokens"], s)
        if m is None:
            return None
        v, t = m
        s = s[len(t):]
        a = tabs["combined"][v]
        if a[0] == "unit":
            return (s, prefix + a[1], a[2])
        if a[0] == "skip":
            continue
        if a[0] == "prefix":
            if a[2] is not None and s == "":
                return ("", prefix + a[2][0], a[2][1])
            prefix += a[1]
            break
        return None
    while True:
        m = longest(tabs["units_tokens"], s)
        if m is None:
            return None
        v, t = m
        s = s[len(t):]
        a = tabs["units"][v]
        if a[0] == "unit":
            return (s, prefix + a[1], a[2])
        if a[0] == "skip":
            continue
        return None


def model_parse_all(tabs, word):
    out = []
    s = word
    while s:
        r = model_parse(tabs, s)
        if r is None:
            return None
        s, p, u = r
        out.append((p, u))
    return out


def readings(names, prefixes, word, bias):
    """All segmentations of `word` into pieces `[prefix] name` (independent exhaustive splitting).
    names: {spelling: unit}, prefixes: {spelling: exponent}.  Returns a set of tuples of (exponent, unit)."""
    memo = {}

    def go(i):
        if i == len(word):
            return {()}
        if i in memo:
            return memo[i]
        res = set()
        for j in range(i + 1, len(word) + 1):
            piece = word[i:j]
            if piece in names:
                u = names[piece]
                for rest in go(j):
                    res.add(((bias.get(u, 0), u),) + rest)
            for k in range(i + 1, j):
                pf, nm = word[i:k], word[k:j]
                if pf in prefixes and nm in names:
                    u = names[nm]
                    for rest in go(j):
                        res.add(((prefixes[pf] + bias.get(u, 0), u),) + rest)
        memo[i] = res
        return res
    return go(0)


def r4_vocabulary(facts, rep, tabs, tier):
    rep.rule("C05-R4", "vocabulary enumeration under a longest-match model of the two generated lexers (tables extracted in "
                       "R1): every documented unit name alone parses to exactly its unit with prefix 0 (the gram bias for gram); "
                       "every prefix-spelling x name word the query lexer can produce as one WORD is either rejected or parsed "
                       "to one of the word's valid readings as [prefix] name pieces (computed independently by exhaustive "
                       "splitting with the SI exponents); thorough tier: all two-name concatenations")
    if tabs is None:
        return
    spec = tabs["spec"]
    si = load_ref("si_prefixes").PREFIXES
    names = {}
    bias = {}
    for u in spec["units"]:
        ident = u["unit"] if u["type"] == "base" else "units::" + u["name"]
        for n in u["names"]:
            names[n] = ident
        if u.get("prefix_bias"):
            bias[ident] = u["prefix_bias"]
    prefixes = {}
    for p in spec["prefixes"]:
        for n in p["names"]:
            e = si.get(p["variant"].lower(), (None, None))[1]
            if e is not None:
                prefixes[n] = e
    typable = re.compile(r"^[A-Za-z0-9°']+$")
    n_words = n_bad = n_rej = n_alt = 0
    # every name alone
    for n, ident in sorted(names.items()):
        if n == "-" or "-" in n:
            continue
        n_words += 1
        got = model_parse_all(tabs, n)
        want = [(bias.get(ident, 0), ident)]
        if got != want:
            n_bad += 1
            rep.ob("C05-R4", "name:%s" % n, False, "the unit name `%s` parses to %s, expected %s" % (n, got, want))
    rep.ob("C05-R4", "names-alone", n_bad == 0, "%d unit names parse to their own unit on their own" % (n_words - n_bad),
           sample={"names": n_words})
    # prefix x name
    bad2 = 0
    for pf in sorted(prefixes):
        for n in sorted(names):
            w = pf + n
            if not typable.match(w):
                continue
            n_words += 1
            got = model_parse_all(tabs, w)
            if got is None:
                n_rej += 1
                continue
            valid = readings(names, prefixes, w, bias)
            if tuple(got) not in valid:
                bad2 += 1
                if bad2 <= 20:
                    rep.ob("C05-R4", "word:%s" % w, False, "`%s` parses to %s which is not among its valid readings %s" % (w, got, sorted(valid)[:4]))
            elif tuple(got) != ((prefixes[pf] + bias.get(names[n], 0), names[n]),):
                n_alt += 1
    rep.ob("C05-R4", "prefixed-words", bad2 == 0, "%d words: %d rejected, %d alternative valid readings, %d invalid" % (n_words, n_rej, n_alt, bad2),
           sample={"words": n_words, "rejected": n_rej, "alternative": n_alt, "invalid": bad2})
    rep.count("vocabulary words", n_words)
    rep.floor("C05-R4", "vocabulary words", n_words, 9000)
    if tier == "thorough":
        bad3 = 0
        n3 = 0
        nl = sorted(n for n in names if typable.match(n))
        for a in nl:
            for b in nl:
                w = a + b
                n3 += 1
                got = model_parse_all(tabs, w)
                if got is None:
                    continue
                if tuple(got) not in readings(names, prefixes, w, bias):
                    bad3 += 1
                    if bad3 <= 10:
                        rep.ob("C05-R4", "word2:%s" % w, False, "`%s` parses to %s which is not among its valid readings" % (w, got))
        rep.ob("C05-R4", "two-name-words", bad3 == 0, "%d two-name words, %d invalid" % (n3, bad3))
        rep.count("two-name words", n3)


# ---- R5: unit-expression wiring --------------------------------------------------------------------------------
SI_SYMBOLS = ["m", "g", "s", "A", "K", "mol", "cd", "N", "Pa", "J", "W", "C", "V", "F", "S", "Wb", "T", "H", "lm", "lx", "Bq", "Gy", "Sv", "kat", "Ω"]


def r8_si_words(facts, rep, tabs):
    rep.rule("C05-R8", "an SI prefix symbol in front of an SI unit symbol means that prefix of that unit (SI brochure, tables 4, 7): "
                       "for the 20 prefixes x the SI unit symbols the vocabulary knows, the word is read as (the unit's own "
                       "reading shifted by the prefix's exponent) or is rejected - an alias that takes such a word over (`nm` for "
                       "the nautical mile) changes the meaning of a standard word")
    if tabs is None:
        return
    si = load_ref("si_prefixes").PREFIXES
    n = 0
    for u in SI_SYMBOLS:
        r0 = model_parse_all(tabs, u)
        if not r0 or len(r0) != 1:
            continue
        e0, idu = r0[0]
        for name, (sym, x) in sorted(si.items()):
            w = sym + u
            r = model_parse_all(tabs, w)
            n += 1
            okk = r is None or r == [(e0 + x, idu)]
            if not okk:
                rep.ob("C05-R8", "si-word:%s" % w, False, "`%s` is read as %s; SI: %s%s = 10^%d %s" % (w, r, name, u, x, u))
    rep.ob("C05-R8", "si-words", n >= 300, "%d prefix x SI-symbol words examined" % n, nontrivial=True)


def r9_update(facts, rep):
    rep.rule("C05-R9", "a unit word that occurs twice in one unit expression must carry the same prefix, and that is found out "
                       "before anything is changed (summary of Compound::update over a symbolic map): Err(the stored prefix) "
                       "leaves the map untouched; on an entry that exists, every Ok path has compared the stored prefix equal "
                       "to the new one - also the path on which the powers cancel and the entry is removed (`km/m` is not 1)")
    from . import unitops as U
    from ..absint.core import Agg as _A
    from ..absint.term import T as _T, Sym as _S
    try:
        body, res = U.update_summary(facts)
    except core.Undecided as e:
        rep.ob("C05-R9", "update:summary", False, "undecided: %s" % e)
        return
    if body is None:
        rep.ob("C05-R9", "anchor:Compound::update", False, "Compound::update not found")
        return
    bad = []
    n_occ_ok = n_err = 0
    stored_prefix = "stored(names,unit).prefix"
    for r in res:
        if r["kind"] != "ret":
            continue  # overflow of the power sum: C11's subject
        v = r["value"]
        if not (isinstance(v, _A) and v.path == "std::result::Result"):
            continue
        occupied = any(isinstance(p_, _T) and p_.op == "contains" and b_ is True for p_, b_ in r["pc"])
        mut = [e for e in r["log"] if e[0] in ("insert", "remove")]
        cell_changed = any(isinstance(c_, _A) and repr(c_.field(0)) != "stored(names,unit).power" for c_ in r["cells"].values())
        cmp_ = None
        for p_, b_ in r["pc"]:
            if isinstance(p_, _T) and p_.op in ("Ne", "Eq", "==") and stored_prefix in repr(p_) and "prefix" in repr(p_).replace(stored_prefix, ""):
                cmp_ = (b_ is False) if p_.op == "Ne" else (b_ is True)
        if v.vi == 1:
            n_err += 1
            if mut or cell_changed:
                bad.append("Err is returned after the map was changed (%s%s)" % ([e[0] for e in mut], ", power rewritten" if cell_changed else ""))
            if cmp_ is not False:
                bad.append("Err is returned on a path where the prefixes were not compared unequal")
        elif occupied:
            n_occ_ok += 1
            # the entry that stays carries the sum of the stored power and the new one (`ft*ft` is ft^2, not ft)
            if not any(e[0] == "remove" for e in mut):
                from ..absint import evalterm as _ev
                grid_ = [{"stored(names,unit).power": a_, "power": b_} for a_ in (-3, -1, 1, 2, 7) for b_ in (-2, -1, 1, 3)]
                for c_ in r["cells"].values():
                    if isinstance(c_, _A) and c_.path == "compound::State":
                        try:
                            same_ = _ev.sem_eq(c_.field(0), _T("i+", _S("stored(names,unit).power"), _S("power")), grid_)[0]
                        except _ev.Unrecognised:
                            same_ = False
                        if not same_:
                            bad.append("a unit that occurs again ends with power %r; specified stored power + new power" % (c_.field(0),))
            if cmp_ is not True:
                bad.append("an existing entry is updated%s without its prefix having been compared equal to the new one" % (
                    " and removed" if any(e[0] == "remove" for e in mut) else ""))
    for r in res:
        v = r["value"]
        if r["kind"] == "ret" and isinstance(v, _A) and v.path == "std::result::Result" and v.vi == 0 and not any(
                isinstance(p_, _T) and p_.op == "contains" and b_ is True for p_, b_ in r["pc"]):
            ins = [e for e in r["log"] if e[0] == "insert"]
            st_ = ins[0][-1] if len(ins) == 1 else None
            if not (isinstance(st_, _A) and st_.path == "compound::State" and tuple(st_.fields) == (_S("power"), _S("prefix"))):
                bad.append("a new unit is stored as %s; specified State{power, prefix}" % ([repr(e[-1]) for e in ins],))
    rep.ob("C05-R9", "update", not bad and n_occ_ok >= 2 and n_err >= 1, "; ".join(sorted(set(bad))[:3]) if bad else
           "%d Ok path(s) on an existing entry, all behind the prefix comparison; %d Err path(s), none after a change" % (n_occ_ok, n_err), body.site())


def r5_unit_expr(facts, rep):
    rep.rule("C05-R5", "unit-expression wiring in eval::unit (path summary over symbolic children): a WORD inserts its units "
                       "with the current sign as power; `/` negates the sign for everything after it; `^n` sets the power of the "
                       "unit it follows to n times the current sign; `*` and blanks change nothing; a number other than 1 is an error")
    body = anchor(rep, "C05-R5", facts, "eval::unit")
    if body is None:
        return
    adt = facts.adt("syntax::parser::Syntax")
    vidx = {v["name"]: i for i, v in enumerate(adt["variants"])}

    def kind(n):
        return Agg("adt", "syntax::parser::Syntax", vidx[n], n, ())

    scripts = {
        "word": ["WORD"],
        "word/word": ["WORD", "OP_DIV", "WORD"],
        "word/word*word": ["WORD", "OP_DIV", "WORD", "OP_MUL", "WORD"],
        "word word": ["WORD", "WHITESPACE", "WORD"],
        "word^n": ["WORD", "OP_POWER", "NUMBER"],
        "word/word^n": ["WORD", "OP_DIV", "WORD", "OP_POWER", "NUMBER"],
        "word/word/word": ["WORD", "OP_DIV", "WORD", "OP_DIV", "WORD"],
        "number": ["NUMBER"],
        "1 word": ["NUMBER", "WHITESPACE", "WORD"],
    }
    want = {
        "word": [("update", "w0", 1)],
        "word/word": [("update", "w0", 1), ("update", "w2", -1)],
        "word/word*word": [("update", "w0", 1), ("update", "w2", -1), ("update", "w4", -1)],
        "word word": [("update", "w0", 1), ("update", "w2", 1)],
        "word^n": [("update", "w0", 1), ("power", "w0", ("n2", 1))],
        "word/word^n": [("update", "w0", 1), ("update", "w2", -1), ("power", "w2", ("n4", -1))],
        "word/word/word": [("update", "w0", 1), ("update", "w2", -1), ("update", "w4", 1)],
    }
    for name, script in scripts.items():
        nodes = [Agg("node", None, None, None, (kind(k), Sym("span%d" % i))) for i, k in enumerate(script)]

        def oracle(dom, it, nm, args, vals, store, nodes=nodes, script=script):
            if nm == "syntree::node::Children::<'a, T, I, W>::next_node" or nm.endswith("Children<'a, T, I, W> as std::iter::Iterator>::next"):
                i = store.get(("pos",), 0)
                s2 = dict(store)
                s2[("pos",)] = i + 1
                if i >= len(nodes):
                    return [(NONE, s2)]
                return [(some(Agg("node", None, None, None, (Const(i),))), s2)]
            if nm == "syntree::Node::<'a, T, I, W>::value":
                n = vals[0]
                i = n.field(0).v if isinstance(n, Agg) and n.kind == "node" else None
                if i is None:
                    return None
                store2 = dict(store)
                store2[(0, 500 + i)] = kind(script[i])
                return [(Ref(0, 500 + i), store2)]
            if nm.startswith("syntree::Node::<") and (nm.endswith("::range") or nm.endswith("::span")):
                n = vals[0]
                i = n.field(0).v if isinstance(n, Agg) and n.kind == "node" else None
                if nm.endswith("::span"):
                    store2 = dict(store)
                    store2[(0, 600 + (i or 0))] = Sym("range%s" % i)
                    return [(Ref(0, 600 + (i or 0)), store2)]
                return [(Sym("range%s" % i), store)]
            if nm == "syntree::Span::<I>::range":
                return [(vals[0], store)]
            if nm.endswith("Index<I> for str>::index") or nm.endswith("as std::ops::Index<I>>::index"):
                r = vals[1]
                idx = r.name[len("range"):] if isinstance(r, Sym) and r.name.startswith("range") else "?"
                return [(Sym("text%s" % idx), store)]
            if nm == "unit_parser::UnitParser::<'a>::new":
                return [(Agg("unitparser", None, None, None, (vals[0], Const(0))), store)]
            if nm == "unit_parser::UnitParser::<'a>::next":
                up = vals[0]
                if isinstance(up, Agg) and up.kind == "unitparser":
                    txt, n = up.field(0), up.field(1).v
                    if n == 0:
                        idx = txt.name[len("text"):] if isinstance(txt, Sym) else "?"
                        st = it.write_ref(store, args[0], Agg("unitparser", None, None, None, (txt, Const(1))))
                        tup = Agg("tuple", None, None, None, (Sym("prefix%s" % idx), Sym("w%s" % idx)))
                        return [(ok(some(tup)), st), (err(Sym("bad-unit")), dom.with_log(st, ("bad-unit", idx)))]
                    return [(ok(NONE), store)]
            if nm == "core::str::<impl str>::parse":
                txt = vals[0]
                idx = txt.name[len("text"):] if isinstance(txt, Sym) else "?"
                return [(ok(Sym("n%s" % idx)), store), (err(Sym("parse-error")), dom.with_log(store, ("bad-number", idx)))]
            if nm == "compound::Compound::update":
                st = dom.with_log(store, ("update", vals[1], vals[2], vals[3]))
                return [(ok(core.UNIT), st), (err(Sym("expected-prefix")), dom.with_log(st, ("prefix-mismatch",)))]
            if nm == "compound::Compound::update_power":
                return [(core.UNIT, dom.with_log(store, ("power", vals[1], vals[2])))]
            return None

        dom = EffectDomain({}, oracle=oracle)
        dom.uninterp = lambda n: facts.fn(n) is None
        it = core.Interp(facts, dom, budget=60000)
        try:
            outs = it.run(body, [Sym("source"), Sym("children"), Sym("bias")], {})
        except core.Undecided as e:
            rep.ob("C05-R5", "unit-expr:%s" % name, False, "undecided: %s" % e, body.site())
            continue
        oks = []
        for o in outs:
            if o.kind != "ret":
                rep.ob("C05-R5", "unit-expr:%s:panic" % name, False, "eval::unit can end in %s (%s)" % (o.kind, o.value), o.site)
                continue
            v = o.value
            log = dom.log(o.store)
            if isinstance(v, Agg) and v.path == "std::result::Result" and v.vi == 0 and not any(e[0] in ("bad-unit", "bad-number", "prefix-mismatch") for e in log):
                oks.append((o, log))
        if name in want:
            good = len(oks) >= 1
            desc = []
            for o, log in oks:
                got = []
                for e in log:
                    if e[0] == "update":
                        p = e[2]
                        got.append(("update", repr(e[1]), p.v if isinstance(p, Const) else repr(p)))
                    elif e[0] == "power":
                        p = e[2]
                        pv = None
                        if isinstance(p, T) and p.op == "i*" and isinstance(p.args[1], Const):
                            pv = (repr(p.args[0]), p.args[1].v)
                        elif isinstance(p, T) and p.op == "i*" and isinstance(p.args[0], Const):
                            pv = (repr(p.args[1]), p.args[0].v)
                        got.append(("power", repr(e[1]), pv if pv else repr(p)))
                desc.append(got)
                # a NUMBER in exponent position equal to anything is fine; but number==1 checks fork: accept any path
                if got != want[name]:
                    good = False
            rep.ob("C05-R5", "unit-expr:%s" % name, good, "children [%s] -> %s, expected %s" % (" ".join(script), desc, want[name]), body.site(),
                   sample={"children": script, "effects": desc[:1]})
        elif name == "number":
            # a lone number: Ok only where it was compared equal to 1
            good = all(any(isinstance(p, T) and p.op in ("Ne", "Eq") and "n0" in repr(p) and ((p.op == "Ne" and b is False) or (p.op == "Eq" and b is True))
                           for p, b in dom.pc(o.store)) for o, log in oks)
            errs = [o for o in outs if o.kind == "ret" and isinstance(o.value, Agg) and o.value.vi == 1]
            rep.ob("C05-R5", "unit-expr:number", good and bool(errs), "a number in a unit expression is accepted only when it equals 1 (%d Ok, %d Err path(s))" % (len(oks), len(errs)),
                   body.site())


def run(fx, rep, tier):
    rep.assume("logos picks the longest literal token of an enum (trusted; the model of R4 relies on it)")
    facts = fx["dev"]
    tabs = r1_generated(facts, rep)
    r2_tables(facts, rep)
    r3_bias(facts, rep, tabs)
    r4_vocabulary(facts, rep, tabs, tier)
    r5_unit_expr(facts, rep)
    r8_si_words(facts, rep, tabs)
    r9_update(facts, rep)
    rep.rule("C05-R6", "units that cancel inside one unit expression disappear (m*s/s = m): canonical form of the unit maps "
                       "(shared with C02-R1)")
    from . import c02
    sub = type(rep)(rep.prop, rep.tier)
    c02.r1_canonical(facts, sub)
    for o in sub.obls:
        o["rule"] = "C05-R6"
        rep.obls.append(o)
    for f in sub.floors:
        rep.floors.append(("C05-R6",) + tuple(f[1:]))
    rep.rule("C05-R7", "a prefixed unit means the prefix's power of ten times the unit, also for offset scales: on both sides of a "
                       "conversion the SI prefix is applied to the unprefixed quantity (order of prefix scaling and unit conversion, "
                       "shared with C09-R4)")
    from . import c09
    sub = type(rep)(rep.prop, rep.tier)
    c09.r4_order(facts, sub)
    # the zero point of °C / °F belongs to the scale alone: inside a product, quotient or power the word means the interval
    c09.r2_apply(facts, sub)
    for o in sub.obls:
        o["rule"] = "C05-R7"
        rep.obls.append(o)
    rep.rule("C05-R10", "two unit words mean the same unit only if they are the same unit: units are told apart by their numeric "
                        "identifier, so every unit table entry carries its own (id triangle, shared with C17-R1)")
    from . import c17
    sub = type(rep)(rep.prop, rep.tier)
    c17.r1_ids(facts, sub)
    for o in sub.obls:
        o["rule"] = "C05-R10"
        rep.obls.append(o)
    for f in sub.floors:
        rep.floors.append(("C05-R10",) + tuple(f[1:]))
