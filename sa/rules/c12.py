"""C12 - lexing and parsing are lossless over the input text."""
from .. import facts as F
from .. import flow
from ..absint import core, chars
from ..absint.core import Const, Agg, Ref, TOP, NONE, some, Domain, ok, err
from ..absint.term import TermDomain, Sym, T
from ..absint.stdmodels import Seq
from .common import census, anchor

LEVEL = "other"

LEX = "syntax::lexer::Lexer::<'a>::"
NEXT = "<syntax::lexer::Lexer<'_> as std::iter::Iterator>::next"
PAR = "syntax::parser::Parser::<'a>::"

# pos is abstracted to the number of characters consumed since the start of the call: 0, 1, 2 (= two or more)
def P(k):
    return Const(("pos", min(k, 2)))


def LEN(k):
    return Const(("len", k))


P0 = P(0)
PGT = P(1)
POSITIVE = Const(("nat", "positive"))


def lexer_roles(facts):
    """The lexer's primitive accessors, found by what they do (not by name): the one function that assigns Lexer.pos
    (step), and the functions of the impl that read the source at pos and return Option<char> / Option<(char, char)>."""
    roles = {"step": None, "peek": None, "peek2": None}
    writers = set()
    for b in facts.lib_bodies():
        for blk, i, st in b.stmts():
            pl = st["place"]
            if F.place_fields(pl)[-1:] == ["pos"] and "syntax::lexer::Lexer" in b.local_ty(pl["local"]):
                writers.add(b.path)
    if len(writers) == 1:
        roles["step"] = next(iter(writers))
    for b in facts.lib_bodies():
        if not b.path.startswith(LEX) or b.path in writers or "{closure" in b.path or b.promoted >= 0:
            continue
        if not flow.calls_named(b, lambda n: n in ("core::str::<impl str>::get", "core::str::<impl str>::chars")):
            continue
        rt = b.local_ty(0).replace(" ", "")
        if rt == "std::option::Option<char>":
            roles["peek"] = b.path if roles["peek"] is None else "ambiguous"
        elif rt == "std::option::Option<(char,char)>":
            roles["peek2"] = b.path if roles["peek2"] is None else "ambiguous"
    return roles


def lexer_bodies(facts):
    return [b for b in facts.lib_bodies() if b.path.startswith(LEX) or b.path == NEXT]


class LexDomain(Domain):
    """Abstract lexer: the character stream is generated lazily, one atom of the exact partition per observation;
    `pos` is abstracted to {start, advanced}.  peek / peek2 / step are the only accessors (checked by C12-R1)."""

    def __init__(self, atoms, roles=None, facts=None):
        self.reps = [lo for lo, hi in atoms]
        if roles is None and facts is not None:
            roles = facts.__dict__.get("_lexer_roles")
            if roles is None:
                roles = facts.__dict__["_lexer_roles"] = lexer_roles(facts)
        roles = roles or {}
        self.n_step = roles.get("step") or LEX + "step"
        self.n_peek = roles.get("peek") or LEX + "peek"
        self.n_peek2 = roles.get("peek2") or LEX + "peek2"
        self.pos_field = roles.get("pos_field", 1)

    def advance(self, it, st, selfref):
        """One character consumed: pos k -> k + 1 (saturating at 'two or more')."""
        selfv = it.read_ref(st, selfref)
        if isinstance(selfv, Agg):
            cur = selfv.field(self.pos_field)
            k = cur.v[1] if isinstance(cur, Const) and isinstance(cur.v, tuple) and cur.v[0] == "pos" else 2
            st = it.write_ref(st, selfref, selfv.with_field(self.pos_field, P(k + 1)))
        return st

    @staticmethod
    def pos_sub(a, b):
        """Abstract pos_a - pos_b (also the saturating form)."""
        if not (isinstance(a, Const) and isinstance(a.v, tuple) and a.v[0] == "pos" and isinstance(b, Const) and isinstance(b.v, tuple) and b.v[0] == "pos"):
            return TOP
        x, y = a.v[1], b.v[1]
        if y == 0:
            return Const(0) if x == 0 else LEN(x)
        if x == y == 1:
            return Const(0)
        if x == 2 and y == 1:
            return LEN("ge1")
        return TOP

    # ghost state: (cur, nxt) with None = not yet observed
    @staticmethod
    def lex(store):
        return store.get(("lex",), (None, None))

    @staticmethod
    def setlex(store, cur, nxt):
        s = dict(store)
        s[("lex",)] = (cur, nxt)
        return s

    def observe(self, store, which):
        cur, nxt = self.lex(store)
        if which == 0:
            if cur is not None:
                return [store]
            return [self.setlex(store, c, nxt) for c in self.reps + ["EOF"]]
        if nxt is not None:
            return [store]
        if cur == "EOF":
            return [self.setlex(store, cur, "EOF")]
        return [self.setlex(store, cur, c) for c in self.reps + ["EOF"]]

    def on_assert(self, it, body, t, sp, st, frame):
        return "verflow" not in t["msg"]

    def binop(self, op, a, b):
        if op in ("Sub", "SubWithOverflow", "SubUnchecked") and isinstance(a, Const) and isinstance(a.v, tuple) and a.v[:1] == ("pos",):
            r = self.pos_sub(a, b)
            return Agg("tuple", None, None, None, (r, Const(False))) if op == "SubWithOverflow" else r
        if a == POSITIVE or b == POSITIVE:
            other = b if a == POSITIVE else a
            if op in ("Add", "AddWithOverflow", "AddUnchecked") and (other == POSITIVE or (
                    isinstance(other, Const) and isinstance(other.v, int) and other.v >= 0)):
                r = POSITIVE
                return Agg("tuple", None, None, None, (r, Const(False))) if op == "AddWithOverflow" else r
            if isinstance(other, Const) and other.v == 0:
                if op == "Gt":
                    return Const(a == POSITIVE)
                if op == "Lt":
                    return Const(b == POSITIVE)
                if op == "Eq":
                    return Const(False)
                if op == "Ne":
                    return Const(True)
                if op == "Ge":
                    return Const(True) if a == POSITIVE else Const(False)
                if op == "Le":
                    return Const(False) if a == POSITIVE else Const(True)
            return TOP
        if isinstance(a, Const) and isinstance(b, Const) and isinstance(a.v, int) and isinstance(b.v, int) \
                and not isinstance(a.v, bool) and op in ("Add", "AddWithOverflow", "AddUnchecked") and a.v + b.v >= 1 \
                and a.v >= 0 and b.v >= 0 and a.v < 0x30 and b.v < 0x30:
            # counters: 0, positive
            r = POSITIVE
            return Agg("tuple", None, None, None, (r, Const(False))) if op == "AddWithOverflow" else r
        return None

    def call(self, it, name, args, store, term, frame):
        if name == self.n_peek:
            outs = []
            for st in self.observe(store, 0):
                cur, _ = self.lex(st)
                outs.append((NONE if cur == "EOF" else some(Const(cur)), st))
            return outs
        if name == self.n_peek2:
            outs = []
            for st in self.observe(store, 0):
                cur, _ = self.lex(st)
                if cur == "EOF":
                    outs.append((NONE, st))
                    continue
                for st2 in self.observe(st, 1):
                    _, nxt = self.lex(st2)
                    n = 0 if nxt == "EOF" else nxt
                    outs.append((some(Agg("tuple", None, None, None, (Const(cur), Const(n)))), st2))
            return outs
        if name == self.n_step:
            outs = []
            for st in self.observe(store, 0):
                cur, nxt = self.lex(st)
                if cur == "EOF":
                    outs.append((core.UNIT, st))
                    continue
                st2 = self.advance(it, self.setlex(st, nxt, None), args[0])
                outs.append((core.UNIT, st2))
            return outs
        if name in chars.PREDICATES:
            v = it.read_ref(store, args[0])
            if isinstance(v, Const) and isinstance(v.v, int):
                return [(Const(chars.in_set(v.v, chars.PREDICATES[name])), store)]
            return [(TOP, store)]
        if name in ("core::num::<impl usize>::saturating_sub", "core::num::<impl usize>::wrapping_sub") and len(args) == 2:
            return [(self.pos_sub(args[0], args[1]), store)]
        if name == "core::num::<impl usize>::checked_sub" and len(args) == 2:
            r = self.pos_sub(args[0], args[1])
            return [(TOP if r is TOP else some(r), store)]
        return None


_MODES = {}


def lexer_modes(facts):
    """(value of the lexer's mode field in a plain expression, value inside `{ .. }`, index of the field), found by type:
    the one field that is neither the text nor the position.  A bool is (false, true) as the constructor leaves it; a
    two-variant enum is (the constructor's variant, the other one)."""
    key = id(facts)
    if key in _MODES:
        return _MODES[key]
    res = None
    adt = facts.adt("syntax::lexer::Lexer")
    if adt is not None:
        fs = adt["variants"][0]["fields"]
        idx = [i for i, f in enumerate(fs) if not f["ty"].startswith("&") and f["ty"] not in ("usize", "u32", "u64")]
        if len(idx) == 1:
            i = idx[0]
            ty = fs[i]["ty"]
            init = None
            nb = facts.fn("syntax::lexer::Lexer::<'a>::new")
            if nb is not None:
                dom = TermDomain(uninterp=lambda n: True)
                it = core.Interp(facts, dom, budget=2000)
                try:
                    outs = it.run(nb, [Sym("src")], {})
                    vs = {repr(o.value.field(i)): o.value.field(i) for o in outs if o.kind == "ret" and isinstance(o.value, Agg)}
                    if len(vs) == 1:
                        init = list(vs.values())[0]
                except core.Undecided:
                    init = None
            if ty == "bool":
                res = (Const(False), Const(True), i) if init in (None, Const(False), Const(0)) else (Const(True), Const(False), i)
            else:
                e = facts.adt(ty)
                if e is not None and e["is_enum"] and len(e["variants"]) == 2 and isinstance(init, Agg):
                    other = 1 - init.vi
                    res = (init, Agg("adt", ty, other, e["variants"][other]["name"], ()), i)
    _MODES[key] = res
    return res


def lexer_value(escape, facts=None):
    """Abstract Lexer at the start of a call: text, position 0 (abstracted), mode (plain expression / inside braces)."""
    modes = lexer_modes(facts) if facts is not None else None
    if modes is None:
        return Agg("adt", "syntax::lexer::Lexer", 0, "Lexer", (Const(("src",)), P0, Const(bool(escape))))
    adt = facts.adt("syntax::lexer::Lexer")
    vals = []
    for i, f in enumerate(adt["variants"][0]["fields"]):
        if i == modes[2]:
            vals.append(modes[1] if escape else modes[0])
        elif f["ty"].startswith("&"):
            vals.append(Const(("src",)))
        else:
            vals.append(P0)
    return Agg("adt", "syntax::lexer::Lexer", 0, "Lexer", tuple(vals))


def r1_who_writes_pos(facts, rep):
    rep.rule("C12-R1", "who-writes: Lexer.pos is assigned only in Lexer::step (by pos + char::len_utf8 of the character "
                       "found at source.get(pos..)) and in the constructor (constant 0); nobody takes a mutable borrow of "
                       "it; peek/peek2 read the character at source.get(pos..)")
    adt = facts.adt("syntax::lexer::Lexer")
    if not rep.ob("C12-R1", "anchor:Lexer", adt is not None, "struct syntax::lexer::Lexer exists"):
        return
    fields = [f["name"] for f in adt["variants"][0]["fields"]]
    if not rep.ob("C12-R1", "anchor:Lexer.pos", "pos" in fields, "Lexer has a field `pos`"):
        return
    writes = []
    for b in facts.lib_bodies():
        for blk, i, s in b.stmts():
            p = s["place"]
            if F.place_fields(p)[-1:] == ["pos"] and "syntax::lexer::Lexer" in b.local_ty(p["local"]):
                writes.append((b, blk, s, "assign"))
            rv = s["rv"]
            if rv["k"] in ("ref", "rawptr") and rv.get("mut", rv["k"] == "rawptr") and \
                    F.place_fields(rv["place"])[-1:] == ["pos"] and "syntax::lexer::Lexer" in b.local_ty(rv["place"]["local"]):
                writes.append((b, blk, s, "mut-borrow"))
            if rv["k"] == "aggregate" and rv["kind"].get("path") == "syntax::lexer::Lexer":
                writes.append((b, blk, s, "construct"))
    n_step = 0
    roles = lexer_roles(facts)
    assigners = sorted({b.path for b, blk, s, kind in writes if kind == "assign"})
    rep.ob("C12-R1", "single-writer", len(assigners) == 1,
           "Lexer.pos is assigned in exactly one function (%s)" % ", ".join(assigners) if len(assigners) == 1 else
           "Lexer.pos is assigned in %d functions: %s; only one primitive may move the lexer" % (len(assigners), ", ".join(assigners)))
    step_fn = roles.get("step")
    ctor = sorted({b.path for b, blk, s, kind in writes if kind == "construct"})
    for b, blk, s, kind in writes:
        key = "%s:%s" % (b.path, kind)
        if kind == "construct":
            v = F.const_val(s["rv"]["ops"][fields.index("pos")]) if s["rv"]["ops"][fields.index("pos")]["k"] == "const" else None
            rep.ob("C12-R1", key, v == 0 and b.path.startswith(LEX),
                   "a Lexer is constructed in %s with pos = %s" % (b.path, v), b.site(s["span"]))
        elif kind == "mut-borrow":
            rep.ob("C12-R1", key, False, "&mut self.pos is taken in %s" % b.path, b.site(s["span"]))
        elif b.path == step_fn:
            n_step += 1
            okk, detail = _step_increment(b, s, facts)
            rep.ob("C12-R1", "step:assign", okk, detail, b.site(s["span"]), sample={"fn": b.path, "what": detail})
    rep.floor("C12-R1", "assignments to Lexer.pos in the stepping primitive", n_step, 1)
    # peek and peek2 look at source.get(pos..)
    for fn in ("peek", "peek2", "step"):
        pth = roles.get(fn)
        b = facts.fn(pth) if pth and pth != "ambiguous" else None
        if b is None:
            rep.ob("C12-R1", "anchor:%s" % fn, False, "no unique lexer primitive with the role `%s` (reads the source at pos%s) found: %s" % (
                fn, ", assigns pos" if fn == "step" else "", pth))
            continue
        gets = flow.calls_named(b, lambda n: n == "core::str::<impl str>::get")
        if not gets:
            # the read sits in a helper of the lexer (`fn rest(&self) -> &str { self.source.get(self.pos..).unwrap_or("") }`)
            frontier, seen_ = [b], {b.path}
            for _ in range(3):
                nxt = []
                for cb in frontier:
                    for blk_, t_, sp_, nm_ in cb.calls():
                        hb = facts.fn(nm_)
                        if hb is None or hb.path in seen_ or not hb.path.startswith("syntax::lexer::") or hb.arg_count != 1 or "Lexer" not in hb.local_ty(1):
                            continue
                        seen_.add(hb.path)
                        nxt.append(hb)
                hit = [hb for hb in nxt if flow.calls_named(hb, lambda n: n == "core::str::<impl str>::get")]
                if hit:
                    b = hit[0]
                    gets = flow.calls_named(b, lambda n: n == "core::str::<impl str>::get")
                    break
                frontier = nxt
        okk = bool(gets)
        for bid, t, sp, _ in gets:
            src = flow.field_origins(b, t["args"][0])
            rng = flow.slice_back(b, t["args"][1], through_agg=True)
            fo = set()
            for l in rng:
                if l[0] == "agg" and "RangeFrom" not in l[1]:
                    okk = False
            # the range start is self.pos
            for blk, i, s in b.stmts():
                if s["rv"]["k"] == "aggregate" and "RangeFrom" in s["rv"]["kind"].get("path", ""):
                    fo |= {tuple(F.place_fields(o["place"])) for o in s["rv"]["ops"] if o["k"] in ("copy", "move")}
                    for o in s["rv"]["ops"]:
                        fo |= flow.field_origins(b, o)
            if src != {("source",)} or ("pos",) not in fo:
                okk = False
        rep.ob("C12-R1", "%s:reads-source.get(pos..)" % fn, okk,
               "%s looks at self.source.get(self.pos..)" % fn if okk else "%s does not read self.source.get(self.pos..)" % fn,
               b.site())


def _step_increment(b, s, facts):
    """The value assigned to pos in step is pos + len_utf8(c)."""
    rv = s["rv"]
    defs = flow.Defs(b)
    target = None
    if rv["k"] == "binop" and rv["op"].startswith("Add"):
        target = rv
    else:
        op = rv["op"] if rv["k"] == "use" else None
        if op is None or op["k"] not in ("copy", "move"):
            return False, "pos is assigned a %s" % rv["k"]
        # find the Add feeding it
        l = op["place"]["local"]
        for kind, bid, idx, pl in defs.of(l):
            if kind == "assign" and pl["rv"]["k"] == "binop" and pl["rv"]["op"].startswith("Add"):
                target = pl["rv"]
    if target is None:
        return False, "pos is not assigned the result of an addition"
    fa = flow.field_origins(b, target["a"]) | flow.field_origins(b, target["b"])
    calls = {x[1] for o in (target["a"], target["b"]) for x in flow.slice_back(b, o) if x[0] == "call"}
    okk = ("pos",) in fa and "std::char::methods::<impl char>::len_utf8" in calls
    return okk, "pos is assigned pos + %s" % (sorted(c.split("::")[-1] for c in calls) or "?")


def r2_token_len(facts, rep):
    rep.rule("C12-R2", "every Token is built with len = saturating_sub(self.pos, start) where start is a copy of self.pos "
                       "taken before any call that can advance the lexer")
    n = 0
    for path in (NEXT, LEX + "next_escape"):
        b = anchor(rep, "C12-R2", facts, path)
        if b is None:
            continue
        adv = {bid for bid, t, sp, nm in flow.calls_named(b, lambda n_: n_.startswith(LEX) and n_.split("::")[-1] in (
            "step", "consume_number", "consume_word", "consume_escaped_word", "consume_whitespace", "next_escape"))}
        adt = facts.adt("syntax::lexer::Token")
        fields = [f["name"] for f in adt["variants"][0]["fields"]] if adt else []
        for blk, i, s in b.stmts():
            rv = s["rv"]
            if rv["k"] != "aggregate" or rv["kind"].get("path") != "syntax::lexer::Token":
                continue
            n += 1
            lenop = rv["ops"][fields.index("len")]
            okk = False
            detail = "len does not come from saturating_sub(pos, start)"
            for l in flow.slice_back(b, lenop):
                if l[0] == "call" and l[1] == "core::num::<impl usize>::saturating_sub":
                    t = b.blocks[l[2]]["term"]["t"]
                    a_f = flow.field_origins(b, t["args"][0])
                    # start: a local whose only definition copies self.pos before any advancing call
                    sl = F.op_local(t["args"][1])
                    defs = flow.Defs(b)
                    while sl is not None and len(defs.whole(sl)) == 1 and defs.whole(sl)[0][0] == "assign" and \
                            defs.whole(sl)[0][3]["rv"]["k"] == "use" and F.op_local(defs.whole(sl)[0][3]["rv"]["op"]) is not None:
                        sl = F.op_local(defs.whole(sl)[0][3]["rv"]["op"])
                    ds = defs.whole(sl) if sl is not None else []
                    if a_f == {("pos",)} and len(ds) == 1 and ds[0][0] == "assign":
                        srcf = flow.field_origins(b, ds[0][3]["rv"]["op"]) if ds[0][3]["rv"]["k"] == "use" else set()
                        dblk = ds[0][1]
                        before = all(dblk not in b.cfg.reachable_after(a) and a != dblk for a in adv)
                        okk = srcf == {("pos",)} and before
                        detail = "len = saturating_sub(self.pos, start), start = self.pos copied %s" % (
                            "before any advancing call" if before else "AFTER an advancing call")
            rep.ob("C12-R2", "%s:token#%d" % (path.split("::")[-1], n), okk, detail, b.site(s["span"]))
    rep.floor("C12-R2", "Token constructions", n, 2)


_R3_CTX = None


def _r3_one(job):
    """One abstract run of Lexer::next from (escape flag, first character atom) -> an obligation tuple."""
    facts, ats, body = _R3_CTX
    escape, first = job
    dom = LexDomain(ats, facts=facts)
    it = core.Interp(facts, dom, budget=400000)
    store = {(0, 0): lexer_value(escape, facts)}
    store = dom.setlex(store, first, None)
    key = "escape=%s:first=%s" % (escape, chars.describe(first))
    rule = "C12-R4" if first == "EOF" else "C12-R3"
    try:
        outs = it.run(body, [Ref(0, 0)], store)
    except core.Undecided as e:
        return ("C12-R3", key, False, "undecided: %s" % e, None, 0)
    bad = []
    kinds = set()
    for o in outs:
        pos = it.read_ref(o.store, Ref(0, 0, (1,)))
        if o.kind != "ret":
            bad.append("%s %s at %s" % (o.kind, o.value, o.site))
            continue
        v = o.value
        if first == "EOF":
            if not (v == NONE and pos == P0):
                bad.append("at end of input returns %r with pos %r" % (v, pos))
            continue
        if v == NONE:
            bad.append("returns None although input remains")
            continue
        tok = v.field(0) if isinstance(v, Agg) and v.vname == "Some" else None
        if not (isinstance(tok, Agg) and tok.path == "syntax::lexer::Token"):
            bad.append("unrecognised result %r" % (v,))
            continue
        ln = tok.field(0)
        kinds.add(repr(tok.field(1)))
        k = pos.v[1] if isinstance(pos, Const) and isinstance(pos.v, tuple) and pos.v[0] == "pos" else None
        if not k:
            bad.append("returns a token although the lexer did not advance (pos %r)" % (pos,))
        elif ln != LEN(k):
            bad.append("returns a token with len %r after consuming %s character(s): len is not pos - start" % (
                ln, "two or more" if k == 2 else k))
    return (rule, key, not bad and bool(outs),
            ("%d path(s), all advance" % len(outs)) if not bad else "; ".join(sorted(set(bad))[:3]),
            {"escape": escape, "first": chars.describe(first), "paths": len(outs), "kinds": sorted(kinds)[:4]}, len(outs))


def r3_progress(facts, rep, tier):
    rep.rule("C12-R3", "abstract run of Lexer::next / next_escape for every atom of the exact character partition "
                       "(atoms = intervals no comparison constant or character predicate of the lexer distinguishes) as "
                       "first character, with pos abstracted to the number of characters consumed since the call began "
                       "(0, 1, two or more): every path returns Some(Token) whose len is exactly pos_after - pos_before > 0 "
                       "(whatever helper builds the token), never None, never a panic")
    rep.rule("C12-R4", "next returns None only when the input is exhausted at the start of the call, and then consumes nothing")
    bodies = lexer_bodies(facts)
    consts, preds, unknown = chars.char_constants(bodies)
    if not rep.ob("C12-R3", "partition", not unknown, "character predicates used by the lexer: %s%s" % (
            sorted(p.split("::")[-1] for p in preds), "" if not unknown else "; NOT modelled: %s" % sorted(unknown))):
        return
    ats = chars.atoms(consts, preds)
    rep.count("character atoms", len(ats))
    rep.count("comparison constants", len(consts))
    body = anchor(rep, "C12-R3", facts, NEXT)
    if body is None:
        return
    roles = lexer_roles(facts)
    if not rep.ob("C12-R3", "anchor:accessors", all(v and v != "ambiguous" for v in roles.values()),
                  "the lexer's primitive accessors, found by what they do: %s" % roles):
        return
    jobs = [(escape, first) for escape in (False, True) for first in [lo for lo, hi in ats] + ["EOF"]]
    global _R3_CTX
    _R3_CTX = (facts, ats, body)
    results = None
    try:
        import multiprocessing as mp
        import os
        n = min(12, os.cpu_count() or 1)
        if n > 1 and len(jobs) > 8:
            with mp.get_context("fork").Pool(n) as pool:
                results = pool.map(_r3_one, jobs, chunksize=4)
    except Exception:
        results = None
    if results is None:
        results = [_r3_one(j) for j in jobs]
    for rule, key, okk, detail, sample, npaths in results:
        rep.count("lexer paths", npaths)
        rep.ob(rule, key, okk, detail, body.site(), sample=sample)
    rep.floor("C12-R3", "character atoms", len(ats), 20)


class ParserDomain(TermDomain):
    """Abstract parser state: the lexer is a stream of fresh symbolic tokens (then None for ever), the queue is a sequence,
    the tree builder is an effect log."""

    inline_depth = 10  # helper layering (eat -> skip -> closure -> bump -> get -> fill) must not hide a primitive

    def __init__(self, facts):
        super().__init__()
        self.facts = facts
        self.uninterp = lambda n: facts.fn(n) is None

    def on_assert(self, it, body, t, sp, st, frame):
        return False

    @staticmethod
    def token(tag, k):
        return Agg("adt", "syntax::lexer::Token", 0, "Token", (Sym("%slen%d" % (tag, k)), Sym("%skind%d" % (tag, k))))

    def call(self, it, name, args, store, term, frame):
        if name == NEXT:
            if store.get(("eof",)):
                return [(NONE, store)]
            k = store.get(("lexed",), 0)
            s1 = dict(store)
            s1[("lexed",)] = k + 1
            s2 = dict(store)
            s2[("eof",)] = True
            outs = [(NONE, s2)]
            if k < 6:
                outs.append((some(self.token("l", k)), s1))
            return outs
        if name.startswith("syntree::Builder") or name.startswith("syntree::builder::Builder"):
            m = name.rsplit("::", 1)[-1]
            vals = [it.read_ref(store, a) for a in args[1:]]
            st = self.with_log(store, (m,) + tuple(vals))
            if m == "token":
                return [(ok(Sym("id")), st), (err(Sym("builder_error")), self.with_log(st, ("fail", m)))]
            if m in ("open", "close", "close_at", "checkpoint", "build"):
                return [(ok(T("call:" + m, *vals)), st), (err(Sym("builder_error")), self.with_log(st, ("fail", m)))]
            return [(T("call:" + m, *vals), st)]
        if (name.endswith("as std::cmp::PartialEq>::eq") or name.endswith("as std::cmp::PartialEq>::ne")) and len(args) == 2:
            neg = name.endswith("::ne")
            a, b = it.read_ref(store, args[0]), it.read_ref(store, args[1])
            a = it.read_ref(store, a) if isinstance(a, Ref) else a
            b = it.read_ref(store, b) if isinstance(b, Ref) else b
            if a == b:
                return [(Const(not neg), store)]
            if isinstance(a, Agg) and isinstance(b, Agg) and a.vi is not None and b.vi is not None and not a.fields and not b.fields:
                return [(Const((a.vi == b.vi) != neg), store)]
            # a symbolic kind against a concrete variant: the same predicate a `match` on the kind asks
            for x, y in ((a, b), (b, a)):
                if isinstance(x, (Sym, T)) and isinstance(y, Agg) and y.vi is not None and not y.fields:
                    d = self.facts.discr_of(y.path, y.vname) if y.path else y.vi
                    return [(Const(v.v != neg), s_) for v, s_ in self.fork(store, T("==", T("discr", x), Const(d)))]
            return [(Const(v.v != neg), s_) for v, s_ in self.fork(store, T("kind_eq", *sorted((a, b), key=repr)))]
        return super().call(it, name, args, store, term, frame)

    def discr_of(self, v):
        if isinstance(v, (T, Sym)):
            return T("discr", v)
        return None


def _parser_build(facts, adt_path, queue, found, path, depth=0):
    """Abstract value of a struct of the parser by the types of its fields: the lexer (a stream of fresh tokens), the tree
    builder (an effect log), the look-ahead queue (a sequence); a crate-local struct holding some of these is followed."""
    adt = facts.adt(adt_path)
    if adt is None or adt["is_enum"] or depth > 3:
        return TOP
    vals = []
    for i, f in enumerate(adt["variants"][0]["fields"]):
        ty = f["ty"]
        if ty.startswith("syntax::lexer::Lexer"):
            found["lexer"] = path + (i,)
            vals.append(Agg("adt", "syntax::lexer::Lexer", 0, "Lexer", (Const(("src",)), Const(0), Const(False))))
        elif "syntree::Builder" in ty or "syntree::builder::Builder" in ty:
            found["builder"] = path + (i,)
            vals.append(Sym("builder"))
        elif ty.startswith("std::collections::VecDeque<") or ty.startswith("std::vec::Vec<syntax::lexer::Token"):
            found["buf"] = path + (i,)
            vals.append(Seq(queue))
        else:
            inner = ty.split("<")[0]
            if facts.adt(inner) is not None and not facts.adt(inner)["is_enum"] and inner.startswith("syntax::"):
                found.setdefault("structs", set()).add(inner)
                vals.append(_parser_build(facts, inner, queue, found, path + (i,), depth + 1))
            else:
                vals.append(TOP)
    return Agg("adt", adt_path, 0, adt["variants"][0]["name"], tuple(vals))


def parser_value(facts, queue):
    """-> (abstract Parser value, layout {'lexer' | 'builder' | 'buf': path of field indices})."""
    found = {}
    v = _parser_build(facts, "syntax::parser::Parser", queue, found, ())
    return v, found


def at_path(v, path):
    for i in path:
        if not isinstance(v, Agg):
            return None
        v = v.field(i)
    return v


def r5_forwarding(facts, rep):
    rep.rule("C12-R5", "forwarding, as an invariant of every Parser method (checked by abstract runs with the lexer as a stream "
                       "of fresh tokens, the queue as a sequence and the tree builder as an effect log; queue lengths 0..2, "
                       "small arguments): the tokens handed to Builder::token, followed by the queue afterwards, are exactly the "
                       "queue before followed by the tokens newly taken from the lexer, in order, each once, with its own kind "
                       "and len; nothing else reaches Builder::token.  So whatever a grammar function does, the tree's leaves "
                       "are a prefix of the lexer's tokens in order.  grammar::root leaves its loop only on EOF after flushing "
                       "the pending blanks")
    adt = facts.adt("syntax::parser::Parser")
    lay0 = parser_value(facts, ())[1] if adt is not None else {}
    owners = tuple(sorted({"syntax::parser::Parser"} | set(lay0.pop("structs", ()))))
    owned = lambda p: any(p.startswith(o + "::") for o in owners)
    if not rep.ob("C12-R5", "anchor:Parser", adt is not None and set(lay0) == {"lexer", "builder", "buf"},
                  "struct Parser holds (directly or in a struct of its own) a lexer, a tree builder and a token queue (found: %s)" % sorted(lay0)):
        return
    # who may touch the queue, the lexer and Builder::token: only Parser methods
    tok = census(facts, lambda n: (n.startswith("syntree::Builder") or n.startswith("syntree::builder::Builder")) and n.endswith("::token"))
    for b, bid, t, sp, name in tok:
        rep.ob("C12-R5", "token-caller:%s" % b.path, owned(b.path), "Builder::token is called from %s" % b.path, b.site(sp))
    rep.floor("C12-R5", "Builder::token call sites", len(tok), 1)
    nxt = census(facts, lambda n: n == NEXT)
    for b, bid, t, sp, name in nxt:
        rep.ob("C12-R5", "lexer-next-caller:%s" % b.path, owned(b.path) or b.path.startswith("<syntax::lexer::Lexer"),
               "Lexer::next is called from %s" % b.path, b.site(sp))
    methods = []
    for b in facts.lib_bodies():
        if b.path.startswith(PAR) and "{closure" not in b.path and b.promoted < 0 and b.arg_count >= 1 \
                and b.local_ty(1).replace(" ", "").startswith("&mutsyntax::parser::Parser"):
            methods.append(b)
    rep.floor("C12-R5", "Parser methods taking &mut self", len(methods), 6)
    n_runs = 0
    for b in sorted(methods, key=lambda x: x.path):
        mname = b.path[len(PAR):]
        # argument menus by type
        menus = []
        okargs = True
        for i in range(2, b.arg_count + 1):
            ty = b.local_ty(i).replace(" ", "")
            if ty.endswith("parser::Skip"):
                menus.append([Agg("adt", "syntax::parser::Skip", 0, "Skip", (Const(k),)) for k in (0, 1, 2)])
            elif ty == "usize":
                menus.append([Const(k) for k in (0, 1, 2)])
            elif ty.endswith("parser::Syntax"):
                menus.append([Sym("want")])
            elif ty.startswith("&[") and ty.endswith("parser::Syntax]"):
                menus.append([Seq((Sym("e0"),)), Seq((Sym("e0"), Sym("e1")))])
            else:
                menus.append([Sym("arg%d" % i)])
        combos = [[]]
        for m in menus:
            combos = [c + [x] for c in combos for x in m]
        bad = []
        n_paths = 0
        delivered_total = 0
        for q in (0, 1, 2):
            queue = tuple(ParserDomain.token("q", k) for k in range(q))
            for combo in combos:
                dom = ParserDomain(facts)
                it = core.Interp(facts, dom, budget=300000)
                pv, names = parser_value(facts, queue)
                st = {(0, 0): pv}
                try:
                    outs = it.run(b, [Ref(0, 0)] + combo, st)
                except core.Undecided as e:
                    bad.append("undecided: %s" % e)
                    continue
                n_runs += 1
                for o in outs:
                    n_paths += 1
                    if o.kind != "ret":
                        if o.kind == "panic":
                            bad.append("%s %s" % (o.kind, o.value))
                        continue
                    log = dom.log(o.store)
                    if any(e[0] == "fail" for e in log):
                        continue  # the tree builder failed: the parse is abandoned with the error
                    pv2 = it.read_ref(o.store, Ref(0, 0))
                    buf2 = at_path(pv2, names["buf"]) if isinstance(pv2, Agg) else None
                    if not isinstance(buf2, Seq):
                        bad.append("the queue becomes %r" % (buf2,))
                        continue
                    lexed = tuple(ParserDomain.token("l", k) for k in range(o.store.get(("lexed",), 0)))
                    delivered = tuple(e for e in log if e[0] == "token")
                    delivered_total += len(delivered)
                    want = queue + lexed
                    got = tuple(Agg("adt", "syntax::lexer::Token", 0, "Token", (e[2], e[1])) if len(e) == 3 else e for e in delivered) + buf2.items
                    if got != want:
                        bad.append("queue %d, args %r: delivered %s then queue %s; specified the sequence %s" % (
                            q, combo, [e[1:] for e in delivered], list(buf2.items), list(want)))
        rep.count("parser method paths", n_paths)
        rep.ob("C12-R5", "invariant:%s" % mname, not bad, "; ".join(sorted(set(bad))[:3]) if bad else
               "%s keeps (delivered ++ queue) = (queue ++ newly lexed) on all %d paths (%d token deliveries)" % (mname, n_paths, delivered_total),
               b.site(), sample={"method": mname, "paths": n_paths, "deliveries": delivered_total})
    rep.count("parser method runs", n_runs)
    root = anchor(rep, "C12-R5", facts, "syntax::grammar::root")
    if root is not None:
        _root_exit(root, facts, rep)


def _payload_fields(body, operand):
    """Field names read from an enum payload on the way to operand, e.g. (_3 as Some).0.len -> {'len'}."""
    out = set()
    defs = flow.Defs(body)
    seen = set()

    def go(o, d=0):
        if o["k"] not in ("copy", "move") or d > 10:
            return
        p = o["place"]
        names = [e.get("name", "") for e in p["proj"] if e["k"] == "field" and e.get("name", "") not in ("", "0", "1")]
        if names:
            out.add(names[-1])
            return
        if p["local"] in seen:
            return
        seen.add(p["local"])
        for kind, bid, idx, pl in defs.of(p["local"]):
            if kind == "assign" and pl["rv"]["k"] in ("use", "cast"):
                go(pl["rv"]["op"], d + 1)
            elif kind == "assign" and pl["rv"]["k"] == "ref":
                go({"k": "copy", "place": pl["rv"]["place"]}, d + 1)
    go(operand)
    return out


def _root_exit(root, facts, rep):
    cfg = root.cfg
    # the loop head: nth(skip, 0) call whose result is switched on
    nths = flow.calls_named(root, lambda n: n == PAR + "nth")
    heads = [x for x in nths if x[0] in cfg.reachable_after(x[0])]
    if not rep.ob("C12-R5", "root:loop", len(heads) == 1, "root has one nth() call on a cycle (%d found)" % len(heads), root.site()):
        return
    hb, ht, hsp, _ = heads[0]
    eof = facts.discr_of("syntax::parser::Syntax", "EOF")
    # find the switch on the nth result
    sw = None
    bid = ht["target"]
    dl = ht["dest"]["local"]
    for _ in range(4):
        b = root.blocks[bid]
        d2 = None
        for s in b["stmts"]:
            if s["k"] == "assign" and s["rv"]["k"] == "discr" and s["rv"]["place"]["local"] == dl:
                d2 = s["place"]["local"]
        t = b["term"]["t"]
        if t["k"] == "switch" and d2 is not None and F.op_local(t["discr"]) == d2:
            sw = (bid, t)
            break
        if t["k"] == "goto":
            bid = t["target"]
            continue
        break
    if not rep.ob("C12-R5", "root:switch", sw is not None, "switch on the peeked token kind found", root.site(hsp)):
        return
    sbid, st = sw
    m = {int(v): x for v, x in st["targets"]}
    # loop exits: blocks in the loop with a successor that cannot reach the head
    loop = {x for x in cfg.reach0 if hb in cfg.reachable_from(x) and x in cfg.reachable_after(hb)} | {hb}
    exits = set()
    for x in loop:
        for s in cfg.succ[x]:
            if s not in loop:
                # error returns (`?`) lead to an Err return without further tokens: they are not loop exits of interest
                exits.add((x, s))
    eof_t = m.get(eof)
    normal_exits = []
    for x, s in exits:
        # does this exit reach a return that yields Ok?  `?` exits go through from_residual
        r = cfg.reachable_from(s)
        if any(F.callee(root.blocks[y]["term"]["t"]).endswith("from_residual") for y in r | {s}
               if root.blocks[y]["term"]["t"]["k"] == "call") and not any(
                root.blocks[y]["term"]["t"]["k"] == "call" and F.callee(root.blocks[y]["term"]["t"]) == PAR + "close_at" for y in r):
            continue
        normal_exits.append((x, s))
    okk = eof_t is not None and bool(normal_exits)
    detail = []
    resid = {y for y in cfg.reach0 if root.blocks[y]["term"]["t"]["k"] == "call"
             and F.callee(root.blocks[y]["term"]["t"]).endswith("from_residual")}
    skip_ok = set()
    for b_, t_, sp_, n_ in flow.calls_named(root, lambda n: n == PAR + "skip"):
        e = flow.ok_edge(root, b_)
        if e and e[1] is not None:
            skip_ok.add(e[1])
    for x, s in normal_exits:
        via_eof = (x == sbid and s == eof_t) or x in cfg.blocks_only_via_edge(sbid, eof_t)
        if not via_eof:
            okk = False
        detail.append("exit bb%d->bb%d %s" % (x, s, "on the EOF edge" if via_eof else "NOT on the EOF edge"))
    flushed = False
    if eof_t is not None:
        r = cfg.reachable_from(eof_t, avoid=skip_ok | resid)
        flushed = not (r & set(cfg.returns)) and bool(skip_ok)
    if not flushed:
        okk = False
    detail.append("pending blanks are %sflushed by a successful skip() on every path from the EOF edge to the Ok return" % (
        "" if flushed else "NOT "))
    rep.ob("C12-R5", "root:exit-only-at-EOF-after-flush", okk, "; ".join(detail) or "no normal loop exit found", root.site(hsp),
           sample={"exits": detail})


class ProgressDomain(LexDomain):
    """LexDomain + a ghost that records whether the lexer moved since the ghost was cleared."""

    def advance(self, it, st, selfref):
        st = super().advance(it, st, selfref)
        st = dict(st)
        st[("stepped",)] = True
        return st


def _heads(body):
    cfg = body.cfg
    hs = set()
    for b in cfg.reach0:
        for x in cfg.succ[b]:
            if cfg.dominates(x, b):
                hs.add(x)
    return sorted(hs)


def r6_loops(facts, rep, ats):
    rep.rule("C12-R6", "termination of the lexer, path-sensitively: for every function of the lexer that contains a loop, the graph "
                       "of abstract states at its loop heads (explored from the function's entry with the abstract character "
                       "stream; helper calls are followed) has no cycle on which the lexer does not move; so every loop consumes "
                       "input on each turn or leaves.  The parser's loops are covered by C12-R5's abstract runs (which end)")
    from .. import cfg as _cfg
    n = 0
    for b in lexer_bodies(facts):
        if "{closure" in b.path or b.promoted >= 0:
            continue
        heads = _heads(b)
        if not heads:
            continue
        n += len(heads)
        live = getattr(b, "_live", None) or _cfg.liveness(b)
        b._live = live
        live_in, addr = live
        # argument menus: self, then bools both ways, anything else unknown
        menus = [[Ref(0, 0)]]
        for i in range(2, b.arg_count + 1):
            menus.append([Const(False), Const(True)] if b.local_ty(i) == "bool" else [TOP])
        combos = [[]]
        for m in menus:
            combos = [c + [x] for c in combos for x in m]
        edges = {}
        nodes = {}
        bad = []
        try:
            for escape in (False, True):
                for combo in combos:
                    dom = ProgressDomain(ats, facts=facts)
                    it = core.Interp(facts, dom, budget=600000)
                    st0 = {(0, 0): lexer_value(escape, facts)}
                    work = []
                    for o in it.run(b, combo, st0, stop=set(heads)):
                        if o.kind == "stop":
                            work.append((o.value, o.store))
                    seen = set()
                    while work:
                        h, st = work.pop()
                        keep = set(live_in[h]) | set(addr)
                        key = (h, frozenset((k, v) for k, v in st.items() if k[0] != 1 or k[1] in keep if k != ("stepped",)))
                        if key in seen:
                            continue
                        seen.add(key)
                        nodes[key] = b.site(b.blocks[h]["term"]["span"])
                        st1 = dict(st)
                        st1[("stepped",)] = False
                        for o in it.run(b, combo, {}, start=(h, st1), stop=set(heads)):
                            if o.kind != "stop":
                                continue
                            h2 = o.value
                            keep2 = set(live_in[h2]) | set(addr)
                            key2 = (h2, frozenset((k, v) for k, v in o.store.items() if k[0] != 1 or k[1] in keep2 if k != ("stepped",)))
                            edges.setdefault(key, set()).add((key2, bool(o.store.get(("stepped",)))))
                            work.append((h2, o.store))
                        if len(seen) > 4000:
                            raise core.Undecided("more than 4000 abstract loop states")
        except core.Undecided as e:
            rep.ob("C12-R6", "%s:progress" % b.path.split("::")[-1], False, "undecided: %s" % e, b.site())
            continue
        # a cycle through non-moving edges only?
        idle = {u: [v for v, moved in vs if not moved] for u, vs in edges.items()}
        color = {}
        cyc = None
        for root in list(idle):
            if root in color:
                continue
            stack = [(root, iter(idle.get(root, ())))]
            color[root] = 1
            while stack and cyc is None:
                u, itr = stack[-1]
                for v in itr:
                    if color.get(v) == 1:
                        cyc = v
                        break
                    if v not in color:
                        color[v] = 1
                        stack.append((v, iter(idle.get(v, ()))))
                        break
                else:
                    color[u] = 2
                    stack.pop()
            if cyc is not None:
                break
        rep.count("lexer loop states", len(nodes))
        rep.ob("C12-R6", "%s:progress" % b.path.split("::")[-1], cyc is None,
               "%d loop head(s), %d abstract loop states: every cycle moves the lexer" % (len(heads), len(nodes)) if cyc is None else
               "a turn of the loop at %s can return to the same state without consuming input" % nodes.get(cyc, "?"),
               b.site(), sample={"fn": b.path, "heads": len(heads), "states": len(nodes)})
    rep.floor("C12-R6", "loops in lexer functions", n, 3)


def r10_forward_only(facts, rep, rule="C12-R10"):
    rep.rule(rule, "the lexer reads the text forwards only: no function of the lexer slices or indexes the source with an open "
                   "start (`..x`, `..=x`, `..`), so what a token is depends on the text from its start on and never on what "
                   "stands before it (`-2` is the same token after `,` as after `(`; the literal shapes of C07-R5 are lexed "
                   "alone and stand for every context)")
    n = 0
    bad = []
    for b in lexer_bodies(facts):
        for blk, t, sp, name in b.calls():
            m = name.rsplit("::", 1)[-1]
            on_str = ("impl str" in name or "for str" in name or name.startswith("core::str::") or "std::ops::Index" in name or "SliceIndex" in name)
            if not on_str or m not in ("get", "index", "get_unchecked", "split_at", "get_mut", "index_mut") or len(t["args"]) < 2:
                continue
            n += 1
            if m == "split_at":
                bad.append((b, sp, "split_at (the part before the position is looked at)"))
                continue
            for l in flow.slice_back(b, t["args"][1], through_agg=True):
                if l[0] == "agg" and any(w in l[1] for w in ("RangeTo", "RangeFull")):
                    bad.append((b, sp, "a slice with an open start (%s)" % l[1].rsplit("::", 1)[-1]))
    for b, sp, what in bad[:4]:
        rep.ob(rule, "look-behind:%s" % b.path, False, "%s takes %s of the source: the token depends on the text before it" % (b.path, what), b.site(sp))
    rep.ob(rule, "forward-only", not bad, "%d slice / index operations on the text in the lexer, %s with an open start" % (n, "none" if not bad else len(bad)))
    rep.floor(rule, "slice / index operations on the text in the lexer", n, 2)


def r9_same_text(facts, rep):
    rep.rule("C12-R9", "the text that is parsed is the text that is kept: in the summary of query::parse the string handed to "
                       "Parser::new and the `source` stored in the result (against which every span is read back) are both the "
                       "caller's string, unchanged")
    body = facts.fn("query::parse")
    if body is None:
        rep.ob("C12-R9", "anchor:query::parse", False, "query::parse not found")
        return
    from ..absint.term import EffectDomain

    def oracle(dom, it, name, args, vals, store):
        if name.startswith("syntax::parser::Parser") and name.endswith("::new"):
            return [(Sym("parser"), dom.with_log(store, ("parser-new", vals[0])))]
        if name.startswith("syntax::parser::Parser") and ("::parse_root" in name or "::parse_unit" in name):
            return [(core.ok(Sym("tree")), store), (core.err(Sym("parse_error")), store)]
        return None
    dom = EffectDomain({}, oracle=oracle)
    dom.uninterp = lambda n: facts.fn(n) is None
    it = core.Interp(facts, dom, budget=20000)
    try:
        outs = it.run(body, [Sym("text")], {})
    except core.Undecided as e:
        rep.ob("C12-R9", "parse:summary", False, "undecided: %s" % e, body.site())
        return
    adt = facts.adt("query::Parsed")
    names = [f["name"] for f in adt["variants"][0]["fields"]] if adt else []
    n_ok = 0
    bad = []
    for o in outs:
        if o.kind != "ret":
            bad.append("parse can end in %s" % o.kind)
            continue
        v = o.value
        if not (isinstance(v, Agg) and v.path == "std::result::Result" and v.vi == 0):
            continue
        n_ok += 1
        handed = [e[1] for e in dom.log(o.store) if e[0] == "parser-new"]
        p_ = v.field(0)
        kept = [f for f, ty in zip(p_.fields, [x["ty"] for x in adt["variants"][0]["fields"]]) if ty.startswith("&") and "str" in ty] if isinstance(p_, Agg) and adt else []
        if handed != [Sym("text")]:
            bad.append("the parser is given %r, not the caller's text" % (handed,))
        if kept != [Sym("text")]:
            bad.append("the result keeps %r as its source, not the caller's text" % (kept,))
    rep.ob("C12-R9", "parse:same-text", not bad and n_ok >= 1, "; ".join(bad[:2]) if bad else
           "Parser::new(text) and Parsed { source: text, .. } on the %d successful path(s)" % n_ok, body.site())


def run(fx, rep, tier):
    rep.assume("syntree::Builder builds the tree it is told to (trusted)")
    rep.assume("char::is_whitespace is the Unicode White_Space property (table copied from the Unicode standard)")
    for cfg, facts in fx.items():
        sub = rep if cfg == "dev" else type(rep)(rep.prop, rep.tier)
        r1_who_writes_pos(facts, sub)
        r3_progress(facts, sub, tier)
        r5_forwarding(facts, sub)
        consts, preds, unknown = chars.char_constants(lexer_bodies(facts))
        r6_loops(facts, sub, chars.atoms(consts, preds))
        if cfg == "dev":
            r9_same_text(facts, sub)
            r10_forward_only(facts, sub)
            # the grammar relies on the parser's primitives doing exactly what they say (a stale count that `skip` does not
            # honour loses tokens at the end of the input), and a slice of the text off a character boundary is a crash
            from . import c06, c11
            sub.rule("C12-R7", "the parser primitives consume exactly what they promise: nth / eat / skip / count_skip as "
                               "summaries on the abstract parser state (shared with C06-R4)")
            s7 = type(rep)(rep.prop, rep.tier)
            c06.r4_offset(facts, s7)
            for o in s7.obls:
                o["rule"] = "C12-R7"
                sub.obls.append(o)
            sub.rule("C12-R8", "every slice the lexer and parser take of the text runs between positions the lexer reached "
                               "(character boundaries): the index obligations of C11-R1 for syntax::*")
            s8 = type(rep)(rep.prop, rep.tier)
            c11.r1_census(facts, s8, {"dev": facts})
            n8 = 0
            for o in s8.obls:
                if o["key"].startswith("index:") and "syntax::" in o["key"]:
                    o["rule"] = "C12-R8"
                    sub.obls.append(o)
                    n8 += 1
            sub.count("text slices in the lexer / parser", n8)
        if sub is not rep:
            for o in sub.obls:
                o["key"] += "[rel]"
                rep.obls.append(o)
            for k, v in sub.analysed.items():
                rep.count(k + "[rel]", v)
