"""C12 - lexing and parsing are lossless over the input text."""
from .. import facts as F
from .. import flow
from ..absint import core, chars
from ..absint.core import Const, Agg, Ref, TOP, NONE, some, Domain
from .common import census, anchor

LEVEL = "other"

LEX = "syntax::lexer::Lexer::<'a>::"
NEXT = "<syntax::lexer::Lexer<'_> as std::iter::Iterator>::next"
PAR = "syntax::parser::Parser::<'a>::"

P0 = Const(("pos", "start"))
PGT = Const(("pos", "advanced"))
POSITIVE = Const(("nat", "positive"))


def lexer_bodies(facts):
    return [b for b in facts.lib_bodies() if b.path.startswith(LEX) or b.path == NEXT]


class LexDomain(Domain):
    """Abstract lexer: the character stream is generated lazily, one atom of the exact partition per observation;
    `pos` is abstracted to {start, advanced}.  peek / peek2 / step are the only accessors (checked by C12-R1)."""

    def __init__(self, atoms):
        self.reps = [lo for lo, hi in atoms]

    # ghost state: (cur, nxt) with None = not yet observed
    @staticmethod
    def lex(store):
        return store.get(("lex",), (None, None))

    @staticmethod
    def setlex(store, cur, nxt):
        s = dict(store)
        s[("lex",)] = (cur, nxt)
        return s

    def observe(self, store, which):
        cur, nxt = self.lex(store)
        if which == 0:
            if cur is not None:
                return [store]
            return [self.setlex(store, c, nxt) for c in self.reps + ["EOF"]]
        if nxt is not None:
            return [store]
        if cur == "EOF":
            return [self.setlex(store, cur, "EOF")]
        return [self.setlex(store, cur, c) for c in self.reps + ["EOF"]]

    def on_assert(self, it, body, t, sp, st, frame):
        return "verflow" not in t["msg"]

    def binop(self, op, a, b):
        if a == POSITIVE or b == POSITIVE:
            other = b if a == POSITIVE else a
            if op in ("Add", "AddWithOverflow", "AddUnchecked") and (other == POSITIVE or (
                    isinstance(other, Const) and isinstance(other.v, int) and other.v >= 0)):
                r = POSITIVE
                return Agg("tuple", None, None, None, (r, Const(False))) if op == "AddWithOverflow" else r
            if isinstance(other, Const) and other.v == 0:
                if op == "Gt":
                    return Const(a == POSITIVE)
                if op == "Lt":
                    return Const(b == POSITIVE)
                if op == "Eq":
                    return Const(False)
                if op == "Ne":
                    return Const(True)
                if op == "Ge":
                    return Const(True) if a == POSITIVE else Const(False)
                if op == "Le":
                    return Const(False) if a == POSITIVE else Const(True)
            return TOP
        if isinstance(a, Const) and isinstance(b, Const) and isinstance(a.v, int) and isinstance(b.v, int) \
                and not isinstance(a.v, bool) and op in ("Add", "AddWithOverflow", "AddUnchecked") and a.v + b.v >= 1 \
                and a.v >= 0 and b.v >= 0 and a.v < 0x30 and b.v < 0x30:
            # counters: 0, positive
            r = POSITIVE
            return Agg("tuple", None, None, None, (r, Const(False))) if op == "AddWithOverflow" else r
        return None

    def call(self, it, name, args, store, term, frame):
        if name == LEX + "peek":
            outs = []
            for st in self.observe(store, 0):
                cur, _ = self.lex(st)
                outs.append((NONE if cur == "EOF" else some(Const(cur)), st))
            return outs
        if name == LEX + "peek2":
            outs = []
            for st in self.observe(store, 0):
                cur, _ = self.lex(st)
                if cur == "EOF":
                    outs.append((NONE, st))
                    continue
                for st2 in self.observe(st, 1):
                    _, nxt = self.lex(st2)
                    n = 0 if nxt == "EOF" else nxt
                    outs.append((some(Agg("tuple", None, None, None, (Const(cur), Const(n)))), st2))
            return outs
        if name == LEX + "step":
            outs = []
            for st in self.observe(store, 0):
                cur, nxt = self.lex(st)
                if cur == "EOF":
                    outs.append((core.UNIT, st))
                    continue
                st2 = self.setlex(st, nxt, None)
                selfv = it.read_ref(st2, args[0])
                if isinstance(selfv, Agg):
                    st2 = it.write_ref(st2, args[0], selfv.with_field(1, PGT))
                outs.append((core.UNIT, st2))
            return outs
        if name in chars.PREDICATES:
            v = it.read_ref(store, args[0])
            if isinstance(v, Const) and isinstance(v.v, int):
                return [(Const(chars.in_set(v.v, chars.PREDICATES[name])), store)]
            return [(TOP, store)]
        if name == "core::num::<impl usize>::saturating_sub":
            a, b = args
            if a == PGT and b == P0:
                return [(POSITIVE, store)]
            if a == b:
                return [(Const(0), store)]
            return [(TOP, store)]
        return None


def lexer_value(escape):
    adt_fields = ("source", "pos", "escape")
    return Agg("adt", "syntax::lexer::Lexer", 0, "Lexer", (Const(("src",)), P0, Const(bool(escape))))


def r1_who_writes_pos(facts, rep):
    rep.rule("C12-R1", "who-writes: Lexer.pos is assigned only in Lexer::step (by pos + char::len_utf8 of the character "
                       "found at source.get(pos..)) and in the constructor (constant 0); nobody takes a mutable borrow of "
                       "it; peek/peek2 read the character at source.get(pos..)")
    adt = facts.adt("syntax::lexer::Lexer")
    if not rep.ob("C12-R1", "anchor:Lexer", adt is not None, "struct syntax::lexer::Lexer exists"):
        return
    fields = [f["name"] for f in adt["variants"][0]["fields"]]
    if not rep.ob("C12-R1", "anchor:Lexer.pos", "pos" in fields, "Lexer has a field `pos`"):
        return
    writes = []
    for b in facts.lib_bodies():
        for blk, i, s in b.stmts():
            p = s["place"]
            if F.place_fields(p)[-1:] == ["pos"] and "syntax::lexer::Lexer" in b.local_ty(p["local"]):
                writes.append((b, blk, s, "assign"))
            rv = s["rv"]
            if rv["k"] in ("ref", "rawptr") and rv.get("mut", rv["k"] == "rawptr") and \
                    F.place_fields(rv["place"])[-1:] == ["pos"] and "syntax::lexer::Lexer" in b.local_ty(rv["place"]["local"]):
                writes.append((b, blk, s, "mut-borrow"))
            if rv["k"] == "aggregate" and rv["kind"].get("path") == "syntax::lexer::Lexer":
                writes.append((b, blk, s, "construct"))
    n_step = 0
    for b, blk, s, kind in writes:
        key = "%s:%s" % (b.path, kind)
        if kind == "construct":
            v = F.const_val(s["rv"]["ops"][fields.index("pos")]) if s["rv"]["ops"][fields.index("pos")]["k"] == "const" else None
            rep.ob("C12-R1", key, b.path == LEX + "new" and v == 0,
                   "a Lexer is constructed in %s with pos = %s" % (b.path, v), b.site(s["span"]))
        elif kind == "mut-borrow":
            rep.ob("C12-R1", key, False, "&mut self.pos is taken in %s" % b.path, b.site(s["span"]))
        else:
            okk = b.path == LEX + "step"
            detail = "pos is assigned in %s" % b.path
            if okk:
                n_step += 1
                okk, detail = _step_increment(b, s, facts)
            rep.ob("C12-R1", key, okk, detail, b.site(s["span"]), sample={"fn": b.path, "what": detail})
    rep.floor("C12-R1", "assignments to Lexer.pos in step", n_step, 1)
    # peek and peek2 look at source.get(pos..)
    for fn in ("peek", "peek2", "step"):
        b = anchor(rep, "C12-R1", facts, LEX + fn)
        if b is None:
            continue
        gets = flow.calls_named(b, lambda n: n == "core::str::<impl str>::get")
        okk = bool(gets)
        for bid, t, sp, _ in gets:
            src = flow.field_origins(b, t["args"][0])
            rng = flow.slice_back(b, t["args"][1], through_agg=True)
            fo = set()
            for l in rng:
                if l[0] == "agg" and "RangeFrom" not in l[1]:
                    okk = False
            # the range start is self.pos
            for blk, i, s in b.stmts():
                if s["rv"]["k"] == "aggregate" and "RangeFrom" in s["rv"]["kind"].get("path", ""):
                    fo |= {tuple(F.place_fields(o["place"])) for o in s["rv"]["ops"] if o["k"] in ("copy", "move")}
                    for o in s["rv"]["ops"]:
                        fo |= flow.field_origins(b, o)
            if src != {("source",)} or ("pos",) not in fo:
                okk = False
        rep.ob("C12-R1", "%s:reads-source.get(pos..)" % fn, okk,
               "%s looks at self.source.get(self.pos..)" % fn if okk else "%s does not read self.source.get(self.pos..)" % fn,
               b.site())


def _step_increment(b, s, facts):
    """The value assigned to pos in step is pos + len_utf8(c)."""
    rv = s["rv"]
    defs = flow.Defs(b)
    target = None
    if rv["k"] == "binop" and rv["op"].startswith("Add"):
        target = rv
    else:
        op = rv["op"] if rv["k"] == "use" else None
        if op is None or op["k"] not in ("copy", "move"):
            return False, "pos is assigned a %s" % rv["k"]
        # find the Add feeding it
        l = op["place"]["local"]
        for kind, bid, idx, pl in defs.of(l):
            if kind == "assign" and pl["rv"]["k"] == "binop" and pl["rv"]["op"].startswith("Add"):
                target = pl["rv"]
    if target is None:
        return False, "pos is not assigned the result of an addition"
    fa = flow.field_origins(b, target["a"]) | flow.field_origins(b, target["b"])
    calls = {x[1] for o in (target["a"], target["b"]) for x in flow.slice_back(b, o) if x[0] == "call"}
    okk = ("pos",) in fa and "std::char::methods::<impl char>::len_utf8" in calls
    return okk, "pos is assigned pos + %s" % (sorted(c.split("::")[-1] for c in calls) or "?")


def r2_token_len(facts, rep):
    rep.rule("C12-R2", "every Token is built with len = saturating_sub(self.pos, start) where start is a copy of self.pos "
                       "taken before any call that can advance the lexer")
    n = 0
    for path in (NEXT, LEX + "next_escape"):
        b = anchor(rep, "C12-R2", facts, path)
        if b is None:
            continue
        adv = {bid for bid, t, sp, nm in flow.calls_named(b, lambda n_: n_.startswith(LEX) and n_.split("::")[-1] in (
            "step", "consume_number", "consume_word", "consume_escaped_word", "consume_whitespace", "next_escape"))}
        adt = facts.adt("syntax::lexer::Token")
        fields = [f["name"] for f in adt["variants"][0]["fields"]] if adt else []
        for blk, i, s in b.stmts():
            rv = s["rv"]
            if rv["k"] != "aggregate" or rv["kind"].get("path") != "syntax::lexer::Token":
                continue
            n += 1
            lenop = rv["ops"][fields.index("len")]
            okk = False
            detail = "len does not come from saturating_sub(pos, start)"
            for l in flow.slice_back(b, lenop):
                if l[0] == "call" and l[1] == "core::num::<impl usize>::saturating_sub":
                    t = b.blocks[l[2]]["term"]["t"]
                    a_f = flow.field_origins(b, t["args"][0])
                    # start: a local whose only definition copies self.pos before any advancing call
                    sl = F.op_local(t["args"][1])
                    defs = flow.Defs(b)
                    while sl is not None and len(defs.whole(sl)) == 1 and defs.whole(sl)[0][0] == "assign" and \
                            defs.whole(sl)[0][3]["rv"]["k"] == "use" and F.op_local(defs.whole(sl)[0][3]["rv"]["op"]) is not None:
                        sl = F.op_local(defs.whole(sl)[0][3]["rv"]["op"])
                    ds = defs.whole(sl) if sl is not None else []
                    if a_f == {("pos",)} and len(ds) == 1 and ds[0][0] == "assign":
                        srcf = flow.field_origins(b, ds[0][3]["rv"]["op"]) if ds[0][3]["rv"]["k"] == "use" else set()
                        dblk = ds[0][1]
                        before = all(dblk not in b.cfg.reachable_after(a) and a != dblk for a in adv)
                        okk = srcf == {("pos",)} and before
                        detail = "len = saturating_sub(self.pos, start), start = self.pos copied %s" % (
                            "before any advancing call" if before else "AFTER an advancing call")
            rep.ob("C12-R2", "%s:token#%d" % (path.split("::")[-1], n), okk, detail, b.site(s["span"]))
    rep.floor("C12-R2", "Token constructions", n, 2)


def r3_progress(facts, rep, tier):
    rep.rule("C12-R3", "abstract run of Lexer::next / next_escape for every atom of the exact character partition "
                       "(atoms = intervals no comparison constant or character predicate of the lexer distinguishes) as "
                       "first character: every path returns Some(Token) with len > 0 (the lexer advanced), never None, "
                       "never a panic")
    rep.rule("C12-R4", "next returns None only when the input is exhausted at the start of the call, and then consumes nothing")
    bodies = lexer_bodies(facts)
    consts, preds, unknown = chars.char_constants(bodies)
    if not rep.ob("C12-R3", "partition", not unknown, "character predicates used by the lexer: %s%s" % (
            sorted(p.split("::")[-1] for p in preds), "" if not unknown else "; NOT modelled: %s" % sorted(unknown))):
        return
    ats = chars.atoms(consts, preds)
    rep.count("character atoms", len(ats))
    rep.count("comparison constants", len(consts))
    body = anchor(rep, "C12-R3", facts, NEXT)
    if body is None:
        return
    for escape in (False, True):
        for first in [lo for lo, hi in ats] + ["EOF"]:
            dom = LexDomain(ats)
            it = core.Interp(facts, dom, budget=400000)
            store = {(0, 0): lexer_value(escape)}
            store = dom.setlex(store, first, None)
            key = "escape=%s:first=%s" % (escape, chars.describe(first))
            try:
                outs = it.run(body, [Ref(0, 0)], store)
            except core.Undecided as e:
                rep.ob("C12-R3", key, False, "undecided: %s" % e, body.site())
                continue
            rep.count("lexer paths", len(outs))
            bad = []
            kinds = set()
            for o in outs:
                pos = it.read_ref(o.store, Ref(0, 0, (1,)))
                if o.kind != "ret":
                    bad.append("%s %s at %s" % (o.kind, o.value, o.site))
                    continue
                v = o.value
                if first == "EOF":
                    if not (v == NONE and pos == P0):
                        bad.append("at end of input returns %r with pos %r" % (v, pos))
                    continue
                if v == NONE:
                    bad.append("returns None although input remains")
                    continue
                tok = v.field(0) if isinstance(v, Agg) and v.vname == "Some" else None
                if not (isinstance(tok, Agg) and tok.path == "syntax::lexer::Token"):
                    bad.append("unrecognised result %r" % (v,))
                    continue
                ln = tok.field(0)
                kinds.add(repr(tok.field(1)))
                if ln != POSITIVE or pos != PGT:
                    bad.append("returns a token with len %r (pos %r): the lexer did not advance" % (ln, pos))
            rule = "C12-R4" if first == "EOF" else "C12-R3"
            rep.ob(rule, key, not bad and bool(outs),
                   ("%d path(s), all advance" % len(outs)) if not bad else "; ".join(sorted(set(bad))[:3]), body.site(),
                   sample={"escape": escape, "first": chars.describe(first), "paths": len(outs), "kinds": sorted(kinds)[:4]})
    rep.floor("C12-R3", "character atoms", len(ats), 20)


def r5_forwarding(facts, rep):
    rep.rule("C12-R5", "forwarding: Builder::token is called only from Parser::bump with the kind and len of the token at "
                       "the head of the queue, followed by the only pop_front; Lexer::next is called only from Parser::fill "
                       "which pushes every token; grammar::root leaves its loop only on EOF after flushing the pending blanks")
    tok = census(facts, lambda n: n.endswith("Builder::<T, I, W>::token") or (n.startswith("syntree::Builder") and n.endswith("::token")))
    for b, bid, t, sp, name in tok:
        rep.ob("C12-R5", "token-caller:%s" % b.path, b.path == PAR + "bump", "Builder::token is called from %s" % b.path, b.site(sp))
    rep.floor("C12-R5", "Builder::token call sites", len(tok), 1)
    bump = anchor(rep, "C12-R5", facts, PAR + "bump")
    if bump is not None:
        for b, bid, t, sp, name in [x for x in tok if x[0].path == PAR + "bump"]:
            kf = flow.slice_back(bump, t["args"][1])
            lf = flow.slice_back(bump, t["args"][2])
            srck = {l[1] for l in kf if l[0] == "call"}
            srcl = {l[1] for l in lf if l[0] == "call"}
            okk = srck == {PAR + "get"} and srcl == {PAR + "get"}
            # get(0)
            for l in kf | lf:
                if l[0] == "call" and l[1] == PAR + "get":
                    gt = bump.blocks[l[2]]["term"]["t"]
                    if not (gt["args"][1]["k"] == "const" and F.const_val(gt["args"][1]) == 0):
                        okk = False
            kfld = {l[2][-1] for l in kf if l[0] == "param"} | _payload_fields(bump, t["args"][1])
            lfld = _payload_fields(bump, t["args"][2])
            okk = okk and kfld == {"kind"} and lfld == {"len"}
            rep.ob("C12-R5", "bump:token(kind,len)", okk,
                   "Builder::token receives %s / %s of %s" % (sorted(kfld), sorted(lfld), sorted(srck | srcl)), bump.site(sp))
            pops = flow.calls_named(bump, lambda n: "VecDeque" in n and n.endswith("pop_front"))
            good = len(pops) == 1 and bump.cfg.dominates(bid, pops[0][0])
            rep.ob("C12-R5", "bump:pop-after-token", good, "exactly one pop_front, dominated by the token call (%d found)" % len(pops),
                   bump.site(sp))
    pops = census(facts, lambda n: "VecDeque" in n and (n.endswith("pop_front") or n.endswith("pop_back") or n.endswith("clear")
                                                       or n.endswith("drain") or n.endswith("truncate")))
    for b, bid, t, sp, name in pops:
        if "Parser" in b.path or "syntax::" in b.path:
            rep.ob("C12-R5", "queue-removal:%s:%s" % (b.path, name.split("::")[-1]), b.path == PAR + "bump" and name.endswith("pop_front"),
                   "the token queue is shortened by %s in %s" % (name.split("::")[-1], b.path), b.site(sp))
    nxt = census(facts, lambda n: n == NEXT)
    for b, bid, t, sp, name in nxt:
        rep.ob("C12-R5", "lexer-next-caller:%s" % b.path, b.path == PAR + "fill", "Lexer::next is called from %s" % b.path, b.site(sp))
    rep.floor("C12-R5", "Lexer::next call sites", len(nxt), 1)
    fill = anchor(rep, "C12-R5", facts, PAR + "fill")
    if fill is not None:
        for b, bid, t, sp, name in [x for x in nxt if x[0].path == PAR + "fill"]:
            e = flow.ok_edge_generic(fill, bid, 1)
            pushes = flow.calls_named(fill, lambda n: "VecDeque" in n and n.endswith("push_back"))
            good = False
            if e and pushes:
                sw, some_t, _ = e
                # every path from the Some edge back to the loop head (or out) passes the push
                push_blocks = {p[0] for p in pushes}
                region_exit = set(fill.cfg.returns) | {bid}
                good = fill.cfg.every_path_passes(some_t, region_exit, push_blocks)
                # and what is pushed is the token itself
                for pb, pt, psp, _ in pushes:
                    ls = flow.slice_back(fill, pt["args"][1])
                    if not any(l[0] == "call" and l[1] == NEXT for l in ls):
                        good = False
            rep.ob("C12-R5", "fill:push-every-token", good, "every token returned by the lexer is pushed to the queue before the next is fetched",
                   fill.site(sp))
    root = anchor(rep, "C12-R5", facts, "syntax::grammar::root")
    if root is not None:
        _root_exit(root, facts, rep)


def _payload_fields(body, operand):
    """Field names read from an enum payload on the way to operand, e.g. (_3 as Some).0.len -> {'len'}."""
    out = set()
    defs = flow.Defs(body)
    seen = set()

    def go(o, d=0):
        if o["k"] not in ("copy", "move") or d > 10:
            return
        p = o["place"]
        names = [e.get("name", "") for e in p["proj"] if e["k"] == "field" and e.get("name", "") not in ("", "0", "1")]
        if names:
            out.add(names[-1])
            return
        if p["local"] in seen:
            return
        seen.add(p["local"])
        for kind, bid, idx, pl in defs.of(p["local"]):
            if kind == "assign" and pl["rv"]["k"] in ("use", "cast"):
                go(pl["rv"]["op"], d + 1)
            elif kind == "assign" and pl["rv"]["k"] == "ref":
                go({"k": "copy", "place": pl["rv"]["place"]}, d + 1)
    go(operand)
    return out


def _root_exit(root, facts, rep):
    cfg = root.cfg
    # the loop head: nth(skip, 0) call whose result is switched on
    nths = flow.calls_named(root, lambda n: n == PAR + "nth")
    heads = [x for x in nths if x[0] in cfg.reachable_after(x[0])]
    if not rep.ob("C12-R5", "root:loop", len(heads) == 1, "root has one nth() call on a cycle (%d found)" % len(heads), root.site()):
        return
    hb, ht, hsp, _ = heads[0]
    eof = facts.discr_of("syntax::parser::Syntax", "EOF")
    # find the switch on the nth result
    sw = None
    bid = ht["target"]
    dl = ht["dest"]["local"]
    for _ in range(4):
        b = root.blocks[bid]
        d2 = None
        for s in b["stmts"]:
            if s["k"] == "assign" and s["rv"]["k"] == "discr" and s["rv"]["place"]["local"] == dl:
                d2 = s["place"]["local"]
        t = b["term"]["t"]
        if t["k"] == "switch" and d2 is not None and F.op_local(t["discr"]) == d2:
            sw = (bid, t)
            break
        if t["k"] == "goto":
            bid = t["target"]
            continue
        break
    if not rep.ob("C12-R5", "root:switch", sw is not None, "switch on the peeked token kind found", root.site(hsp)):
        return
    sbid, st = sw
    m = {int(v): x for v, x in st["targets"]}
    # loop exits: blocks in the loop with a successor that cannot reach the head
    loop = {x for x in cfg.reach0 if hb in cfg.reachable_from(x) and x in cfg.reachable_after(hb)} | {hb}
    exits = set()
    for x in loop:
        for s in cfg.succ[x]:
            if s not in loop:
                # error returns (`?`) lead to an Err return without further tokens: they are not loop exits of interest
                exits.add((x, s))
    eof_t = m.get(eof)
    normal_exits = []
    for x, s in exits:
        # does this exit reach a return that yields Ok?  `?` exits go through from_residual
        r = cfg.reachable_from(s)
        if any(F.callee(root.blocks[y]["term"]["t"]).endswith("from_residual") for y in r | {s}
               if root.blocks[y]["term"]["t"]["k"] == "call") and not any(
                root.blocks[y]["term"]["t"]["k"] == "call" and F.callee(root.blocks[y]["term"]["t"]) == PAR + "close_at" for y in r):
            continue
        normal_exits.append((x, s))
    okk = eof_t is not None and bool(normal_exits)
    detail = []
    resid = {y for y in cfg.reach0 if root.blocks[y]["term"]["t"]["k"] == "call"
             and F.callee(root.blocks[y]["term"]["t"]).endswith("from_residual")}
    skip_ok = set()
    for b_, t_, sp_, n_ in flow.calls_named(root, lambda n: n == PAR + "skip"):
        e = flow.ok_edge(root, b_)
        if e and e[1] is not None:
            skip_ok.add(e[1])
    for x, s in normal_exits:
        via_eof = (x == sbid and s == eof_t) or x in cfg.blocks_only_via_edge(sbid, eof_t)
        if not via_eof:
            okk = False
        detail.append("exit bb%d->bb%d %s" % (x, s, "on the EOF edge" if via_eof else "NOT on the EOF edge"))
    flushed = False
    if eof_t is not None:
        r = cfg.reachable_from(eof_t, avoid=skip_ok | resid)
        flushed = not (r & set(cfg.returns)) and bool(skip_ok)
    if not flushed:
        okk = False
    detail.append("pending blanks are %sflushed by a successful skip() on every path from the EOF edge to the Ok return" % (
        "" if flushed else "NOT "))
    rep.ob("C12-R5", "root:exit-only-at-EOF-after-flush", okk, "; ".join(detail) or "no normal loop exit found", root.site(hsp),
           sample={"exits": detail})


def r6_loops(facts, rep):
    rep.rule("C12-R6", "termination: every cycle of every lexer function contains a call of Lexer::step (or of a lexer "
                       "helper that was shown to advance); every cycle of Parser::fill/count_skip/skip/eat/bump_until "
                       "advances its counter or consumes a token")
    n = 0
    for b in lexer_bodies(facts):
        cfg = b.cfg
        steps = {bid for bid, t, sp, nm in flow.calls_named(b, lambda n_: n_ == LEX + "step")}
        for x in sorted(cfg.reach0):
            for s in cfg.succ[x]:
                if cfg.dominates(s, x):  # back edge x -> s
                    n += 1
                    good = cfg.every_path_passes(s, {x}, steps) if s != x else (x in steps)
                    rep.ob("C12-R6", "%s:loop@bb-head#%d" % (b.path.split("::")[-1], n), good,
                           "loop in %s %s" % (b.path, "steps on every iteration" if good else "has an iteration that does not step"),
                           b.site(b.blocks[s]["term"]["span"]))
    rep.floor("C12-R6", "loops in lexer functions", n, 5)


def run(fx, rep, tier):
    rep.assume("syntree::Builder builds the tree it is told to (trusted)")
    rep.assume("char::is_whitespace is the Unicode White_Space property (table copied from the Unicode standard)")
    for cfg, facts in fx.items():
        sub = rep if cfg == "dev" else type(rep)(rep.prop, rep.tier)
        r1_who_writes_pos(facts, sub)
        r2_token_len(facts, sub)
        r3_progress(facts, sub, tier)
        r5_forwarding(facts, sub)
        r6_loops(facts, sub)
        if sub is not rep:
            for o in sub.obls:
                o["key"] += "[rel]"
                rep.obls.append(o)
            for k, v in sub.analysed.items():
                rep.count(k + "[rel]", v)
