"""C06 - operator precedence, associativity and grouping are respected."""
import itertools

from .. import facts as F
from .. import flow, typestate
from ..absint import core, chars
from ..absint.core import Agg, Const, TOP, Ref, UNIT, some, NONE, ok, err
from ..absint.term import TermDomain, EffectDomain, Sym, T, K
from .common import census, anchor
from . import c01, c12

LEVEL = "other"
P = typestate.P
G = typestate.G


# ---- R1: priority table -------------------------------------------------------------------------------------
def priorities(facts):
    ot = c01.op_table(facts)
    if ot is None:
        return None
    out = {}
    for tok, res in ot.items():
        for r in res:
            if r:
                out[tok] = (r[0], r[1], r[2])
    return out


def r1_table(facts, rep):
    rep.rule("C06-R1", "priority table (run of grammar::op for every token kind): to < {+,-} < {*,/} < {^,**} strictly, equal "
                       "within a level; only `to` asks for a unit as its right operand; op() does not consume anything")
    pr = priorities(facts)
    if not rep.ob("C06-R1", "anchor:op", pr is not None, "grammar::operation::op analysed"):
        return None
    lv = {k: v[0] for k, v in pr.items()}
    want = [("TO",), ("PLUS", "DASH"), ("STAR", "SLASH"), ("CARET", "STARSTAR")]
    for grp in want:
        vals = {lv.get(t) for t in grp}
        rep.ob("C06-R1", "level:%s" % "/".join(grp), len(vals) == 1 and None not in vals, "tokens %s have priorities %s" % (grp, sorted(map(str, vals))),
               sample={"tokens": grp, "priority": sorted(map(str, vals))})
    for a, b in zip(want, want[1:]):
        x, y = lv.get(a[0]), lv.get(b[0])
        rep.ob("C06-R1", "order:%s<%s" % (a[0], b[0]), x is not None and y is not None and x < y, "priority(%s) = %s, priority(%s) = %s" % (a[0], x, b[0], y))
    for t, (p, k, u) in sorted(pr.items()):
        rep.ob("C06-R1", "unit-flag:%s" % t, bool(u) == (t == "TO"), "%s asks for a unit operand: %s" % (t, u), nontrivial=False)
    rep.ob("C06-R1", "operator-set", set(pr) == {"TO", "PLUS", "DASH", "STAR", "SLASH", "CARET", "STARSTAR"}, "operators: %s" % sorted(pr))
    body = facts.fn("syntax::grammar::operation::op")
    if body is not None:
        cons = [n for b_, t, sp, n in body.calls() if n in (P + "skip", P + "bump", P + "bump_node", P + "eat", P + "bump_until")]
        rep.ob("C06-R1", "op-consumes-nothing", not cons, "op() calls %s" % cons, body.site())
    return pr


# ---- R3 / R4: the blank counter ------------------------------------------------------------------------------
def r3_skip(facts, rep):
    rep.rule("C06-R3", "Skip typestate: a blank count is fresh when produced (count_skip, callee result, parameter, constant) and "
                       "stale after any call that consumes tokens (skip, bump, bump_node, bump_until, eat on its true edge, value, "
                       "unit, operation, operand, call_arguments); no stale count is passed to nth / skip / eat / a grammar "
                       "function or returned (forward may-dataflow; paths through a failed sub-parse are not reported)")
    fns = typestate.grammar_functions(facts)
    rep.floor("C06-R3", "grammar functions", len(fns), 3)
    # roles from the call graph, not from names: a parser method consumes tokens iff it can reach Builder::token; a grammar
    # function consumes iff it can reach a consuming parser method; eat-like = consuming parser method returning Result<bool>
    from ..callgraph import CallGraph
    cg = CallGraph(facts)
    is_token = lambda n: (n.startswith("syntree::Builder") or n.startswith("syntree::builder::Builder")) and n.endswith("::token")
    pmethods = [b for b in facts.lib_bodies() if b.path.startswith(P) and "{closure" not in b.path and b.promoted < 0]
    cons_p = {b.path for b in pmethods if any(is_token(x) for x in cg.reachable([b.path]))}
    eat_like = {b.path for b in pmethods if b.path in cons_p and "Result<bool" in b.local_ty(0).replace(" ", "").replace("std::result::", "")}
    cons_g = {b.path for b in facts.lib_bodies() if b.path.startswith(G) and "{closure" not in b.path and b.promoted < 0
              and cg.reachable([b.path]) & cons_p}
    consuming = cons_p | cons_g
    skip_takers = {b.path for b in pmethods if any(b.local_ty(i) == typestate.SKIP_TY for i in range(2, b.arg_count + 1))}
    uses = consuming | skip_takers
    rep.ob("C06-R3", "roles", {P + "bump", P + "skip"} <= cons_p or len(cons_p) >= 3,
           "token-consuming parser methods: %s; consuming only when true: %s; consuming grammar functions: %d" % (
               sorted(x.split("::")[-1] for x in cons_p), sorted(x.split("::")[-1] for x in eat_like), len(cons_g)))
    total_uses = 0
    n_cs = 0
    for b in fns:
        viol, stats = typestate.analyse(facts, b, consuming, uses, eat_like)
        total_uses += stats["uses"]
        n_cs += len([1 for _ in b.calls(lambda n: n.startswith(P) and n.endswith("count_skip"))])
        seen = set()
        for what, site, var in viol:
            key = "%s:%s:%s" % (b.path, var, what)
            if key in seen:
                continue
            seen.add(key)
            rep.ob("C06-R3", key, False, "in %s the blank count `%s` is used (%s) after the tokens it counted were consumed" % (b.path, var, what), site)
        rep.ob("C06-R3", "fn:%s" % b.path, not viol, "%s: %d Skip local(s), %d use(s), %d stale" % (b.path, stats["skip_locals"], stats["uses"], len(viol)),
               b.site(), sample={"fn": b.path, **stats})
    rep.count("uses of Skip values", total_uses)
    rep.floor("C06-R3", "uses of Skip values", total_uses, 12)
    rep.floor("C06-R3", "count_skip call sites", n_cs, 4)


def r4_offset(facts, rep):
    rep.rule("C06-R4", "offset agreement, by summaries of the parser primitives on an abstract parser state (the lexer a stream of "
                       "fresh tokens, the queue a sequence, the builder an effect log): nth(skip, n) returns the kind of token "
                       "skip.0 + n (EOF past the end); eat(skip, expected) returns true only on paths where token skip.0 + i was "
                       "compared equal to expected[i] for every i, and then has consumed exactly the first skip.0 + len(expected) "
                       "tokens, and consumes nothing when it returns false; skip(skip) consumes exactly skip.0 tokens; count_skip "
                       "returns n only where tokens 0..n were tested to be WHITESPACE and token n not, and consumes nothing")
    from . import c12
    from ..absint.stdmodels import Seq
    adt = facts.adt("syntax::parser::Syntax")
    vnames = [v["name"] for v in adt["variants"]] if adt else []
    ws = facts.discr_of("syntax::parser::Syntax", "WHITESPACE")
    eofd = facts.discr_of("syntax::parser::Syntax", "EOF")

    def run(fn, args):
        b = facts.fn(P + fn)
        dom = c12.ParserDomain(facts)
        it = core.Interp(facts, dom, budget=300000)
        pv, names = c12.parser_value(facts, ())
        outs = it.run(b, [Ref(0, 0)] + args, {(0, 0): pv})
        res = []
        for o in outs:
            log = dom.log(o.store)
            if any(e[0] == "fail" for e in log):
                continue
            pv2 = it.read_ref(o.store, Ref(0, 0))
            buf = c12.at_path(pv2, names["buf"]) if isinstance(pv2, Agg) else None
            delivered = [e for e in log if e[0] == "token"]
            res.append((o, delivered, buf, dict((repr(p_), b_) for p_, b_ in dom.pc(o.store))))
        return b, res

    def skipv(k):
        return Agg("adt", "syntax::parser::Skip", 0, "Skip", (Const(k),))

    def kind_of(k):
        return Sym("lkind%d" % k)

    def delivered_ok(delivered, n):
        return len(delivered) == n and all(d[1] == kind_of(i) and d[2] == Sym("llen%d" % i) for i, d in enumerate(delivered))

    for fn in ("nth", "eat", "skip", "count_skip"):
        if anchor(rep, "C06-R4", facts, P + fn) is None:
            return
    # ---- nth ----
    bad = []
    n_paths = 0
    try:
        for sk in (0, 1, 2):
            for n in (0, 1):
                b, res = run("nth", [skipv(sk), Const(n)])
                for o, delivered, buf, pc in res:
                    n_paths += 1
                    lexed = o.store.get(("lexed",), 0)
                    v = o.value
                    if delivered:
                        bad.append("nth consumes tokens")
                    if o.kind != "ret":
                        bad.append("nth(%d, %d): %s %s" % (sk, n, o.kind, o.value))
                    elif lexed > sk + n:
                        if v != kind_of(sk + n):
                            bad.append("nth(skip=%d, n=%d) returns %r; specified the kind of token %d" % (sk, n, v, sk + n))
                    else:
                        if not (isinstance(v, Agg) and v.vi == eofd):
                            bad.append("nth(skip=%d, n=%d) past the end returns %r; specified EOF" % (sk, n, v))
    except core.Undecided as e:
        bad.append("undecided: %s" % e)
    rep.ob("C06-R4", "nth:index=skip+n", not bad and n_paths >= 12, "; ".join(sorted(set(bad))[:3]) if bad else
           "nth(skip, n) is the kind of token skip.0 + n, EOF past the end (%d paths)" % n_paths, facts.fn(P + "nth").site())
    # ---- eat ----
    bad = []
    n_true = n_false = 0
    try:
        for sk in (0, 1, 2):
            for exp in ((Sym("e0"),), (Sym("e0"), Sym("e1"))):
                b, res = run("eat", [skipv(sk), Seq(exp)])
                for o, delivered, buf, pc in res:
                    if o.kind != "ret":
                        bad.append("eat: %s %s" % (o.kind, o.value))
                        continue
                    v = o.value
                    r = v.field(0) if isinstance(v, Agg) and v.path == "std::result::Result" and v.vi == 0 else None
                    if r == Const(True):
                        n_true += 1
                        for i, e in enumerate(exp):
                            key = repr(T("kind_eq", *sorted((e, kind_of(sk + i)), key=repr)))
                            if pc.get(key) is not True:
                                bad.append("eat(skip=%d, %d expected) returns true on a path where token %d was not compared equal to expected[%d] (path %s)" % (sk, len(exp), sk + i, i, pc))
                        if not delivered_ok(delivered, sk + len(exp)):
                            bad.append("eat(skip=%d, %d expected) = true consumes %s; specified exactly the first %d tokens" % (sk, len(exp), [d[1] for d in delivered], sk + len(exp)))
                    elif r == Const(False):
                        n_false += 1
                        if delivered:
                            bad.append("eat returns false after consuming %s" % [d[1] for d in delivered])
                    else:
                        bad.append("eat returns %r" % (v,))
    except core.Undecided as e:
        bad.append("undecided: %s" % e)
    rep.ob("C06-R4", "eat:index=skip+n", not bad and n_true >= 6 and n_false >= 6, "; ".join(sorted(set(bad))[:3]) if bad else
           "eat compares token skip.0 + i with expected[i], consumes skip.0 + len(expected) tokens iff all match (%d true / %d false paths)" % (n_true, n_false),
           facts.fn(P + "eat").site())
    # ---- skip ----
    bad = []
    n_paths = 0
    try:
        for sk in (0, 1, 2, 3):
            b, res = run("skip", [skipv(sk)])
            for o, delivered, buf, pc in res:
                n_paths += 1
                lexed = o.store.get(("lexed",), 0)
                if o.kind != "ret":
                    bad.append("skip: %s %s" % (o.kind, o.value))
                elif not delivered_ok(delivered, min(sk, lexed)):
                    bad.append("skip(%d) consumes %s with %d token(s) available; specified the first %d" % (sk, [d[1] for d in delivered], lexed, min(sk, lexed)))
    except core.Undecided as e:
        bad.append("undecided: %s" % e)
    rep.ob("C06-R4", "skip:consumes-skip.0", not bad and n_paths >= 4, "; ".join(sorted(set(bad))[:3]) if bad else
           "Parser::skip(skip) consumes exactly skip.0 tokens (%d paths)" % n_paths, facts.fn(P + "skip").site())
    # ---- count_skip ----
    bad = []
    counts = set()
    try:
        b, res = run("count_skip", [])
        for o, delivered, buf, pc in res:
            if o.kind != "ret":
                bad.append("count_skip: %s %s" % (o.kind, o.value))
                continue
            v = o.value
            n = v.field(0).v if isinstance(v, Agg) and v.path == "syntax::parser::Skip" and isinstance(v.field(0), Const) else None
            if n is None:
                bad.append("count_skip returns %r" % (v,))
                continue
            counts.add(n)
            if delivered:
                bad.append("count_skip consumes tokens")
            lexed = o.store.get(("lexed",), 0)
            for i in range(n + 1):
                key = repr(T("==", T("discr", kind_of(i)), Const(ws)))
                want = i < n
                got = pc.get(key)
                if want and got is not True:
                    bad.append("count_skip returns %d on a path where token %d was not tested to be WHITESPACE" % (n, i))
                if not want and not (got is False or lexed <= n):
                    bad.append("count_skip returns %d although token %d was not tested to be something else (path %s)" % (n, n, pc))
    except core.Undecided as e:
        bad.append("undecided: %s" % e)
    rep.ob("C06-R4", "count_skip:counts-whitespace", not bad and len(counts) >= 3, "; ".join(sorted(set(bad))[:3]) if bad else
           "count_skip returns n exactly where tokens 0..n are WHITESPACE and token n is not (counts seen: %s)" % sorted(counts), facts.fn(P + "count_skip").site())


# ---- R5: groups and raw tokens ---------------------------------------------------------------------------------
GRAMMAR_UNITS = ("root", "operation", "unit", "value", "call_arguments")


class GroupDomain(EffectDomain):
    """Runs one grammar function with the parser's methods and the grammar's (recursive) entry points as logged effects;
    private helpers are followed.  nth() is scripted for the first token."""

    inline_depth = 8

    def __init__(self, facts, first_kind):
        super().__init__({}, oracle=self._oracle)
        self.facts = facts
        self.uninterp = lambda n: facts.fn(n) is None
        self.first_kind = first_kind

    def fresh(self, store, what):
        n = store.get(("fresh",), 0)
        s2 = dict(store)
        s2[("fresh",)] = n + 1
        return Sym("%s%d" % (what, n)), s2

    def _oracle(self, dom, it, name, args, vals, store):
        if name.startswith(P):
            m = name[len(P):]
            rest = tuple(vals[1:])
            if m == "nth":
                k = store.get(("nth",), 0)
                s2 = dict(store)
                s2[("nth",)] = k + 1
                if k == 0:
                    adt = self.facts.adt("syntax::parser::Syntax")
                    vi = [v["name"] for v in adt["variants"]].index(self.first_kind)
                    return [(Agg("adt", "syntax::parser::Syntax", vi, self.first_kind, ()), self.with_log(s2, ("nth",) + rest))]
                return [(Sym("kind%d" % k), self.with_log(s2, ("nth",) + rest))]
            if m == "checkpoint":
                c, s2 = self.fresh(store, "cp")
                return [(ok(c), self.with_log(s2, ("checkpoint", c)))]
            if m == "count_skip":
                c, s2 = self.fresh(store, "skip")
                return [(c, self.with_log(s2, ("count_skip", c)))]
            if m == "eat":
                st = self.with_log(store, ("eat",) + rest)
                return [(ok(Const(True)), self.with_log(st, ("eat-result", True))), (ok(Const(False)), self.with_log(st, ("eat-result", False)))]
            if m in ("close_at", "error_node_at"):
                return [(ok(UNIT), self.with_log(store, ("close",) + rest))]
            return [(ok(UNIT), self.with_log(store, (m,) + rest))]
        if name.startswith(G) and name[len(G):] in GRAMMAR_UNITS:
            m = name[len(G):]
            rest = tuple(vals[1:])
            st = self.with_log(store, (m,) + rest)
            c, s2 = self.fresh(st, "skip" if m == "operation" else "node")
            if m == "call_arguments":
                return [(ok(Const(True)), s2), (ok(Const(False)), st)]
            return [(ok(some(c)), self.with_log(s2, (m + "-result", c))), (ok(NONE), self.with_log(st, (m + "-result", None)))]
        return None


def r5_groups(facts, rep):
    rep.rule("C06-R5", "a parenthesised group is a node of its own: summary of grammar::value for a first token `(` (parser methods "
                       "and the grammar's recursive entry points as logged effects, private helpers followed): on every path that "
                       "returns Some(c) the checkpoint c was taken after the pending blanks were skipped and before the `(` token "
                       "was consumed, the inner operation and then `)` were parsed, and close_at(c, OPERATION) is the last effect; "
                       "every other path returns None.  The query iterator advances with next_node(), so raw tokens of the root "
                       "(blanks at either end) are not evaluated as results")
    body = anchor(rep, "C06-R5", facts, G + "value")
    if body is not None:
        dom = GroupDomain(facts, "OPEN_PAREN")
        it = core.Interp(facts, dom, budget=200000)
        bad = []
        n_some = n_none = 0
        opn = facts.discr_of("syntax::parser::Syntax", "OPERATION")
        cpar = facts.discr_of("syntax::parser::Syntax", "CLOSE_PAREN")
        try:
            outs = it.run(body, [Sym("parser"), Sym("skip_in")], {})
        except core.Undecided as e:
            outs = []
            bad.append("undecided: %s" % e)
        consuming = ("bump", "bump_node", "bump_until", "eat", "operation", "unit", "value", "call_arguments")
        for o in outs:
            if o.kind != "ret":
                bad.append("%s %s" % (o.kind, o.value))
                continue
            v = o.value
            log = dom.log(o.store)
            if any(e[0] == "fail" for e in log):
                continue
            r = v.field(0) if isinstance(v, Agg) and v.path == "std::result::Result" and v.vi == 0 else None
            if r is None:
                continue  # Err: the parse is abandoned
            names = [e[0] for e in log]
            if isinstance(r, Agg) and r.vi == 1:
                n_some += 1
                c = r.field(0)
                cps = [i_ for i_, e in enumerate(log) if e[0] == "checkpoint" and e[1] == c]
                firstc = next((i_ for i_, e in enumerate(log) if e[0] in consuming), None)
                skips = [i_ for i_, e in enumerate(log) if e[0] == "skip" and e[1] == Sym("skip_in")]
                if not cps:
                    bad.append("returns Some(%r), which is not a checkpoint taken in this call" % (c,))
                    continue
                if firstc is None or not cps[0] < firstc or log[firstc][0] != "bump":
                    bad.append("the group's checkpoint is not taken before the `(` token is consumed (effects: %s)" % names)
                if not skips or not skips[0] < cps[0]:
                    bad.append("the blanks before `(` are not skipped before the group's checkpoint is taken (effects: %s)" % names)
                ops = [i_ for i_, e in enumerate(log) if e[0] == "operation"]
                eats = [i_ for i_, e in enumerate(log) if e[0] == "eat"]
                if len(ops) != 1 or len(eats) != 1 or not (firstc is not None and firstc < ops[0] < eats[0]):
                    bad.append("the inner expression and then `)` are not parsed after `(` (effects: %s)" % names)
                else:
                    ex = log[eats[0]][2] if len(log[eats[0]]) > 2 else None
                    exk = [x.vi for x in getattr(ex, "items", ())] if ex is not None else None
                    if exk != [cpar]:
                        bad.append("after the inner expression eat() expects %r; specified [CLOSE_PAREN]" % (ex,))
                    if ("eat-result", True) not in log or ("operation-result", None) in log:
                        bad.append("a group is reported although the inner expression or `)` failed")
                last = log[-1]
                if not (last[0] == "close" and last[1] == c and isinstance(last[2], Agg) and last[2].vi == opn):
                    bad.append("the last effect is %r; specified close_at(the group's checkpoint, OPERATION)" % (last,))
            else:
                n_none += 1
                if any(e[0] == "close" for e in log):
                    bad.append("a path that returns None closes a node")
        rep.ob("C06-R5", "value:paren-group", not bad and n_some >= 1 and n_none >= 2, "; ".join(sorted(set(bad))[:3]) if bad else
               "`(`: blanks skipped, checkpoint, `(` consumed, operation, `)`, close_at(checkpoint, OPERATION) on the %d successful path(s); None otherwise (%d)" % (n_some, n_none),
               body.site(), sample={"some_paths": n_some, "none_paths": n_none})
    # every kind of value: the blanks in front of it stay outside its node - whatever the first token is, the pending
    # blanks are skipped before any checkpoint is taken and before the first token is consumed (a checkpoint taken earlier
    # puts the blank inside FN_NAME / SENTENCE / NUMBER..., and ` floor` is not a function)
    if body is not None:
        adt = facts.adt("syntax::parser::Syntax")
        n_kinds = 0
        for var in adt["variants"]:
            kd = var["name"]

            class Prefix(GroupDomain):
                CONSUMING = ("bump", "bump_node", "bump_until", "eat", "operation", "unit", "value", "call_arguments")

                def __init__(self, facts_, k_):
                    super().__init__(facts_, k_)
                    self.prefixes = []

                def _oracle(self, dom, it, name, args, vals, store):
                    m = name[len(P):] if name.startswith(P) else (name[len(G):] if name.startswith(G) else None)
                    if m in self.CONSUMING:
                        self.prefixes.append(tuple(self.log(store)) + ((m,),))
                        return []  # the rest of the path is not needed
                    return super()._oracle(dom, it, name, args, vals, store)
            domk = Prefix(facts, kd)
            domk.oracle = domk._oracle
            itk = core.Interp(facts, domk, budget=60000)
            try:
                itk.run(body, [Sym("parser"), Sym("skip_in")], {})
            except core.Undecided as e:
                rep.ob("C06-R5", "value:%s:blanks-first" % kd, False, "undecided: %s" % e, body.site())
                continue
            if not domk.prefixes:
                continue  # not the start of a value
            n_kinds += 1
            badk = []
            for pre in domk.prefixes:
                names_ = [e[0] for e in pre]
                sk = [i_ for i_, e in enumerate(pre) if e[0] == "skip" and len(e) > 1 and e[1] == Sym("skip_in")]
                cps_ = [i_ for i_, e in enumerate(pre) if e[0] == "checkpoint"]
                if not sk:
                    badk.append("the first token is consumed without the pending blanks having been skipped (effects: %s)" % names_)
                elif cps_ and cps_[0] < sk[0]:
                    badk.append("a checkpoint is taken before the pending blanks are skipped (effects: %s): the blanks end up inside the node" % names_)
            rep.ob("C06-R5", "value:%s:blanks-first" % kd, not badk, "; ".join(sorted(set(badk))[:2]) if badk else
                   "a value that starts with %s: blanks skipped, then checkpoint(s), then the token (%d path prefix(es))" % (kd, len(domk.prefixes)), body.site())
        rep.floor("C06-R5", "token kinds that start a value", n_kinds, 4)
    q = None
    for b in facts.lib_bodies():
        if b.path.startswith("<query::Query<") and b.path.endswith("as std::iter::Iterator>::next"):
            q = b
    if rep.ob("C06-R5", "anchor:Query::next", q is not None, "Query::next found"):
        adv = [n for b_, t, sp, n in q.calls() if "Children" in n]
        rep.ob("C06-R5", "query:advances-by-node", adv == ["syntree::node::Children::<'a, T, I, W>::next_node"],
               "Query::next advances its children with %s" % adv, q.site())
    # whitespace: every White_Space character starts a WHITESPACE token, in and outside braces
    rep.rule("C06-R7", "every Unicode White_Space character (space, tab, newline, NBSP, ...) lexes as WHITESPACE: abstract run of "
                       "Lexer::next for each atom of the exact character partition inside the White_Space set")
    bodies = c12.lexer_bodies(facts)
    consts, preds, unknown = chars.char_constants(bodies)
    ats = chars.atoms(consts, preds)
    nx = facts.fn(c12.NEXT)
    ws = facts.discr_of("syntax::parser::Syntax", "WHITESPACE")
    n = 0
    if nx is not None and not unknown:
        for lo, hi in ats:
            if not chars.in_set(lo, chars.WHITE_SPACE):
                continue
            n += 1
            for escape in (False, True):
                dom = c12.LexDomain(ats, facts=facts)
                it = core.Interp(facts, dom, budget=200000)
                st = dom.setlex({(0, 0): c12.lexer_value(escape, facts)}, lo, None)
                kinds = set()
                followers = set()
                for o in it.run(nx, [Ref(0, 0)], st):
                    v = o.value
                    tok = v.field(0) if isinstance(v, Agg) and v.vname == "Some" else None
                    k = tok.field(1) if isinstance(tok, Agg) else None
                    kinds.add(k.vi if isinstance(k, Agg) else None)
                    if isinstance(k, Agg) and k.vi == ws:
                        followers.add(dom.lex(o.store)[0])
                # a run of blanks is one token: where the WHITESPACE token ends, the next character was looked at and is not a
                # blank (the grammar counts blank *tokens* between unit words, not characters)
                loose = sorted(str(f) for f in followers if f != "EOF" and (f is None or not isinstance(f, int) or chars.in_set(f, chars.WHITE_SPACE)))
                rep.ob("C06-R7", "blank-run:%s:escape=%s" % (chars.describe(lo), escape), not loose and bool(followers),
                       "a WHITESPACE token ends only in front of a non-blank or at the end" if not loose and followers else
                       "a WHITESPACE token can end in front of %s (a blank, or a character that was not looked at): a run of blanks is cut into several tokens" % loose[:3],
                       nx.site())
                rep.ob("C06-R7", "blank:%s:escape=%s" % (chars.describe(lo), escape), kinds == {ws},
                       "a token starting with %s..%s has kind(s) %s" % (chars.describe(lo), chars.describe(hi),
                                                                      sorted(facts.variant_by_discr("syntax::parser::Syntax", k) or "?" for k in kinds if k is not None)),
                       nx.site())
    rep.floor("C06-R7", "white-space atoms", n, 8)


# ---- R6: the precedence stack ------------------------------------------------------------------------------------
class StackDomain(EffectDomain):
    """Runs grammar::operation with symbolic checkpoints; the operator stream is scripted by priority."""

    def __init__(self, facts, script, pr_info):
        super().__init__({}, oracle=self._oracle)
        self.facts = facts
        self.uninterp = lambda n: facts.fn(n) is None
        self.script = list(script)
        self.pr_info = pr_info  # priority -> (kind name, is_unit)

    def fresh(self, store, what):
        n = store.get(("fresh",), 0)
        s2 = dict(store)
        s2[("fresh",)] = n + 1
        return Sym("%s%d" % (what, n)), s2

    def _oracle(self, dom, it, name, args, vals, store):
        a = vals[0] if vals else None
        if name == P + "checkpoint":
            c, s2 = self.fresh(store, "cp")
            return [(ok(c), s2)]
        # the operand parsers (recursive entry points of the grammar) are effects: which one is called is the is_unit flag
        if name in (G + "value", G + "unit"):
            c, s2 = self.fresh(store, "operand")
            return [(ok(some(c)), self.with_log(s2, ("operand", c, Const(name == G + "unit"))))]
        if name == G + "operation::op":
            i = store.get(("opi",), 0)
            s2 = dict(store)
            s2[("opi",)] = i + 1
            if i >= len(self.script):
                return [(NONE, s2)]
            p = self.script[i]
            kind, unit = self.pr_info[p]
            adt = self.facts.adt("syntax::parser::Syntax")
            vi = [v["name"] for v in adt["variants"]].index(kind)
            tup = Agg("tuple", None, None, None, (Const(p), Agg("adt", "syntax::parser::Syntax", vi, kind, ()), Const(bool(unit)), Sym("opskip%d" % i)))
            return [(some(tup), s2)]
        if name == P + "close_at":
            return [(ok(UNIT), self.with_log(store, ("close", vals[1])))]
        if name in (P + "skip", P + "bump_node"):
            return [(ok(UNIT), self.with_log(store, (name.split("::")[-1], vals[1])))]
        if name == P + "count_skip":
            c, s2 = self.fresh(store, "skip")
            return [(c, s2)]
        # Vec<(Checkpoint, i32, bool)> as an aggregate of its elements
        if name == "std::vec::Vec::<T>::new":
            return [(Agg("vec", None, None, None, ()), store)]
        if name.endswith("as std::ops::Deref>::deref") or name.endswith("as std::ops::DerefMut>::deref_mut"):
            return [(args[0], store)]
        if name in ("core::slice::<impl [T]>::last", "core::slice::<impl [T]>::last_mut"):
            r = args[0]
            v = it.read_ref(store, r)
            if isinstance(v, Agg) and v.kind == "vec" and isinstance(r, Ref):
                if not v.fields:
                    return [(NONE, store)]
                return [(some(Ref(r.frame, r.local, r.proj + (len(v.fields) - 1,))), store)]
        if name == "std::vec::Vec::<T, A>::push":
            v = it.read_ref(store, args[0])
            if isinstance(v, Agg) and v.kind == "vec":
                return [(UNIT, it.write_ref(store, args[0], Agg("vec", None, None, None, v.fields + (vals[1],))))]
        if name == "std::vec::Vec::<T, A>::pop":
            v = it.read_ref(store, args[0])
            if isinstance(v, Agg) and v.kind == "vec":
                if not v.fields:
                    return [(NONE, store)]
                return [(some(v.fields[-1]), it.write_ref(store, args[0], Agg("vec", None, None, None, v.fields[:-1])))]
        if (name.endswith("IntoIterator>::into_iter") or name in ("core::slice::<impl [T]>::iter", "std::vec::Vec::<T, A>::drain")) and vals:
            v = a if isinstance(a, Agg) and a.kind == "vec" else (it.read_ref(store, a) if isinstance(a, Ref) else None)
            if isinstance(v, Agg) and v.kind == "vec":
                from ..absint.stdmodels import it_list
                return [(it_list(v.fields), store)]
        if name == "std::vec::Vec::<T, A>::is_empty":
            v = it.read_ref(store, args[0])
            if isinstance(v, Agg) and v.kind == "vec":
                return [(Const(not v.fields), store)]
        if name == "std::vec::Vec::<T, A>::len":
            v = it.read_ref(store, args[0])
            if isinstance(v, Agg) and v.kind == "vec":
                return [(Const(len(v.fields)), store)]
        if name == "std::option::Option::<T>::unwrap_or_default":
            o = vals[0]
            if isinstance(o, Agg) and o.path == "std::option::Option":
                return [(o.field(0) if o.vi == 1 else Const(False), store)]
        if name.endswith("impl std::cmp::Ord for i32>::cmp") or name == "std::cmp::Ord::cmp":
            x, y = vals[0], vals[1]
            if isinstance(x, Const) and isinstance(y, Const):
                c = (x.v > y.v) - (x.v < y.v)
                return [(Agg("adt", "std::cmp::Ordering", {-1: 255, 0: 0, 1: 1}[c], {-1: "Less", 0: "Equal", 1: "Greater"}[c], ()), store)]
        if name.endswith("PartialOrd>::partial_cmp") or name.endswith("::lt") or name.endswith("::gt"):
            return None
        return None


def ref_step(stack, p, unit, cur):
    """Reference precedence step.  stack: list of (cp, prio, unit).  Returns (closes, new stack)."""
    st = list(stack)
    closes = []
    last = None
    while st and st[-1][1] > p:
        last = st.pop()
        closes.append(last[0])
    if not st or st[-1][1] < p:
        st.append((last[0] if last is not None else cur, p, unit))
    return closes, st


def stack_layout(facts, ty):
    """Element layout of the precedence stack `Vec<E>`: E is a tuple or a crate-local struct with one Checkpoint, one i32
    (the priority) and one bool (the is_unit choice), in any order.  -> (make(cp, p, u), (i_cp, i_pr, i_un)) or None."""
    if not ty.startswith("std::vec::Vec<"):
        return None
    inner = ty[len("std::vec::Vec<"):-1]
    if inner.endswith(", std::alloc::Global"):
        inner = inner[:-len(", std::alloc::Global")]
    if inner.startswith("("):
        # split the tuple's components at top level
        parts, depth, cur = [], 0, ""
        for ch in inner[1:-1]:
            if ch in "<(":
                depth += 1
            elif ch in ">)":
                depth -= 1
            if ch == "," and depth == 0:
                parts.append(cur.strip())
                cur = ""
            else:
                cur += ch
        if cur.strip():
            parts.append(cur.strip())
        mk = lambda fs: Agg("tuple", None, None, None, tuple(fs))
    else:
        adt = facts.adt(inner)
        if adt is None or adt["is_enum"]:
            return None
        parts = [f["ty"] for f in adt["variants"][0]["fields"]]
        name = adt["variants"][0]["name"]
        mk = lambda fs, inner=inner, name=name: Agg("adt", inner, 0, name, tuple(fs))
    cps = [i for i, t in enumerate(parts) if "syntree::Checkpoint" in t]
    prs = [i for i, t in enumerate(parts) if t == "i32"]
    uns = [i for i, t in enumerate(parts) if t == "bool"]
    if len(cps) != 1 or len(prs) != 1 or len(uns) != 1 or len(parts) != 3:
        return None
    idx = (cps[0], prs[0], uns[0])

    def make(cp, p, u):
        fs = [None, None, None]
        fs[idx[0]], fs[idx[1]], fs[idx[2]] = cp, p, u
        return mk(fs)
    return make, idx


def read_stack(it, store, frame, local, idx=(0, 1, 2)):
    v = it.read_ref(store, Ref(frame, local))
    if not (isinstance(v, Agg) and v.kind == "vec"):
        return None
    out = []
    for e in v.fields:
        if not isinstance(e, Agg):
            return None
        cp, pr, un = e.field(idx[0]), e.field(idx[1]), e.field(idx[2])
        out.append((cp, pr.v if isinstance(pr, Const) else None, bool(un.v) if isinstance(un, Const) else None))
    return out


def r6_stack(facts, rep, pr, tier):
    rep.rule("C06-R6", "precedence stack, inductive step (finite abstract interpretation of grammar::operation): from every stack "
                       "of strictly increasing priorities (the invariant; 15 non-empty stacks over the 4 priority levels) and every "
                       "next operator priority, one turn of the loop closes exactly the groups of higher priority (top down), leaves "
                       "a strictly increasing stack equal to the reference precedence-climbing step, and hands the right is_unit flag "
                       "to the next operand; at the end every remaining group is closed top down.  Together with C01-R6 (left fold) "
                       "this is precedence and left associativity for every operator sequence")
    body = anchor(rep, "C06-R6", facts, G + "operation")
    if body is None or pr is None:
        return
    levels = sorted({v[0] for v in pr.values()})
    pr_info = {}
    for tok, (p, kind, unit) in pr.items():
        pr_info.setdefault(p, (kind, unit))
    cfg = body.cfg
    # loop head: the outermost loop of operation() (the operand / operator loop)
    heads = [h for h in cfg.reach0 if any(cfg.dominates(h, x) for x in cfg.pred[h])]
    if not rep.ob("C06-R6", "anchor:loop", bool(heads), "the operand loop of operation() found"):
        return
    head = min(heads, key=lambda h: len(cfg.dom[h]))
    # the stack: the Vec of (checkpoint, priority, is_unit) entries that is part of that loop's state
    from .. import loops as L_
    var = L_.variant_locals(body, head)
    stack_l = [l["id"] for l in body.locals if stack_layout(facts, l["ty"]) is not None and l["id"] in var]
    if not rep.ob("C06-R6", "anchor:stack", len(stack_l) == 1, "operation()'s loop has one stack of (checkpoint, priority, is_unit) entries (%d such Vec locals in its state)" % len(stack_l)):
        return
    stack_local = stack_l[0]
    make_entry, lay = stack_layout(facts, body.local_ty(stack_local))

    def run_from(store, script):
        dom = StackDomain(facts, script, pr_info)
        it = core.Interp(facts, dom, budget=100000)
        if store is None:
            outs = it.run(body, [Sym("parser"), Sym("skip_in")], {}, stop={head})
        else:
            outs = it.run(body, [Sym("parser"), Sym("skip_in")], {}, start=(head, store), stop={head})
        return dom, it, outs

    # template store at the loop head (first turn)
    dom0, it0, outs0 = run_from(None, [])
    tmpl = [o for o in outs0 if o.kind == "stop"]
    if not rep.ob("C06-R6", "anchor:template", len(tmpl) == 1, "the loop head is reached once from the entry (%d)" % len(tmpl)):
        return
    # the steady state of the loop's flags: the store at the head after one real turn (whatever the flags are called)
    any_p = sorted({v[0] for v in pr.values()})[0]
    dom1, it1, outs1 = run_from(tmpl[0].store, [any_p])
    warm = [o for o in outs1 if o.kind == "stop"]
    if not rep.ob("C06-R6", "anchor:warm-up", len(warm) == 1, "one turn from the entry state returns to the loop head (%d)" % len(warm)):
        return
    tstore = warm[0].store
    frame = 1
    # all strictly increasing stacks
    stacks = []
    for r in range(1, len(levels) + 1):
        for combo in itertools.combinations(levels, r):
            stacks.append(list(combo))
    n = 0
    for S in stacks:
        entries = [(Sym("g%d" % i), p, bool(pr_info[p][1])) for i, p in enumerate(S)]
        vec = Agg("vec", None, None, None, tuple(make_entry(cp, Const(p), Const(u)) for cp, p, u in entries))
        st = dict(tstore)
        st[(frame, stack_local)] = vec
        st[("opi",)] = 0
        st[("log",)] = ()
        for p in levels:
            n += 1
            dom, it, outs = run_from(st, [p])
            key = "step:stack=%s:next=%d" % (S, p)
            stops = [o for o in outs if o.kind == "stop"]
            others = [o for o in outs if o.kind != "stop" and not (o.kind == "ret" and isinstance(o.value, Agg) and o.value.vi == 1)]
            if len(stops) != 1:
                rep.ob("C06-R6", key, False, "one turn of the loop ends in %d continuation(s) and %s" % (len(stops), [o.kind for o in others]), body.site())
                continue
            o = stops[0]
            log = dom.log(o.store)
            got_stack = read_stack(it, o.store, frame, stack_local, lay)
            closes = [e[1] for e in log if e[0] == "close"]
            operands = [e for e in log if e[0] == "operand"]
            cur = operands[0][1] if operands else None
            flag = operands[0][2] if operands else None
            want_closes, want_stack = ref_step(entries, p, bool(pr_info[p][1]), cur)
            want_flag = Const(entries[-1][2])
            good = got_stack == want_stack and closes == want_closes and flag == want_flag
            incr = got_stack is not None and all(a[1] < b[1] for a, b in zip(got_stack, got_stack[1:]))
            rep.ob("C06-R6", key, good and incr,
                   "stack %s, next priority %d: closes %s (reference %s), stack becomes %s (reference %s)%s" % (
                       [(repr(c), q) for c, q, u in entries], p, [repr(c) for c in closes], [repr(c) for c in want_closes],
                       [(repr(c), q) for c, q, u in (got_stack or [])], [(repr(c), q) for c, q, u in want_stack],
                       "" if incr else " - NOT strictly increasing"), body.site(),
                   sample={"stack": S, "next": p, "closes": [repr(c) for c in closes], "result": [q for c, q, u in (got_stack or [])]})
        # unwinding at the end of the expression
        dom, it, outs = run_from(st, [])
        rets = [o for o in outs if o.kind == "ret" and isinstance(o.value, Agg) and o.value.vi == 0]
        good = len(rets) == 1
        if good:
            closes = [e[1] for e in dom.log(rets[0].store) if e[0] == "close"]
            good = closes == [cp for cp, p_, u in reversed(entries)]
        rep.ob("C06-R6", "end:stack=%s" % S, good, "at the end of the expression the remaining groups are closed top down", body.site())
    rep.floor("C06-R6", "inductive steps", n, 60)
    # first operator: from the entry
    for p in levels:
        dom = StackDomain(facts, [p], pr_info)
        it = core.Interp(facts, dom, budget=100000)
        outs = it.run(body, [Sym("parser"), Sym("skip_in")], {}, stop=set())
        # run until the second arrival at the head: emulate with a script of one operator and end
        rets = [o for o in outs if o.kind == "ret" and isinstance(o.value, Agg) and o.value.vi == 0]
        good = len(rets) == 1
        if good:
            log = dom.log(rets[0].store)
            closes = [e[1] for e in log if e[0] == "close"]
            operands = [e for e in log if e[0] == "operand"]
            # one group, opened before the first operand (the checkpoint taken at entry), closed once at the end
            good = len(closes) == 1 and len(operands) == 2 and repr(closes[0]).startswith("cp") and operands[0][2] == Const(False) \
                and operands[1][2] == Const(bool(pr_info[p][1]))
        rep.ob("C06-R6", "first:next=%d" % p, good, "a single operator of priority %d yields one group opened at the start, closed at the end; "
               "the second operand is parsed as %s" % (p, "a unit" if pr_info[p][1] else "a value"), body.site())
    # no operator at all: nothing is closed
    dom = StackDomain(facts, [], pr_info)
    it = core.Interp(facts, dom, budget=100000)
    outs = it.run(body, [Sym("parser"), Sym("skip_in")], {})
    rets = [o for o in outs if o.kind == "ret" and isinstance(o.value, Agg) and o.value.vi == 0]
    rep.ob("C06-R6", "no-operator", len(rets) == 1 and not [e for e in dom.log(rets[0].store) if e[0] == "close"],
           "a lone operand is not wrapped in an OPERATION", body.site())


def run(fx, rep, tier):
    rep.assume("syntree::Builder::close_at(c, kind) wraps everything built since checkpoint c in a node (trusted)")
    for cfg, facts in fx.items():
        sub = rep if cfg == "dev" else type(rep)(rep.prop, rep.tier)
        pr = r1_table(facts, sub)
        r3_skip(facts, sub)
        r4_offset(facts, sub)
        r5_groups(facts, sub)
        r6_stack(facts, sub, pr, tier)
        if cfg == "dev":
            # grouping is only worth something if the evaluator folds every operator of a group, left to right
            from . import c01
            s8 = type(rep)(rep.prop, rep.tier)
            c01.r6_fold(facts, s8, "C06-R8")
            rep.rules["C06-R8"] = s8.rules["C06-R8"] + " (shared with C01-R6)"
            for o in s8.obls:
                sub.obls.append(o)
            # blanks at the ends of a query are part of the text the spans refer to
            s9 = type(rep)(rep.prop, rep.tier)
            c12.r9_same_text(facts, s9)
            rep.rules["C06-R9"] = "leading and trailing blanks do not shift anything: " + s9.rules["C12-R9"] + " (shared with C12-R9)"
            for o in s9.obls:
                o["rule"] = "C06-R9"
                sub.obls.append(o)
        if sub is not rep:
            for o in sub.obls:
                o["key"] += "[rel]"
                rep.obls.append(o)
