"""C06 - operator precedence, associativity and grouping are respected."""
import itertools

from .. import facts as F
from .. import flow, typestate
from ..absint import core, chars
from ..absint.core import Agg, Const, TOP, Ref, UNIT, some, NONE, ok, err
from ..absint.term import TermDomain, EffectDomain, Sym, T, K
from .common import census, anchor
from . import c01, c12

LEVEL = "other"
P = typestate.P
G = typestate.G


# ---- R1: priority table -------------------------------------------------------------------------------------
def priorities(facts):
    ot = c01.op_table(facts)
    if ot is None:
        return None
    out = {}
    for tok, res in ot.items():
        for r in res:
            if r:
                out[tok] = (r[0], r[1], r[2])
    return out


def r1_table(facts, rep):
    rep.rule("C06-R1", "priority table (run of grammar::op for every token kind): to < {+,-} < {*,/} < {^,**} strictly, equal "
                       "within a level; only `to` asks for a unit as its right operand; op() does not consume anything")
    pr = priorities(facts)
    if not rep.ob("C06-R1", "anchor:op", pr is not None, "grammar::operation::op analysed"):
        return None
    lv = {k: v[0] for k, v in pr.items()}
    want = [("TO",), ("PLUS", "DASH"), ("STAR", "SLASH"), ("CARET", "STARSTAR")]
    for grp in want:
        vals = {lv.get(t) for t in grp}
        rep.ob("C06-R1", "level:%s" % "/".join(grp), len(vals) == 1 and None not in vals, "tokens %s have priorities %s" % (grp, sorted(map(str, vals))),
               sample={"tokens": grp, "priority": sorted(map(str, vals))})
    for a, b in zip(want, want[1:]):
        x, y = lv.get(a[0]), lv.get(b[0])
        rep.ob("C06-R1", "order:%s<%s" % (a[0], b[0]), x is not None and y is not None and x < y, "priority(%s) = %s, priority(%s) = %s" % (a[0], x, b[0], y))
    for t, (p, k, u) in sorted(pr.items()):
        rep.ob("C06-R1", "unit-flag:%s" % t, bool(u) == (t == "TO"), "%s asks for a unit operand: %s" % (t, u), nontrivial=False)
    rep.ob("C06-R1", "operator-set", set(pr) == {"TO", "PLUS", "DASH", "STAR", "SLASH", "CARET", "STARSTAR"}, "operators: %s" % sorted(pr))
    body = facts.fn("syntax::grammar::operation::op")
    if body is not None:
        cons = [n for b_, t, sp, n in body.calls() if n in (P + "skip", P + "bump", P + "bump_node", P + "eat", P + "bump_until")]
        rep.ob("C06-R1", "op-consumes-nothing", not cons, "op() calls %s" % cons, body.site())
    return pr


# ---- R3 / R4: the blank counter ------------------------------------------------------------------------------
def r3_skip(facts, rep):
    rep.rule("C06-R3", "Skip typestate: a blank count is fresh when produced (count_skip, callee result, parameter, constant) and "
                       "stale after any call that consumes tokens (skip, bump, bump_node, bump_until, eat on its true edge, value, "
                       "unit, operation, operand, call_arguments); no stale count is passed to nth / skip / eat / a grammar "
                       "function or returned (forward may-dataflow; paths through a failed sub-parse are not reported)")
    fns = typestate.grammar_functions(facts)
    rep.floor("C06-R3", "grammar functions", len(fns), 7)
    consuming = {P + "skip", P + "bump", P + "bump_node", P + "bump_until", P + "eat"} | {
        G + n for n in ("value", "unit", "operation", "operation::operand", "call_arguments")}
    uses = consuming | {P + "nth"}
    total_uses = 0
    n_cs = 0
    for b in fns:
        viol, stats = typestate.analyse(facts, b, consuming, uses)
        total_uses += stats["uses"]
        n_cs += len([1 for _ in b.calls(lambda n: n == P + "count_skip")])
        seen = set()
        for what, site, var in viol:
            key = "%s:%s:%s" % (b.path, var, what)
            if key in seen:
                continue
            seen.add(key)
            rep.ob("C06-R3", key, False, "in %s the blank count `%s` is used (%s) after the tokens it counted were consumed" % (b.path, var, what), site)
        rep.ob("C06-R3", "fn:%s" % b.path, not viol, "%s: %d Skip local(s), %d use(s), %d stale" % (b.path, stats["skip_locals"], stats["uses"], len(viol)),
               b.site(), sample={"fn": b.path, **stats})
    rep.count("uses of Skip values", total_uses)
    rep.floor("C06-R3", "uses of Skip values", total_uses, 20)
    rep.floor("C06-R3", "count_skip call sites", n_cs, 8)


def r4_offset(facts, rep):
    rep.rule("C06-R4", "offset agreement: Parser::nth(skip, n) peeks at index skip.0 + n and Parser::eat(skip, expected) tests "
                       "its expectations at index skip.0 + n as well (then consumes skip.0 blanks and the expected tokens); "
                       "Parser::skip consumes exactly skip.0 tokens; count_skip counts leading WHITESPACE tokens only")
    for fn in ("nth", "eat"):
        b = anchor(rep, "C06-R4", facts, P + fn)
        if b is None:
            continue
        gets = flow.calls_named(b, lambda n: n == P + "get")
        rep.floor("C06-R4", "get() calls in " + fn, len(gets), 1)
        for bid, t, sp, _ in gets:
            ls = flow.slice_back(b, t["args"][1])
            adds = [l for l in ls if l[0] == "binop" and l[1].startswith("Add")]
            okk = False
            for l in adds:
                for blk, i, s in b.stmts():
                    if blk["id"] == l[2] and s["rv"]["k"] == "binop" and s["rv"]["op"].startswith("Add"):
                        parts = set()
                        for o in (s["rv"]["a"], s["rv"]["b"]):
                            for x in flow.slice_back(b, o):
                                if x[0] == "param":
                                    parts.add((x[1], x[2]))
                                elif x[0] == "call":
                                    parts.add(("call", x[1].split("::")[-1]))
                                elif x[0] == "const":
                                    parts.add(("const", x[1]))
                        # skip is parameter 2 (field 0); the other summand is n (nth) or the enumerate index (eat)
                        okk = okk or any(p[0] == 2 for p in parts if isinstance(p[0], int))
            rep.ob("C06-R4", "%s:index=skip+n" % fn, okk, "%s looks at the token queue at %s" % (fn, "skip.0 + n" if okk else "an index that does not include skip.0"),
                   b.site(sp))
    sk = anchor(rep, "C06-R4", facts, P + "skip")
    if sk is not None:
        bumps = flow.calls_named(sk, lambda n: n == P + "bump")
        rng = [s for blk, i, s in sk.stmts() if s["rv"]["k"] == "aggregate" and "Range" in s["rv"]["kind"].get("path", "")]
        okk = len(bumps) == 1 and len(rng) == 1
        if okk:
            ops = rng[0]["rv"]["ops"]
            lo = F.const_val(ops[0]) if ops[0]["k"] == "const" else None
            hi = {x[1:] for x in flow.slice_back(sk, ops[1]) if x[0] == "param"}
            okk = lo == 0 and hi == {(2, ("0",))} or lo == 0 and any(h[0] == 2 for h in hi)
        rep.ob("C06-R4", "skip:consumes-skip.0", okk, "Parser::skip bumps once per index in 0..skip.0", sk.site())
    cs = anchor(rep, "C06-R4", facts, P + "count_skip")
    if cs is not None:
        ws = facts.discr_of("syntax::parser::Syntax", "WHITESPACE")
        sw = [t for blk, t, sp in cs.terms() if t["k"] == "switch" and any(int(v) == ws for v, _ in t["targets"])]
        cons = [n for b_, t, sp, n in cs.calls() if n in (P + "bump", P + "skip", P + "bump_node", P + "eat")]
        rep.ob("C06-R4", "count_skip:counts-whitespace", len(sw) >= 1 and not cons, "count_skip tests for WHITESPACE (%d switch(es)) and consumes %s" % (len(sw), cons or "nothing"),
               cs.site())


# ---- R5: groups and raw tokens ---------------------------------------------------------------------------------
def r5_groups(facts, rep):
    rep.rule("C06-R5", "a parenthesised group is a node of its own: in grammar::value every successful path of the `(` arm passes "
                       "close_at on the checkpoint taken before the `(` token; the query iterator advances with next_node(), so raw "
                       "tokens of the root (blanks at either end) are not evaluated as results")
    body = anchor(rep, "C06-R5", facts, G + "value")
    if body is not None:
        cfg = body.cfg
        op = facts.discr_of("syntax::parser::Syntax", "OPEN_PAREN")
        nth = flow.calls_named(body, lambda n: n == P + "nth")
        arm = None
        for bid, t, sp, _ in nth:
            if bid != 0 and not cfg.dominates(bid, bid):
                pass
        # the first switch on the peeked kind
        for blk, t, sp in body.terms():
            if t["k"] == "switch" and any(int(v) == op for v, _ in t["targets"]) and cfg.dominates(blk["id"], blk["id"]):
                m = {int(v): x for v, x in t["targets"]}
                if arm is None and len(m) >= 3:
                    arm = (blk["id"], m[op])
        if rep.ob("C06-R5", "value:paren-arm", arm is not None, "the `(` arm of value() found", body.site()):
            sw, entry = arm
            region = cfg.blocks_only_via_edge(sw, entry) | {entry}
            closes = {b_ for b_, t, sp, n in flow.calls_named(body, lambda n: n == P + "close_at") if b_ in region}
            # successful returns of the arm: Ok(Some(..)) constructions in the region
            succ = [blk["id"] for blk, i, s in body.stmts() if blk["id"] in region and s["rv"]["k"] == "aggregate"
                    and s["rv"]["kind"].get("variant") == "Some" and any(l[0] == "call" and l[1] == P + "checkpoint" for l in flow.slice_back(body, s["rv"]["ops"][0]))]
            good = bool(succ) and bool(closes) and all(cfg.every_path_passes(entry, {s_}, closes) for s_ in succ)
            rep.ob("C06-R5", "value:paren-group-closed", good,
                   "the `(` arm returns Some(checkpoint) on %d path(s); %s" % (len(succ), "each passes close_at" if good else "NOT every one passes a close_at (the group would not be a node)"),
                   body.site(body.blocks[entry]["term"]["span"]))
            # the checkpoint closed is taken before the bump of `(`
            for c in closes:
                t = body.blocks[c]["term"]["t"]
                cps = [l for l in flow.slice_back(body, t["args"][1]) if l[0] == "call" and l[1] == P + "checkpoint"]
                bumps = [b_ for b_, tt, sp, n in flow.calls_named(body, lambda n: n == P + "bump") if b_ in region]
                before = bool(cps) and bool(bumps) and all(cfg.dominates(cp[2], min(bumps)) and cp[2] != min(bumps) for cp in cps)
                rep.ob("C06-R5", "value:paren-checkpoint-before-token", before, "the group's checkpoint is taken %s the `(` token is bumped" % ("before" if before else "AFTER"),
                       body.site(body.blocks[c]["term"]["span"]))
    q = None
    for b in facts.lib_bodies():
        if b.path.startswith("<query::Query<") and b.path.endswith("as std::iter::Iterator>::next"):
            q = b
    if rep.ob("C06-R5", "anchor:Query::next", q is not None, "Query::next found"):
        adv = [n for b_, t, sp, n in q.calls() if "Children" in n]
        rep.ob("C06-R5", "query:advances-by-node", adv == ["syntree::node::Children::<'a, T, I, W>::next_node"],
               "Query::next advances its children with %s" % adv, q.site())
    # whitespace: every White_Space character starts a WHITESPACE token, in and outside braces
    rep.rule("C06-R7", "every Unicode White_Space character (space, tab, newline, NBSP, ...) lexes as WHITESPACE: abstract run of "
                       "Lexer::next for each atom of the exact character partition inside the White_Space set")
    bodies = c12.lexer_bodies(facts)
    consts, preds, unknown = chars.char_constants(bodies)
    ats = chars.atoms(consts, preds)
    nx = facts.fn(c12.NEXT)
    ws = facts.discr_of("syntax::parser::Syntax", "WHITESPACE")
    n = 0
    if nx is not None and not unknown:
        for lo, hi in ats:
            if not chars.in_set(lo, chars.WHITE_SPACE):
                continue
            n += 1
            for escape in (False, True):
                dom = c12.LexDomain(ats, facts=facts)
                it = core.Interp(facts, dom, budget=200000)
                st = dom.setlex({(0, 0): c12.lexer_value(escape)}, lo, None)
                kinds = set()
                for o in it.run(nx, [Ref(0, 0)], st):
                    v = o.value
                    tok = v.field(0) if isinstance(v, Agg) and v.vname == "Some" else None
                    k = tok.field(1) if isinstance(tok, Agg) else None
                    kinds.add(k.vi if isinstance(k, Agg) else None)
                rep.ob("C06-R7", "blank:%s:escape=%s" % (chars.describe(lo), escape), kinds == {ws},
                       "a token starting with %s..%s has kind(s) %s" % (chars.describe(lo), chars.describe(hi),
                                                                      sorted(facts.variant_by_discr("syntax::parser::Syntax", k) or "?" for k in kinds if k is not None)),
                       nx.site())
    rep.floor("C06-R7", "white-space atoms", n, 8)


# ---- R6: the precedence stack ------------------------------------------------------------------------------------
class StackDomain(EffectDomain):
    """Runs grammar::operation with symbolic checkpoints; the operator stream is scripted by priority."""

    def __init__(self, facts, script, pr_info):
        super().__init__({}, oracle=self._oracle)
        self.facts = facts
        self.uninterp = lambda n: facts.fn(n) is None
        self.script = list(script)
        self.pr_info = pr_info  # priority -> (kind name, is_unit)

    def fresh(self, store, what):
        n = store.get(("fresh",), 0)
        s2 = dict(store)
        s2[("fresh",)] = n + 1
        return Sym("%s%d" % (what, n)), s2

    def _oracle(self, dom, it, name, args, vals, store):
        a = vals[0] if vals else None
        if name == P + "checkpoint":
            c, s2 = self.fresh(store, "cp")
            return [(ok(c), s2)]
        if name == G + "operation::operand":
            c, s2 = self.fresh(store, "operand")
            return [(ok(some(c)), self.with_log(s2, ("operand", c, vals[2])))]
        if name == G + "operation::op":
            i = store.get(("opi",), 0)
            s2 = dict(store)
            s2[("opi",)] = i + 1
            if i >= len(self.script):
                return [(NONE, s2)]
            p = self.script[i]
            kind, unit = self.pr_info[p]
            adt = self.facts.adt("syntax::parser::Syntax")
            vi = [v["name"] for v in adt["variants"]].index(kind)
            tup = Agg("tuple", None, None, None, (Const(p), Agg("adt", "syntax::parser::Syntax", vi, kind, ()), Const(bool(unit)), Sym("opskip%d" % i)))
            return [(some(tup), s2)]
        if name == P + "close_at":
            return [(ok(UNIT), self.with_log(store, ("close", vals[1])))]
        if name in (P + "skip", P + "bump_node"):
            return [(ok(UNIT), self.with_log(store, (name.split("::")[-1], vals[1])))]
        if name == P + "count_skip":
            c, s2 = self.fresh(store, "skip")
            return [(c, s2)]
        # Vec<(Checkpoint, i32, bool)> as an aggregate of its elements
        if name == "std::vec::Vec::<T>::new":
            return [(Agg("vec", None, None, None, ()), store)]
        if name.endswith("as std::ops::Deref>::deref") or name.endswith("as std::ops::DerefMut>::deref_mut"):
            return [(args[0], store)]
        if name in ("core::slice::<impl [T]>::last", "core::slice::<impl [T]>::last_mut"):
            r = args[0]
            v = it.read_ref(store, r)
            if isinstance(v, Agg) and v.kind == "vec" and isinstance(r, Ref):
                if not v.fields:
                    return [(NONE, store)]
                return [(some(Ref(r.frame, r.local, r.proj + (len(v.fields) - 1,))), store)]
        if name == "std::vec::Vec::<T, A>::push":
            v = it.read_ref(store, args[0])
            if isinstance(v, Agg) and v.kind == "vec":
                return [(UNIT, it.write_ref(store, args[0], Agg("vec", None, None, None, v.fields + (vals[1],))))]
        if name == "std::vec::Vec::<T, A>::pop":
            v = it.read_ref(store, args[0])
            if isinstance(v, Agg) and v.kind == "vec":
                if not v.fields:
                    return [(NONE, store)]
                return [(some(v.fields[-1]), it.write_ref(store, args[0], Agg("vec", None, None, None, v.fields[:-1])))]
        if name == "std::vec::Vec::<T, A>::is_empty":
            v = it.read_ref(store, args[0])
            if isinstance(v, Agg) and v.kind == "vec":
                return [(Const(not v.fields), store)]
        if name == "std::vec::Vec::<T, A>::len":
            v = it.read_ref(store, args[0])
            if isinstance(v, Agg) and v.kind == "vec":
                return [(Const(len(v.fields)), store)]
        if name == "std::option::Option::<T>::unwrap_or_default":
            o = vals[0]
            if isinstance(o, Agg) and o.path == "std::option::Option":
                return [(o.field(0) if o.vi == 1 else Const(False), store)]
        if name.endswith("impl std::cmp::Ord for i32>::cmp") or name == "std::cmp::Ord::cmp":
            x, y = vals[0], vals[1]
            if isinstance(x, Const) and isinstance(y, Const):
                c = (x.v > y.v) - (x.v < y.v)
                return [(Agg("adt", "std::cmp::Ordering", {-1: 255, 0: 0, 1: 1}[c], {-1: "Less", 0: "Equal", 1: "Greater"}[c], ()), store)]
        if name.endswith("PartialOrd>::partial_cmp") or name.endswith("::lt") or name.endswith("::gt"):
            return None
        return None


def ref_step(stack, p, unit, cur):
    """Reference precedence step.  stack: list of (cp, prio, unit).  Returns (closes, new stack)."""
    st = list(stack)
    closes = []
    last = None
    while st and st[-1][1] > p:
        last = st.pop()
        closes.append(last[0])
    if not st or st[-1][1] < p:
        st.append((last[0] if last is not None else cur, p, unit))
    return closes, st


def read_stack(it, store, frame, local):
    v = it.read_ref(store, Ref(frame, local))
    if not (isinstance(v, Agg) and v.kind == "vec"):
        return None
    out = []
    for e in v.fields:
        if not isinstance(e, Agg):
            return None
        cp, pr, un = e.field(0), e.field(1), e.field(2)
        out.append((cp, pr.v if isinstance(pr, Const) else None, bool(un.v) if isinstance(un, Const) else None))
    return out


def r6_stack(facts, rep, pr, tier):
    rep.rule("C06-R6", "precedence stack, inductive step (finite abstract interpretation of grammar::operation): from every stack "
                       "of strictly increasing priorities (the invariant; 15 non-empty stacks over the 4 priority levels) and every "
                       "next operator priority, one turn of the loop closes exactly the groups of higher priority (top down), leaves "
                       "a strictly increasing stack equal to the reference precedence-climbing step, and hands the right is_unit flag "
                       "to the next operand; at the end every remaining group is closed top down.  Together with C01-R6 (left fold) "
                       "this is precedence and left associativity for every operator sequence")
    body = anchor(rep, "C06-R6", facts, G + "operation")
    if body is None or pr is None:
        return
    levels = sorted({v[0] for v in pr.values()})
    pr_info = {}
    for tok, (p, kind, unit) in pr.items():
        pr_info.setdefault(p, (kind, unit))
    cfg = body.cfg
    operand_calls = flow.calls_named(body, lambda n: n == G + "operation::operand")
    stack_l = [l["id"] for l in body.locals if l["ty"].startswith("std::vec::Vec<(syntree::Checkpoint")]
    if not rep.ob("C06-R6", "anchor:stack", len(operand_calls) == 1 and len(stack_l) == 1, "operation() has one operand call and one checkpoint stack"):
        return
    stack_local = stack_l[0]
    ob = operand_calls[0][0]
    # loop head: the innermost loop header that dominates the operand call
    heads = [h for h in cfg.reach0 if cfg.dominates(h, ob) and any(cfg.dominates(h, x) for x in cfg.pred[h] if x in cfg.reachable_after(h))]
    if not rep.ob("C06-R6", "anchor:loop", bool(heads), "the operand loop of operation() found"):
        return
    head = max(heads, key=lambda h: len(cfg.dom[h]))
    first_l = [l["id"] for l in body.locals if l["name"] == "first" and l["ty"] == "bool"]

    def run_from(store, script):
        dom = StackDomain(facts, script, pr_info)
        it = core.Interp(facts, dom, budget=100000)
        if store is None:
            outs = it.run(body, [Sym("parser"), Sym("skip_in")], {}, stop={head})
        else:
            outs = it.run(body, [Sym("parser"), Sym("skip_in")], {}, start=(head, store), stop={head})
        return dom, it, outs

    # template store at the loop head (first turn)
    dom0, it0, outs0 = run_from(None, [])
    tmpl = [o for o in outs0 if o.kind == "stop"]
    if not rep.ob("C06-R6", "anchor:template", len(tmpl) == 1, "the loop head is reached once from the entry (%d)" % len(tmpl)):
        return
    tstore = tmpl[0].store
    frame = 1
    open_cp = None
    for e in range(0, 3):
        pass
    # all strictly increasing stacks
    stacks = []
    for r in range(1, len(levels) + 1):
        for combo in itertools.combinations(levels, r):
            stacks.append(list(combo))
    n = 0
    for S in stacks:
        entries = [(Sym("g%d" % i), p, bool(pr_info[p][1])) for i, p in enumerate(S)]
        vec = Agg("vec", None, None, None, tuple(Agg("tuple", None, None, None, (cp, Const(p), Const(u))) for cp, p, u in entries))
        st = dict(tstore)
        st[(frame, stack_local)] = vec
        for fl in first_l:
            st[(frame, fl)] = Const(False)
        st[("opi",)] = 0
        st[("log",)] = ()
        for p in levels:
            n += 1
            dom, it, outs = run_from(st, [p])
            key = "step:stack=%s:next=%d" % (S, p)
            stops = [o for o in outs if o.kind == "stop"]
            others = [o for o in outs if o.kind != "stop" and not (o.kind == "ret" and isinstance(o.value, Agg) and o.value.vi == 1)]
            if len(stops) != 1:
                rep.ob("C06-R6", key, False, "one turn of the loop ends in %d continuation(s) and %s" % (len(stops), [o.kind for o in others]), body.site())
                continue
            o = stops[0]
            log = dom.log(o.store)
            got_stack = read_stack(it, o.store, frame, stack_local)
            closes = [e[1] for e in log if e[0] == "close"]
            operands = [e for e in log if e[0] == "operand"]
            cur = operands[0][1] if operands else None
            flag = operands[0][2] if operands else None
            want_closes, want_stack = ref_step(entries, p, bool(pr_info[p][1]), cur)
            want_flag = Const(entries[-1][2])
            good = got_stack == want_stack and closes == want_closes and flag == want_flag
            incr = got_stack is not None and all(a[1] < b[1] for a, b in zip(got_stack, got_stack[1:]))
            rep.ob("C06-R6", key, good and incr,
                   "stack %s, next priority %d: closes %s (reference %s), stack becomes %s (reference %s)%s" % (
                       [(repr(c), q) for c, q, u in entries], p, [repr(c) for c in closes], [repr(c) for c in want_closes],
                       [(repr(c), q) for c, q, u in (got_stack or [])], [(repr(c), q) for c, q, u in want_stack],
                       "" if incr else " - NOT strictly increasing"), body.site(),
                   sample={"stack": S, "next": p, "closes": [repr(c) for c in closes], "result": [q for c, q, u in (got_stack or [])]})
        # unwinding at the end of the expression
        dom, it, outs = run_from(st, [])
        rets = [o for o in outs if o.kind == "ret" and isinstance(o.value, Agg) and o.value.vi == 0]
        good = len(rets) == 1
        if good:
            closes = [e[1] for e in dom.log(rets[0].store) if e[0] == "close"]
            good = closes == [cp for cp, p_, u in reversed(entries)]
        rep.ob("C06-R6", "end:stack=%s" % S, good, "at the end of the expression the remaining groups are closed top down", body.site())
    rep.floor("C06-R6", "inductive steps", n, 60)
    # first operator: from the entry
    for p in levels:
        dom = StackDomain(facts, [p], pr_info)
        it = core.Interp(facts, dom, budget=100000)
        outs = it.run(body, [Sym("parser"), Sym("skip_in")], {}, stop=set())
        # run until the second arrival at the head: emulate with a script of one operator and end
        rets = [o for o in outs if o.kind == "ret" and isinstance(o.value, Agg) and o.value.vi == 0]
        good = len(rets) == 1
        if good:
            log = dom.log(rets[0].store)
            closes = [e[1] for e in log if e[0] == "close"]
            operands = [e for e in log if e[0] == "operand"]
            # one group, opened before the first operand (the checkpoint taken at entry), closed once at the end
            good = len(closes) == 1 and len(operands) == 2 and repr(closes[0]).startswith("cp") and operands[0][2] == Const(False) \
                and operands[1][2] == Const(bool(pr_info[p][1]))
        rep.ob("C06-R6", "first:next=%d" % p, good, "a single operator of priority %d yields one group opened at the start, closed at the end; "
               "the second operand is parsed as %s" % (p, "a unit" if pr_info[p][1] else "a value"), body.site())
    # no operator at all: nothing is closed
    dom = StackDomain(facts, [], pr_info)
    it = core.Interp(facts, dom, budget=100000)
    outs = it.run(body, [Sym("parser"), Sym("skip_in")], {})
    rets = [o for o in outs if o.kind == "ret" and isinstance(o.value, Agg) and o.value.vi == 0]
    rep.ob("C06-R6", "no-operator", len(rets) == 1 and not [e for e in dom.log(rets[0].store) if e[0] == "close"],
           "a lone operand is not wrapped in an OPERATION", body.site())


def run(fx, rep, tier):
    rep.assume("syntree::Builder::close_at(c, kind) wraps everything built since checkpoint c in a node (trusted)")
    for cfg, facts in fx.items():
        sub = rep if cfg == "dev" else type(rep)(rep.prop, rep.tier)
        pr = r1_table(facts, sub)
        r3_skip(facts, sub)
        r4_offset(facts, sub)
        r5_groups(facts, sub)
        r6_stack(facts, sub, pr, tier)
        if sub is not rep:
            for o in sub.obls:
                o["key"] += "[rel]"
                rep.obls.append(o)
