"""C15 - the on-disk index always recovers to the shipped data."""
from .. import facts as F
from .. import flow
from .common import census, anchor, param_bool_switches
from ..absint import core as _core  # noqa: E402
from ..absint.core import Agg as _Agg, Const as _Const, ok as _ok, err as _err  # noqa: E402
from ..absint.term import EffectDomain as _EffectDomain, Sym as _Sym, T as _T, IterV as _IterV  # noqa: E402

LEVEL = "other"

FS_WRITE = ("std::fs::File::create", "std::fs::write", "std::fs::rename", "std::fs::remove_file", "std::fs::remove_dir_all",
            "std::fs::remove_dir", "std::fs::create_dir_all", "std::fs::create_dir", "std::fs::copy",
            "std::fs::OpenOptions::open", "std::fs::File::create_new", "std::fs::File::options")


def in_mem_param(body):
    for l in body.locals[1:body.arg_count + 1]:
        if l["ty"] == "bool":
            return l["id"]
    return None


def r1_marker_after_commit(facts, rep):
    rep.rule("C15-R1", "the marker is written only for an index that is complete and current (session summaries of open_inner, "
                       "helpers followed): every write_meta effect comes after a successful commit and a successful reload, only in "
                       "an on-disk session, and the configuration it writes carries this build's version and the hash of this "
                       "build's assets")
    body = anchor(rep, "C15-R1", facts, "db::Db::open_inner")
    if body is None:
        return
    n_wm = 0
    bad = []
    seen_disk = False
    for in_memory in (True, False):
        try:
            dom, it, body_, outs = open_inner_summary(facts, in_memory)
        except _core.Undecided as e:
            rep.ob("C15-R1", "summary:in_memory=%s" % in_memory, False, "undecided: %s" % e, body.site())
            return
        for o in outs:
            log = list(dom.log(o.store))
            for i_, e in enumerate(log):
                if e[0] != "write_meta":
                    continue
                n_wm += 1
                if in_memory:
                    bad.append("an in-memory session writes the marker")
                    continue
                seen_disk = True
                before = [x[0] for x in log[:i_]]
                fails = [x for x in log[:i_] if x[0] == "fail"]
                if "commit" not in before or "reload" not in before or fails or before.index("commit") > before.index("reload"):
                    bad.append("write_meta after %s (failures before it: %s)" % (before, [x[1] for x in fails]))
                cfgv = e[1] if len(e) > 1 else None
                cfgv = it.read_ref(o.store, cfgv) if isinstance(cfgv, _core.Ref) else cfgv
                txt = repr(cfgv)
                meta_adt = facts.adt("config::Meta")
                cfg_adt = facts.adt("config::Config")
                mv = None
                if isinstance(cfgv, _Agg) and cfg_adt:
                    names = [f["name"] for f in cfg_adt["variants"][0]["fields"]]
                    if "meta" in names:
                        mv = cfgv.field(names.index("meta"))
                if isinstance(mv, _Agg) and meta_adt:
                    mn = [f["name"] for f in meta_adt["variants"][0]["fields"]]
                    ver = repr(mv.field(mn.index("version"))) if "version" in mn else ""
                    hsh = repr(mv.field(mn.index("database_hash"))) if "database_hash" in mn else ""
                    if "config.this_version" not in ver:
                        bad.append("the marker's version is %s, not config.this_version" % ver[:80])
                    if "hash" not in hsh.replace("database_hash", "") or "meta.database_hash" in hsh:
                        bad.append("the marker's hash is %s, not the result of hash_assets()" % hsh[:80])
                else:
                    bad.append("the configuration written is not visible (%s)" % txt[:60])
    rep.floor("C15-R1", "write_meta effects in the session summaries", n_wm, 1)
    rep.ob("C15-R1", "write_meta", not bad and seen_disk, "; ".join(sorted(set(bad))[:3]) if bad else
           "every write_meta follows a successful commit and reload, on disk only, with this build's version and asset hash (%d effects)" % n_wm,
           body.site())


def _ref_sources(body, operand):
    """Places whose address flows into operand (through reborrows / copies)."""
    defs = flow.Defs(body)
    out = []
    seen = set()

    def go(o, d=0):
        if o["k"] not in ("copy", "move") or d > 12:
            return
        p = o["place"]
        if p["proj"] and any(e["k"] == "field" for e in p["proj"]):
            out.append(o)
            return
        n = p["local"]
        if n in seen:
            return
        seen.add(n)
        for kind, bid, idx, pl in defs.of(n):
            if kind == "assign":
                rv = pl["rv"]
                if rv["k"] in ("ref", "rawptr"):
                    go({"k": "copy", "place": rv["place"]}, d + 1)
                elif rv["k"] in ("use", "cast"):
                    go(rv["op"], d + 1)
            else:
                name = F.callee(pl)
                if any(name.endswith(t) for t in flow.TRANSPARENT) and pl["args"]:
                    go(pl["args"][0], d + 1)
    go(operand)
    return out


def open_index_actuals(facts):
    """What Db::open_inner hands to open_index, over the symbolic configuration: the values of the call's arguments on the
    first path that reaches it (the whole Config today; paths and versions picked out of it in a narrower signature)."""
    cached = facts.__dict__.get("_oi_actuals", "?")
    if cached != "?":
        return cached
    facts._oi_actuals = None
    body = facts.fn("db::Db::open_inner")
    cfg_adt = facts.adt("config::Config")
    meta_adt = facts.adt("config::Meta")
    if body is None or cfg_adt is None or meta_adt is None:
        return None
    mfields = [f["name"] for f in meta_adt["variants"][0]["fields"]]
    cfields = [f["name"] for f in cfg_adt["variants"][0]["fields"]]
    meta = _Agg("adt", "config::Meta", 0, "Meta", [_Sym("meta." + f) for f in mfields])
    config = _Agg("adt", "config::Config", 0, "Config", [meta if f == "meta" else _Sym("config." + f) for f in cfields])
    captured = []

    def oracle(dom, it, name, args, vals, store):
        if name == "config::open":
            return [(_ok(config), store)]
        if name == "config::Config::hash_assets":
            return [(_Sym("hash"), store)]
        if name == "db::open_index":
            if not captured:
                captured.append(list(vals))
            return [(_err(_Sym("open_index_error")), store)]
        if name.endswith("::with_context") or name.endswith(">::context"):
            return [(vals[0], store)]
        if name in ("log::max_level",):
            return [(_Sym("log_level"), store)]
        if name == "std::cmp::PartialOrd::le" and any(isinstance(v, _Sym) and v.name == "log_level" for v in vals):
            return [(_Const(False), store)]
        if name in ("<std::path::PathBuf as std::ops::Deref>::deref", "std::path::PathBuf::as_path",
                    "<std::path::PathBuf as std::convert::AsRef<std::path::Path>>::as_ref",
                    "<std::string::String as std::ops::Deref>::deref", "std::string::String::as_str"):
            return [(vals[0], store)]
        return None
    dom = _EffectDomain({}, oracle=oracle)
    from ..callgraph import CallGraph as _CG
    own = {p for p in _CG(facts).exclusive("db::Db::open_inner") if facts.fn(p) is not None and facts.fn(p).file == body.file}
    dom.uninterp = lambda n: n not in own
    it = _core.Interp(facts, dom, budget=100000)
    try:
        it.run(body, [_Const(False)], {})
    except _core.Undecided:
        return None
    facts._oi_actuals = captured[0] if captured else None
    return facts._oi_actuals


def open_index_summary(facts):
    """Effect summary of db::open_index over a symbolic configuration (helpers followed)."""
    body = facts.fn("db::open_index")
    cfg_adt = facts.adt("config::Config")
    meta_adt = facts.adt("config::Meta")
    mfields = [f["name"] for f in meta_adt["variants"][0]["fields"]]
    cfields = [f["name"] for f in cfg_adt["variants"][0]["fields"]]
    meta = _Agg("adt", "config::Meta", 0, "Meta", [_Sym("meta." + f) for f in mfields])
    config = _Agg("adt", "config::Config", 0, "Config", [meta if f == "meta" else _Sym("config." + f) for f in cfields])

    def oracle(dom, it, name, args, vals, store):
        if name in ("log::max_level",):
            return [(_Sym("log_level"), store)]
        if name == "std::cmp::PartialOrd::le" and any(isinstance(v, _Sym) and v.name == "log_level" for v in vals):
            return [(_Const(False), store)]
        if name.endswith("::with_context") or name.endswith(">::context"):
            return [(vals[0], store)]
        if name in ("std::path::Path::is_dir", "std::path::Path::exists", "std::path::Path::is_file"):
            return dom.fork(store, _T(name.rsplit("::", 1)[-1], vals[0]))
        if name in ("<std::path::PathBuf as std::ops::Deref>::deref", "std::path::PathBuf::as_path", "<std::path::PathBuf as std::convert::AsRef<std::path::Path>>::as_ref"):
            return [(vals[0], store)]
        return None

    effects = {n: (n.rsplit("::", 1)[-1], "fallible") for n in FS_WRITE}
    effects["tantivy::Index::open_in_dir"] = ("open_in_dir", "fallible-value")
    effects["tantivy::Index::create_in_dir"] = ("create_in_dir", "fallible-value")
    dom = _EffectDomain(effects, oracle=oracle)
    dom.uninterp = lambda n: facts.fn(n) is None
    it = _core.Interp(facts, dom, budget=300000)
    actuals = open_index_actuals(facts) if body.arg_count != 1 or "config::Config" not in body.local_ty(1) else None
    if actuals is not None and len(actuals) == body.arg_count:
        # a narrower signature: the arguments are what open_inner passes, expressed over the same symbolic configuration
        st, argv = {}, []
        for i_, v_ in enumerate(actuals):
            if body.local_ty(i_ + 1).startswith("&"):
                st, r_ = it.fresh_slot(st, v_)
                argv.append(r_)
            else:
                argv.append(v_)
        outs = it.run(body, argv, st)
    else:
        st, ref = it.fresh_slot({}, config)
        outs = it.run(body, [ref], st)
    return dom, it, body, outs


DESTROY = ("remove_dir_all", "remove_dir", "create_in_dir")


def open_index_verdicts(facts):
    """How open_index tells its caller whether the index must be rebuilt: {"kind": "tuple"} for (bool, Index), or
    {"kind": "enum", "path": .., "created": variant index, "reused": variant index} for a two-variant enum whose variants
    carry the index - which variant means what is read off open_index's own summary (the paths that create the index
    return one, the paths that open it the other).  None when neither shape is recognised."""
    cached = facts.__dict__.get("_oi_verdicts", "?")
    if cached != "?":
        return cached
    facts._oi_verdicts = None
    body = facts.fn("db::open_index")
    if body is None:
        return None
    rty = body.local_ty(0)
    if "(bool," in rty.replace(" ", "").replace("(bool,", "(bool,"):
        facts._oi_verdicts = {"kind": "tuple"}
        return facts._oi_verdicts
    try:
        dom, it, b_, outs = open_index_summary(facts)
    except _core.Undecided:
        return None
    created, reused, path = set(), set(), None
    for o in outs:
        v = o.value
        r = v.field(0) if o.kind == "ret" and isinstance(v, _Agg) and v.path == "std::result::Result" and v.vi == 0 else None
        if isinstance(r, _Agg) and r.kind == "adt" and r.vi is not None and facts.adt(r.path) is not None:
            path = r.path
            labels = [e[0] for e in dom.log(o.store)]
            (created if "create_in_dir" in labels else reused).add(r.vi)
    if path and len(created) == 1 and len(reused) == 1 and created != reused:
        facts._oi_verdicts = {"kind": "enum", "path": path, "created": next(iter(created)), "reused": next(iter(reused))}
    return facts._oi_verdicts


def verdict_flag(facts, r):
    """The rebuild flag an Ok value of open_index stands for: Const(True/False), a term, or None."""
    vd = open_index_verdicts(facts)
    if vd is None:
        return None
    if vd["kind"] == "tuple" and isinstance(r, _Agg) and r.kind == "tuple" and len(r.fields) == 2:
        return r.field(0)
    if vd["kind"] == "enum" and isinstance(r, _Agg) and r.path == vd["path"]:
        return _Const(r.vi == vd["created"])
    return None


def compared_equal(pc, *mentions):
    """Is there, on this path, an equality test (==, !=, possibly negated) whose operands mention all of `mentions`, decided
    'equal'?"""
    for p, b in pc:
        while isinstance(p, _T) and p.op == "Not" and len(p.args) == 1:
            p, b = p.args[0], not b
        if not (isinstance(p, _T) and p.op.startswith("call:")):
            continue
        eq = (p.op.endswith("::eq") and b is True) or (p.op.endswith("::ne") and b is False)
        if eq and all(m in repr(p) for m in mentions):
            return True
    return False


def r2_who_writes(facts, rep):
    rep.rule("C15-R2", "who-may-write: every file-system mutating call of the crate sits in open_index, in write_meta or in a helper "
                       "that only they (transitively) call; in the effect summary of open_index (helpers followed) remove_file acts "
                       "on the marker path and remove_dir_all / create_dir_all / open_in_dir / create_in_dir on the index path, and "
                       "write_meta creates the marker path; write_meta is called from open_inner only")
    from ..callgraph import CallGraph
    sites = census(facts, lambda n: n in FS_WRITE or (n.startswith("std::fs::") and any(
        w in n for w in ("remove", "create", "write", "rename", "copy", "set_"))))
    cg = CallGraph(facts)
    roots = {"db::open_index", "config::Config::write_meta"}
    callers = {}
    for p, outs in cg.edges.items():
        for q in outs:
            callers.setdefault(q, set()).add(p)
    for body, bid, t, sp, name in sites:
        # upward closure from the function, stopping at the two roots
        seen, work, escaped = set(), [body.path.split("::{closure")[0]], []
        while work:
            f = work.pop()
            if f in seen or f in roots:
                continue
            seen.add(f)
            cs = callers.get(f, set())
            if not cs:
                escaped.append(f)
            work.extend(cs)
        rep.ob("C15-R2", "%s:%s" % (body.path if body.path in roots else "helper", name), not escaped,
               "%s in %s is reached only through open_index / write_meta" % (name, body.path) if not escaped else
               "file-system mutation %s in %s can be reached from %s, outside open_index / write_meta" % (name, body.path, escaped[:3]),
               body.site(sp), sample={"fn": body.path, "call": name})
    rep.floor("C15-R2", "file-system mutation sites", len(sites), 3)
    cs = census(facts, lambda n: n == "config::Config::write_meta")
    # open_inner or a helper only it uses (the session summary, C15-R1/R6, follows them)
    oi_own = CallGraph(facts).exclusive("db::Db::open_inner")
    for body, bid, t, sp, name in cs:
        rep.ob("C15-R2", "caller-of-write_meta:%s" % body.path, body.path in oi_own,
               "write_meta is called from %s" % body.path, body.site(sp))
    rep.floor("C15-R2", "callers of write_meta", len(cs), 1)
    for body, bid, t, sp, name in census(facts, lambda n: n in ("tantivy::Index::create_in_dir", "tantivy::Index::open_in_dir")):
        top = body.path.split("::{closure")[0]
        okc = top == "db::open_index" or (callers.get(top) and all(c in roots or c == "db::open_index" for c in callers.get(top, ())))
        rep.ob("C15-R2", "index-dir:%s" % name.split("::")[-1], bool(okc), "%s is called from %s" % (name, body.path), body.site(sp))
    # operands, from the summaries
    if anchor(rep, "C15-R2", facts, "db::open_index") is None:
        return
    try:
        dom, it, body, outs = open_index_summary(facts)
    except _core.Undecided as e:
        rep.ob("C15-R2", "open_index:summary", False, "undecided: %s" % e)
        return
    want = {"remove_file": "config.meta_path", "remove_dir_all": "config.index_path", "create_dir_all": "config.index_path",
            "open_in_dir": "config.index_path", "create_in_dir": "config.index_path"}
    seen = {}
    for o in outs:
        for e in dom.log(o.store):
            if e[0] in ("fail",):
                continue
            arg = repr(e[1]) if len(e) > 1 else "?"
            seen.setdefault(e[0], set()).add(arg)
    for lab, args in sorted(seen.items()):
        w = want.get(lab)
        rep.ob("C15-R2", "operand:%s" % lab, w is not None and args == {w},
               "%s acts on %s%s" % (lab, sorted(args), "" if w is None else " (specified %s)" % w), body.site(), sample={"effect": lab, "operands": sorted(args)})
    rep.floor("C15-R2", "effects of open_index", len(seen), 4)


def r3_invalidate_before_destroy(facts, rep):
    rep.rule("C15-R3", "invalidate before destroy: on every path of open_index's effect summary (helpers followed) the removal of "
                       "the marker file precedes remove_dir_all and Index::create_in_dir, so a crash while the index is being rebuilt "
                       "can never leave a marker that declares an incomplete index current; the index is created only in a "
                       "directory that was wiped on that path or seen absent (a damaged index is replaced, not tripped over); (false, index) is returned only on paths "
                       "where the stored version was compared equal to this build's and open_in_dir succeeded, with no mutation")
    if anchor(rep, "C15-R3", facts, "db::open_index") is None:
        return
    try:
        dom, it, body, outs = open_index_summary(facts)
    except _core.Undecided as e:
        rep.ob("C15-R3", "open_index:summary", False, "undecided: %s" % e)
        return
    rep.count("open_index paths", len(outs))
    bad = {}
    def presence(p_):
        r_ = repr(p_)
        return "index_path" in r_ and any(w in r_ for w in ("is_dir", "exists", "metadata", "is_file"))
    wipe_side = {}
    for o in outs:
        if o.kind == "ret" and any(e[0] == "remove_dir_all" for e in dom.log(o.store)):
            for p_, b_ in dom.pc(o.store):
                if presence(p_):
                    wipe_side.setdefault(repr(p_), set()).add(b_)
    n_destroy = 0
    n_create = 0
    dirty = []
    n_reuse = 0
    badr = []
    MUTATIONS = ("remove_file", "remove_dir_all", "remove_dir", "create_dir_all", "create_dir", "create_in_dir")
    unrecovered = []
    for o in outs:
        if o.kind != "ret":
            bad.setdefault("panic", []).append("%s %s" % (o.kind, o.value))
            continue
        log = dom.log(o.store)
        labels = [e[0] for e in log]
        v_ = o.value
        if isinstance(v_, _Agg) and v_.path == "std::result::Result" and v_.vi == 1:
            # open_index gives up only when the file system refuses a change: an index that cannot be opened is replaced
            fails_ = [e[1] for e in log if e[0] == "fail" and len(e) > 1]
            if not fails_ or fails_[-1] not in MUTATIONS:
                unrecovered.append("returns an error after %s (effects %s)" % (fails_[-1:] or "no failed effect", labels))
        for i, lab in enumerate(labels):
            if lab in DESTROY:
                n_destroy += 1
                inv = [k for k in range(i) if labels[k] == "remove_file" and "config.meta_path" in repr(log[k][1])]
                if not inv:
                    bad.setdefault(lab, []).append("effects %s" % labels)
                if lab == "create_in_dir":
                    # the index is created in a directory that holds no older index: it was wiped on this path, or seen absent
                    n_create += 1
                    wiped = "remove_dir_all" in labels[:i]
                    # "seen absent": a test of the directory's presence came out the other way than on the paths that wipe
                    # it (is_dir() false, fs::metadata() failing or not a directory, exists() false ...)
                    absent = any(presence(p_) and (not b_) in wipe_side.get(repr(p_), ()) and b_ not in wipe_side.get(repr(p_), ())
                                 for p_, b_ in dom.pc(o.store))
                    if not (wiped or absent):
                        dirty.append("effects %s with the directory %s" % (labels, "present" if any(
                            presence(p_) and b_ in wipe_side.get(repr(p_), ()) for p_, b_ in dom.pc(o.store)) else "not looked at"))
        v = o.value
        r = v.field(0) if isinstance(v, _Agg) and v.path == "std::result::Result" and v.vi == 0 else None
        flag = verdict_flag(facts, r) if r is not None else None
        if flag is not None:
            index_v = r.field(1) if r.kind == "tuple" else r.field(0)
            pc = dom.pc(o.store)
            if flag == _Const(False):
                n_reuse += 1
                veq = compared_equal(pc, "meta.version", "config.this_version")
                opened = "open_in_dir" in labels and ("fail", "open_in_dir") not in log
                mutated = [l for l in labels if l in DESTROY or l in ("remove_file", "create_dir_all")]
                if not (veq and opened and not mutated and index_v != _Sym("nothing")):
                    badr.append("(false, index) with version-equal=%s, open_in_dir ok=%s, mutations=%s" % (veq, opened, mutated))
            elif flag == _Const(True):
                if "create_in_dir" not in labels:
                    badr.append("(true, index) without re-creating the index (effects %s)" % labels)
            else:
                badr.append("the rebuild flag returned is %r" % (flag,))
    for lab in DESTROY:
        if lab in bad or any(lab in [e[0] for e in dom.log(o.store)] for o in outs):
            rep.ob("C15-R3", "before:%s" % lab, lab not in bad,
                   "%s is %spreceded on every path by the removal of the marker file%s" % (lab, "" if lab not in bad else "NOT ", "" if lab not in bad else ": " + bad[lab][0]),
                   body.site(), sample={"site": lab})
    rep.ob("C15-R3", "open-failure-is-recovered", not unrecovered,
           "open_index fails only where removing or creating files fails; an index that cannot be opened is rebuilt" if not unrecovered else
           "a start is lost for good: open_index " + unrecovered[0], body.site())
    if n_create:
        rep.ob("C15-R3", "create-in-clean-directory", not dirty,
               "Index::create_in_dir runs only after the old directory was wiped or seen absent (%d path(s))" % n_create if not dirty else
               "Index::create_in_dir can meet the old index (it fails with 'index already exists' and the start is lost): " + dirty[0],
               body.site())
    if "panic" in bad:
        rep.ob("C15-R3", "open_index:no-panic", False, bad["panic"][0], body.site())
    rep.floor("C15-R3", "index destruction / re-creation effects on open_index paths", n_destroy, 2)
    rep.ob("C15-R4", "open_index:(false,index)", not badr and n_reuse >= 1, "; ".join(sorted(set(badr))[:3]) if badr else
           "(false, index) only behind version equality and a successful open_in_dir, without any mutation (%d path(s))" % n_reuse, body.site())


def r4_trust_conditions(facts, rep):
    rep.rule("C15-R4", "a damaged marker cannot abort start-up (config::open fails only when no data directory exists; "
                       "try_read returns None on every failure and cannot panic); (false, index) is returned only behind "
                       "version equality and a successful open_in_dir; the rebuild flag is hash mismatch/absence OR "
                       "index_rebuild, and the rebuild block is skipped only when it is false")
    co = anchor(rep, "C15-R4", facts, "config::open")
    tr = anchor(rep, "C15-R4", facts, "config::try_read")
    oi = anchor(rep, "C15-R4", facts, "db::open_index")
    inner = anchor(rep, "C15-R4", facts, "db::Db::open_inner")
    if co is not None:
        fails = []
        for bid, t, sp, name in flow.calls_named(co, lambda n: "FromResidual" in n and n.endswith("from_residual")):
            # which call's failure feeds this residual?
            srcs = {l[1] for l in flow.slice_back(co, t["args"][0]) if l[0] == "call"}
            fails.append((bid, sp, srcs))
        for bid, sp, srcs in fails:
            okk = all("ok_or_else" in s or "ProjectDirs" in s for s in srcs) and srcs
            rep.ob("C15-R4", "config::open:error-source:%s" % ",".join(sorted(s.split("::")[-1] for s in srcs)), bool(okk),
                   "config::open returns an error that comes from %s" % sorted(srcs), co.site(sp))
        errs = [s for b, i, s in co.stmts() if s["place"]["local"] == 0 and s["rv"]["k"] == "aggregate"
                and s["rv"]["kind"].get("variant") == "Err"]
        rep.ob("C15-R4", "config::open:no-explicit-err", not errs, "config::open constructs %d explicit Err value(s)" % len(errs),
               co.site())
        pan = _panics(co)
        rep.ob("C15-R4", "config::open:no-panic", not pan, "panicking calls in config::open: %s" % pan, co.site())
        rep.count("functions")
    if tr is not None:
        rep.ob("C15-R4", "try_read:returns-option", tr.local_ty(0).startswith("std::option::Option<"),
               "try_read returns %s" % tr.local_ty(0), tr.site())
        pan = _panics(tr)
        rep.ob("C15-R4", "try_read:no-panic", not pan, "panicking calls in try_read: %s" % pan, tr.site())
        rep.count("functions")


def _panics(body):
    out = []
    for b, t, sp, name in body.calls():
        if name.startswith("core::panicking::") or name.startswith("std::rt::begin_panic") or \
                name.endswith("::unwrap") or name.endswith("::expect") or "unwrap_failed" in name or "expect_failed" in name:
            if not any("debug_assert" in m for m in sp["macros"]):
                out.append("%s@%d" % (name, sp["line"]))
    for b, t, sp in body.terms():
        if t["k"] == "assert" and not sp["macros"]:
            if "Overflow" in t["msg"] or "overflow" in t["msg"]:
                continue
            if "MisalignedPointer" in t["msg"] or "NullPointer" in t["msg"]:
                continue
            out.append("assert(%s)@%d" % (t["msg"][:30], sp["line"]))
    return out


def _only_when_versions_equal(body, open_bid, facts):
    """open_in_dir's block is reachable only through the false edge of a switch on a flag whose definitions are
    `const true` and `ne(stored version, this_version)`."""
    cfg = body.cfg
    for b, t, sp in body.terms():
        if t["k"] != "switch":
            continue
        f = None
        for v, x in t["targets"]:
            if int(v) == 0:
                f = x
        if f is None or open_bid not in cfg.blocks_only_via_edge(b["id"], f):
            continue
        leaves = flow.slice_back(body, t["discr"], facts=facts)
        kinds = set()
        for l in leaves:
            if l[0] == "const":
                kinds.add("const:%s" % l[1])
            elif l[0] == "call" and l[1].endswith("::ne"):
                ct = body.blocks[l[2]]["term"]["t"]
                fields = set()
                for a in ct["args"]:
                    for fo in flow.field_origins(body, a):
                        fields.add(fo[-1])
                kinds.add("ne(%s)" % ",".join(sorted(fields)))
            else:
                kinds.add(str(l[:2]))
        if kinds == {"const:1", "ne(this_version,version)"}:
            return True
    return False


def _rebuild_flag(body, facts, rep):
    cfg = body.cfg
    writers = flow.calls_named(body, lambda n: n.startswith("tantivy::Index::writer"))
    rep.floor("C15-R4", "writer creation in open_inner", len(writers), 1)
    for wb, wt, wsp, _ in writers[:1]:
        # the switch that guards the rebuild block
        guard = None
        for b, t, sp in body.terms():
            if t["k"] != "switch":
                continue
            tr = t["otherwise"]
            if wb in cfg.blocks_only_via_edge(b["id"], tr) and F.op_local(t["discr"]) is not None:
                nm = body.local_name(F.op_local(t["discr"]))
                leaves = flow.slice_back(body, t["discr"], facts=facts)
                guard = (b["id"], leaves, sp)
        if not rep.ob("C15-R4", "rebuild-guard", guard is not None, "the rebuild block is entered through one boolean guard",
                      body.site(wsp)):
            return
        kinds = set()
        for l in guard[1]:
            if l[0] == "const":
                kinds.add("const:%s" % l[1])
            elif l[0] == "call" and l[1].endswith("::ne"):
                ct = body.blocks[l[2]]["term"]["t"]
                srcs = set()
                for a in ct["args"]:
                    for fo in flow.field_origins(body, a):
                        srcs.add(fo[-1])
                    for l2 in flow.slice_back(body, a, facts=facts):
                        if l2[0] == "call" and not any(v in l2[1] for v in flow.VIEW_CALLS):
                            srcs.add(l2[1].split("::")[-1])
                kinds.add("ne(%s)" % ",".join(sorted(srcs)))
            elif l[0] == "call" and l[1] == "db::open_index":
                kinds.add("open_index.0")
            elif l[0] == "param":
                kinds.add("param:%s" % (l[2],))
            else:
                kinds.add(str(l[:2]))
        want = {"const:1", "ne(database_hash,hash_assets)", "open_index.0"}
        rep.ob("C15-R4", "rebuild-flag-sources", kinds == want,
               "the rebuild flag is computed from %s (expected %s)" % (sorted(kinds), sorted(want)), body.site(guard[2]),
               sample={"sources": sorted(kinds)})
        # skipping the rebuild block must require the flag to be false: the false edge is the only way around
        m, other = cfg.switch_targets(guard[0])
        rep.ob("C15-R4", "rebuild-guard-polarity", 0 in m and wb not in cfg.reachable_from(m[0], avoid={guard[0]}),
               "the writer is unreachable when the rebuild flag is false", body.site(guard[2]))


def r5_in_memory(facts, rep):
    rep.rule("C15-R5", "with in_memory set, open_index and write_meta are unreachable (in-memory sessions never write "
                       "to the data directory)")
    body = anchor(rep, "C15-R5", facts, "db::Db::open_inner")
    if body is None:
        return
    cfg = body.cfg
    pm = in_mem_param(body)
    psw = param_bool_switches(body, pm) if pm else []
    rep.floor("C15-R5", "switches on in_memory", len(psw), 1)
    for name in ("db::open_index", "config::Config::write_meta"):
        for bid, t, sp, _ in flow.calls_named(body, lambda n, c=name: n == c):
            good = any(f is not None and bid in cfg.blocks_only_via_edge(sw, f) for sw, f, tr in psw)
            rep.ob("C15-R5", "not-in-memory:%s" % name, good,
                   "%s is %sreachable only when in_memory is false" % (name, "" if good else "NOT "), body.site(sp))
    # the two public constructors pass the constants
    for fn, want in (("db::Db::in_memory", 1), ("db::Db::open", 0)):
        b2 = facts.fn(fn)
        if b2 is None:
            rep.ob("C15-R5", "anchor:" + fn, False, "anchor %s not found" % fn)
            continue
        for bid, t, sp, _ in flow.calls_named(b2, lambda n: n == "db::Db::open_inner"):
            v = F.const_val(t["args"][0]) if t["args"][0]["k"] == "const" else None
            rep.ob("C15-R5", "ctor:%s" % fn, v == want, "%s calls open_inner(%s)" % (fn, v), b2.site(sp))


def run(fx, rep, tier):
    rep.assume("tantivy's commit is atomic: after a crash the index directory holds either the previous or the new "
               "committed state (trusted)")
    for cfg, facts in fx.items():
        sub = rep if cfg == "dev" else type(rep)(rep.prop, rep.tier)
        r1_marker_after_commit(facts, sub)
        r2_who_writes(facts, sub)
        r3_invalidate_before_destroy(facts, sub)
        r4_trust_conditions(facts, sub)
        r5_in_memory(facts, sub)
        r6_session(facts, sub)
        r7_hash_covers(facts, sub)
        if sub is not rep:
            for o in sub.obls:
                o["key"] += "[rel]"
                rep.obls.append(o)


# ---- R6: session summary of Db::open_inner -------------------------------------------------------------


def open_inner_summary(facts, in_memory):
    body = facts.fn("db::Db::open_inner")
    cfg_adt = facts.adt("config::Config")
    meta_adt = facts.adt("config::Meta")
    mfields = [f["name"] for f in meta_adt["variants"][0]["fields"]]
    cfields = [f["name"] for f in cfg_adt["variants"][0]["fields"]]
    meta = _Agg("adt", "config::Meta", 0, "Meta", [_Sym("meta." + f) for f in mfields])
    config = _Agg("adt", "config::Config", 0, "Config", [meta if f == "meta" else _Sym("config." + f) for f in cfields])

    def oracle(dom, it, name, args, vals, store):
        if name == "config::open":
            return [(_ok(config), store), (_err(_Sym("config_error")), dom.with_log(store, ("fail", "config")))]
        if name == "config::Config::hash_assets":
            return [(_Sym("hash"), store)]
        if name == "db::open_index":
            # what open_index is shown: the marker as it was read (it decides from the stored version)
            seen_meta = None
            for v_ in vals:
                if isinstance(v_, _Agg) and v_.path == "config::Config" and "meta" in cfields:
                    seen_meta = v_.field(cfields.index("meta"))
                elif isinstance(v_, _Agg) and v_.path == "config::Meta":
                    seen_meta = v_
            st = dom.with_log(store, ("open_index", seen_meta) if seen_meta is not None else ("open_index",))
            vd = open_index_verdicts(facts)
            if vd is not None and vd["kind"] == "enum":
                adt_ = facts.adt(vd["path"])
                outs_ = []
                for flag_, key_ in ((True, "created"), (False, "reused")):
                    vi_ = vd[key_]
                    val_ = _Agg("adt", vd["path"], vi_, adt_["variants"][vi_]["name"], (_Sym("disk_index"),))
                    outs_.append((_ok(val_), dom.with_pc(st, _Sym("index_rebuild"), flag_)))
                return outs_ + [(_err(_Sym("open_index_error")), dom.with_log(st, ("fail", "open_index")))]
            tup = _Agg("tuple", None, None, None, (_Sym("index_rebuild"), _Sym("disk_index")))
            return [(_ok(tup), st), (_err(_Sym("open_index_error")), dom.with_log(st, ("fail", "open_index")))]
        if name == "config::Config::assets":
            return [(_IterV([_Sym("asset0"), _Sym("asset1")]), store)]
        if name.endswith("::with_context") or name.endswith(">::context"):
            return [(vals[0], store)]
        if name in ("log::max_level",):
            return [(_Sym("log_level"), store)]
        if name == "std::cmp::PartialOrd::le" and any(isinstance(v, _Sym) and v.name == "log_level" for v in vals):
            return [(_Const(False), store)]
        return None

    effects = {
        "tantivy::Index::create_in_ram": ("create_in_ram", "value"),
        "tantivy::tokenizer::TokenizerManager::register": ("register", "unit"),
        "tantivy::Index::writer": ("writer", "fallible-value"),
        "tantivy::Index::writer_with_num_threads": ("writer", "fallible-value"),
        "tantivy::IndexWriter::delete_all_documents": ("delete_all", "fallible-value"),
        "db::Db::load_bytes": ("load", "fallible"),
        "tantivy::IndexWriter::commit": ("commit", "fallible-value"),
        "tantivy::IndexReader::reload": ("reload", "fallible"),
        "config::Config::write_meta": ("write_meta", "fallible"),
        "db::load_bytes": ("load_sources", "fallible-value"),
        "tantivy::IndexReaderBuilder::try_into": ("reader", "fallible-value"),
    }
    dom = _EffectDomain(effects, oracle=oracle)
    # helpers that only open_inner uses (a split-off rebuild / load_assets / register_tokenizers ...) are followed;
    # everything else that is not an effect or summarised above stays an uninterpreted term
    from ..callgraph import CallGraph as _CG
    own = {p for p in _CG(facts).exclusive("db::Db::open_inner") if facts.fn(p) is not None and facts.fn(p).file == body.file}
    dom.uninterp = lambda n: n not in own
    it = _core.Interp(facts, dom, budget=300000)
    outs = it.run(body, [_Const(bool(in_memory))], {})
    return dom, it, body, outs


def r6_session(facts, rep, rule="C15-R6"):
    rep.rule(rule, "path summary of Db::open_inner for in_memory in {true, false} over a symbolic configuration with two "
                   "assets: an in-memory session always builds (create_in_ram, register, writer, delete_all, load*, commit, "
                   "reload) and never touches open_index / write_meta; an on-disk session skips the build only when the stored "
                   "hash equals this build's hash AND open_index reported no rebuild, and otherwise performs open_index, "
                   "register, writer, delete_all, load*, commit, reload, write_meta in this order; Ok(db) is returned only "
                   "at the end of such a sequence")
    if facts.fn("db::Db::open_inner") is None:
        rep.ob(rule, "anchor:db::Db::open_inner", False, "anchor not found")
        return
    for in_memory in (True, False):
        try:
            dom, it, body, outs = open_inner_summary(facts, in_memory)
        except _core.Undecided as e:
            rep.ob(rule, "open_inner:in_memory=%s" % in_memory, False, "undecided: %s" % e)
            continue
        rep.count("open_inner paths(in_memory=%s)" % in_memory, len(outs))
        n_ok = 0
        seen = set()
        for o in outs:
            if o.kind != "ret":
                rep.ob(rule, "panic:in_memory=%s:%s" % (in_memory, o.site), False, "open_inner can end in %s: %s" % (o.kind, o.value), o.site)
                continue
            v = o.value
            if not (isinstance(v, _Agg) and v.path == "std::result::Result" and v.vi == 0):
                continue
            log = [e for e in dom.log(o.store)]
            if any(e[0] == "fail" for e in log):
                rep.ob(rule, "ok-after-failure:in_memory=%s" % in_memory, False,
                       "Ok(db) is returned although %s failed" % [e[1] for e in log if e[0] == "fail"], o.site)
                continue
            n_ok += 1
            for e in log:
                if e[0] == "open_index" and len(e) > 1:
                    m_ = e[1]
                    stored = isinstance(m_, _Agg) and all(isinstance(x, _Sym) and x.name.startswith("meta.") for x in m_.fields)
                    key = "open_index-sees-stored-marker" + ("" if stored else ":%r" % (m_,))
                    if key not in seen:
                        seen.add(key)
                        rep.ob(rule, key[:160], stored,
                               "open_index decides from the marker as it was read from disk" if stored else
                               "open_index is shown a marker that was already changed in memory: %r" % (m_,), body.site())
            # every session that starts serves the sources: they are loaded whenever the assets have a sources file, and
            # the database handed out holds what was loaded
            src_absent = any(isinstance(p_, _T) and "get_asset" in repr(p_) and "sources" in repr(p_).lower() and
                             ((p_.op == "==" and p_.args[-1] == _Const(1) and b_ is False) or
                              (p_.op == "==" and p_.args[-1] == _Const(0) and b_ is True))
                             for p_, b_ in dom.pc(o.store))
            has_src = any(e[0] == "load_sources" for e in log)
            dbv = v.field(0)
            dadt = facts.adt("db::Db")
            held = None
            if isinstance(dbv, _Agg) and dadt is not None:
                for fi, f_ in enumerate(dadt["variants"][0]["fields"]):
                    if f_["ty"] == "db::Sources":
                        held = dbv.field(fi)
            holds = held is None or not has_src or "load_bytes" in repr(held)
            key = "sources-loaded:in_memory=%s" % in_memory
            good_ = (has_src or src_absent) and holds
            if not good_:
                key += ":" + ",".join(e[0] for e in log if e[0] != "load")
            if key not in seen:
                seen.add(key)
                rep.ob(rule, key, (has_src or src_absent) and holds,
                       "a session that starts has loaded the sources file (or the assets have none) and its database holds them"
                       if (has_src or src_absent) and holds else
                       "a session starts with effects %s: sources %s" % ([e[0] for e in log], "loaded but not kept in the database" if has_src else "never loaded"),
                       body.site())
            labels = [e[0] for e in log if e[0] not in ("load_sources", "reader")]
            core_seq = [l for l in labels if l != "load"]
            built = "writer" in labels
            if in_memory:
                want = ["create_in_ram", "register", "writer", "delete_all", "commit", "reload"]
                key = "in-memory:%s" % ",".join(core_seq)
                if key in seen:
                    continue
                seen.add(key)
                rep.ob(rule, key, core_seq == want,
                       "an in-memory session performs %s%s" % (core_seq, "" if core_seq == want else " (expected %s)" % want),
                       body.site(), sample={"in_memory": True, "effects": labels})
            else:
                if built:
                    want = ["open_index", "register", "writer", "delete_all", "commit", "reload", "write_meta"]
                    key = "on-disk-build:%s" % ",".join(core_seq)
                    if key in seen:
                        continue
                    seen.add(key)
                    rep.ob(rule, key, core_seq == want,
                           "a rebuilding on-disk session performs %s%s" % (core_seq, "" if core_seq == want else " (expected %s)" % want),
                           body.site(), sample={"in_memory": False, "effects": labels})
                else:
                    # skipped: needs hash equality and index_rebuild == false on the path
                    pc = dom.pc(o.store)
                    ir = dom.decide(o.store, _Sym("index_rebuild"))
                    ne_false = compared_equal(pc, "meta.database_hash", "hash") and compared_equal(
                        [(p, b) for p, b in pc if "hash" in repr(p).replace("meta.database_hash", "")], "meta.database_hash")
                    okk = core_seq == ["open_index", "register"] and ir is False and ne_false
                    key = "on-disk-skip:%s:index_rebuild=%s:hash_differs_decided_false=%s" % (",".join(core_seq), ir, ne_false)
                    if key in seen:
                        continue
                    seen.add(key)
                    rep.ob(rule, key, okk,
                           "an on-disk session skips the build with effects %s where index_rebuild=%s and the stored hash %s" % (
                               core_seq, ir, "equals this build's" if ne_false else "was NOT compared equal"),
                           body.site(), sample={"in_memory": False, "effects": labels})
            # loads: between delete_all and commit
            if built:
                i0 = labels.index("delete_all") if "delete_all" in labels else -1
                i1 = labels.index("commit") if "commit" in labels else -1
                pos = [i for i, l in enumerate(labels) if l == "load"]
                good = all(i0 < i < i1 for i in pos) and i0 >= 0 and i1 >= 0
                key = "loads-between-delete-and-commit:in_memory=%s" % in_memory
                if not good or key not in seen:
                    seen.add(key)
                    rep.ob(rule, key, good, "asset loads happen between delete_all_documents and commit", body.site())
        rep.ob(rule, "has-ok-path:in_memory=%s" % in_memory, n_ok >= 1, "%d successful path(s)" % n_ok, body.site())


# ---- R7: what the marker's hash covers -------------------------------------------------------------------


def r7_hash_covers(facts, rep, rule="C15-R7"):
    rep.rule(rule, "the hash that decides 'written for other data' covers the data: effect summary of Config::hash_assets over "
                   "two symbolic asset names - this build's version is fed to the hasher, and for every asset that exists its "
                   "name and its content (digest or bytes, not only a length) are fed too, whatever the name is (no asset is "
                   "filtered out); the result is the hasher's final value")
    b = anchor(rep, rule, facts, "config::Config::hash_assets")
    if b is None:
        return
    cfg_adt = facts.adt("config::Config")
    cfields = [f["name"] for f in cfg_adt["variants"][0]["fields"]]
    config = _Agg("adt", "config::Config", 0, "Config", [_Sym("config." + f) for f in cfields])
    names = ("asset0", "asset1")

    def oracle(dom, it, name, args, vals, store):
        if "Asset" in name and name.endswith("::iter"):
            return [(_IterV([_Sym(n) for n in names]), store)]
        if name == "config::Config::assets":
            return [(_IterV([_Sym(n) for n in names]), store)]
        if "Asset" in name and name.endswith("::get") or name == "config::Config::get_asset":
            return [(_T("call:asset-get", *[v for v in vals if not (isinstance(v, _Agg) and v.path == "config::Config")]), store)]
        return None
    dom = _EffectDomain({(lambda n: "Hasher" in n and "::write" in n): ("hash-write", "unit"),
                         (lambda n: "Hasher" in n and "::update" in n): ("hash-write", "unit")}, oracle=oracle)
    dom.uninterp = lambda n: facts.fn(n) is None or "Asset" in n
    it = _core.Interp(facts, dom, budget=100000)
    st, ref = it.fresh_slot({}, config)
    try:
        outs = it.run(b, [ref], st)
    except _core.Undecided as e:
        rep.ob(rule, "summary", False, "undecided: %s" % e, b.site())
        return
    rep.count("hash_assets paths", len(outs))
    bad = []
    n_cov = 0
    for o in outs:
        if o.kind != "ret":
            bad.append("hash_assets can end in %s" % o.kind)
            continue
        writes = [repr(e[2:]) if len(e) > 2 else "" for e in dom.log(o.store) if e[0] == "hash-write"]
        pc = dom.pc(o.store)
        if not any("config.this_version" in w and not w.startswith("(call:core::str::<impl str>::len(") for w in writes):
            bad.append("this build's version is not fed to the hasher")
        if "finish" not in repr(o.value):
            bad.append("the result is %s, not the hasher's final value" % repr(o.value)[:80])
        for nm in names:
            absent = any(isinstance(p_, _T) and "asset-get" in repr(p_) and nm in repr(p_) and
                         ((p_.op == "==" and p_.args[-1] == _Const(1) and b_ is False) or (p_.op == "==" and p_.args[-1] == _Const(0) and b_ is True))
                         for p_, b_ in pc)
            if absent:
                continue
            w_name = [w for w in writes if nm in w and "asset-get" not in w and not w.startswith("(call:core::slice::<impl [T]>::len(")
                      and not w.startswith("(call:core::str::<impl str>::len(")]
            w_data = [w for w in writes if nm in w and "asset-get" in w and not w.startswith("(call:core::slice::<impl [T]>::len(")]
            if w_name and w_data:
                n_cov += 1
            else:
                bad.append("an asset that exists (%s) is not covered: %s" % (nm, "name not hashed" if not w_name else "content not hashed"))
    rep.floor(rule, "assets covered on hash_assets paths", n_cov, 2)
    rep.ob(rule, "hash-covers-version-and-every-asset", not bad, "; ".join(sorted(set(bad))[:3]) if bad else
           "version, and for every existing asset its name and content, reach the hasher on all %d path(s)" % len(outs), b.site())
