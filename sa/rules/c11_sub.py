"""C11: subtractions on unsigned integers.

An addition or multiplication overflows only with magnitudes the property's bounds exclude; a subtraction on an unsigned
type underflows with *small* values (`exp - dots`, `limit - used`), so its compiler-inserted assertion is a crash the
bounds do not excuse.  Every such assertion in reachable hand-written code is looked at: it is discharged when the block
is reached only through the edge of a comparison that makes the minuend at least the subtrahend (`while n > 0 { n -= 1 }`,
`b'0'..=b'9' => b - b'0'`); when the operands are at least compared somewhere in the function the guard is taken to be
there in a form this rule does not follow (a flag set inside a guarded loop) and nothing is reported; a subtraction whose
operands are never compared at all (`exp - dots`) is reported, unless it is a frozen exception with its reason."""
from .. import facts as F
from .. import flow

UNSIGNED = ("u8", "u16", "u32", "u64", "u128", "usize")

# (function path, description of the operands) -> reason.  The invariant is decided elsewhere.
EXCEPTIONS = {
    ("rational::display::Display::<'a>::format_big", "var-var"):
        "limit - used: the whole-part digit loop keeps used <= limit (C08-R6: budget n = limit - used, left at n = 0)",
}


def _same_source(body, defs, o1, o2):
    """Do two operands read the same value: the same constant, or copies of the same place with no write in between
    (approximated: the same local, or locals defined once as a copy of the same local)."""
    if o1["k"] == "const" and o2["k"] == "const":
        return o1.get("val") == o2.get("val") and o1.get("ty") == o2.get("ty")
    if o1["k"] not in ("copy", "move") or o2["k"] not in ("copy", "move"):
        return False

    def root(o):
        p = o["place"]
        seen = set()
        while not p["proj"]:
            n = p["local"]
            if n in seen:
                break
            seen.add(n)
            ds = defs.whole(n)
            if len(ds) == 1 and ds[0][0] == "assign" and ds[0][3]["rv"]["k"] == "use" and ds[0][3]["rv"]["op"]["k"] in ("copy", "move"):
                p = ds[0][3]["rv"]["op"]["place"]
                continue
            break
        return F.place_key(p)
    return root(o1) == root(o2)


def _const_int(o):
    if o["k"] != "const":
        return None
    try:
        return int(o.get("val"))
    except (TypeError, ValueError):
        return None


def guarded(body, blk, a, b):
    """Is `a - b` (unsigned) reached only where a >= b was established by a dominating comparison of the same operands?"""
    cfg = body.cfg
    defs = flow.Defs(body)
    bid = blk["id"]
    for x in sorted(cfg.dom[bid]):
        t = body.blocks[x]["term"]["t"]
        if t["k"] != "switch":
            continue
        d = t["discr"]
        if d["k"] not in ("copy", "move") or d["place"]["proj"]:
            # `match b { 48..=57 => .. }` switches on range tests computed into a bool local; other shapes: skip
            continue
        ds = defs.whole(d["place"]["local"])
        if len(ds) != 1 or ds[0][0] != "assign" or ds[0][3]["rv"]["k"] != "binop":
            continue
        rv = ds[0][3]["rv"]
        op, l, r = rv["op"], rv["a"], rv["b"]
        if op not in ("Lt", "Le", "Gt", "Ge", "Ne", "Eq"):
            continue
        m, other = cfg.switch_targets(x)
        false_t, true_t = m.get(0), other
        for want, tgt in ((True, true_t), (False, false_t)):
            if tgt is None or not (tgt == bid or bid in cfg.blocks_only_via_edge(x, tgt)):
                continue
            # which facts does (op, want) give about l and r?
            ge = None  # (big, small, strict)
            if (op, want) in (("Ge", True), ("Lt", False)):
                ge = (l, r, False)
            elif (op, want) in (("Gt", True), ("Le", False)):
                ge = (l, r, True)
            elif (op, want) in (("Le", True), ("Gt", False)):
                ge = (r, l, False)
            elif (op, want) in (("Lt", True), ("Ge", False)):
                ge = (r, l, True)
            elif (op, want) in (("Ne", True), ("Eq", False)):
                # x != 0 for unsigned x means x >= 1
                for p_, q_ in ((l, r), (r, l)):
                    if _const_int(q_) == 0 and _same_source(body, defs, p_, a) and _const_int(b) is not None and _const_int(b) <= 1:
                        return True
                continue
            if ge is None:
                continue
            big, small, strict = ge
            if _same_source(body, defs, big, a):
                if _same_source(body, defs, small, b):
                    return True
                cs, cb = _const_int(small), _const_int(b)
                if cs is not None and cb is not None and cs + (1 if strict else 0) >= cb:
                    return True
    return False


def _norm_place(body, defs, o, depth=0):
    """A place operand with the temporaries it goes through inlined: `_5 = copy (*_1).1; (*_5).0` is `(*(*_1).1).0`."""
    if o["k"] not in ("copy", "move"):
        return None
    p = o["place"]
    base, proj = p["local"], list(p["proj"])
    for _ in range(8):
        ds = defs.whole(base)
        if len(ds) == 1 and ds[0][0] == "assign":
            rv = ds[0][3]["rv"]
            src = None
            if rv["k"] == "use" and rv["op"]["k"] in ("copy", "move"):
                src = rv["op"]["place"]
            elif rv["k"] == "ref":
                src = {"local": rv["place"]["local"], "proj": rv["place"]["proj"]}
                # a reference: the deref that follows cancels it
                if proj and proj[0]["k"] == "deref":
                    proj = proj[1:]
                else:
                    src = None
            if src is not None:
                base, proj = src["local"], list(src["proj"]) + proj
                continue
        break
    return F.place_key({"local": base, "proj": proj})


def compared_somewhere(body, a, b):
    """Is the minuend compared anywhere in the function with the subtrahend, or (for a constant subtrahend) with a constant?
    A guard that does not dominate syntactically (a flag set inside a guarded loop, a helper's result) still shows up here."""
    defs = flow.Defs(body)
    ka, kb = _norm_place(body, defs, a), _norm_place(body, defs, b)
    cb = _const_int(b)
    for blk, i, st in body.stmts():
        rv = st["rv"]
        if rv["k"] != "binop" or rv["op"] not in ("Lt", "Le", "Gt", "Ge", "Eq", "Ne"):
            continue
        kl, kr = _norm_place(body, defs, rv["a"]), _norm_place(body, defs, rv["b"])
        cl, cr = _const_int(rv["a"]), _const_int(rv["b"])
        for x, y, cy in ((kl, kr, cr), (kr, kl, cl)):
            if ka is not None and x == ka:
                if kb is not None and y == kb:
                    return True
                if cb is not None and cy is not None:
                    return True
    # a `match` on the minuend itself (`b'0'..=b'9' =>`, `0 => ..`) is a comparison with constants
    for blk, t, sp in body.terms():
        if t["k"] == "switch" and ka is not None and _norm_place(body, defs, t["discr"]) == ka and cb is not None:
            return True
    return False


def sites(body):
    """(block, span, operand a, operand b, type) of every unsigned checked subtraction of a body."""
    out = []
    for blk, t, sp in body.terms():
        if t["k"] != "assert" or not t["msg"].startswith("Overflow(Sub"):
            continue
        for st in reversed(blk["stmts"]):
            if st["k"] == "assign" and st["rv"]["k"] == "binop" and st["rv"]["op"] == "SubWithOverflow":
                ty = body.local_ty(st["place"]["local"]).strip("()").split(",")[0].strip()
                if ty in UNSIGNED:
                    out.append((blk, sp, st["rv"]["a"], st["rv"]["b"], ty))
                break
    return out


def check(facts, rep, bodies, rule="C11-R1"):
    n = 0
    for p, body in sorted(bodies.items()):
        seen = {}
        for blk, sp, a, b, ty in sites(body):
            n += 1
            descr = "%s-%s" % ("const" if a["k"] == "const" else "var", ("const%s" % b.get("val")) if b["k"] == "const" else "var")
            k = seen[descr] = seen.get(descr, 0) + 1
            okk = guarded(body, blk, a, b)
            why = "guarded by a dominating comparison of its operands"
            if not okk and compared_somewhere(body, a, b):
                # the guard is there but not as a dominating edge (a flag set inside a guarded loop, an earlier return ...):
                # not decided here - only a subtraction whose operands are never compared at all is reported
                okk, why = True, "its operands are compared in the function (guard not syntactically dominating; not decided further)"
            if not okk:
                from .. import intervals
                done_, mf_ = body.__dict__.get("_intervals") or intervals.analyse(body)
                body.__dict__["_intervals"] = (done_, mf_)
                if done_ and blk["id"] not in mf_:
                    okk, why = True, "cannot underflow on any path of the interval exploration of the function (parameters over their whole types)"
            if not okk and (p, descr) in EXCEPTIONS:
                okk, why = True, "frozen exception: " + EXCEPTIONS[(p, descr)]
            rep.ob(rule, "unsigned-sub:%s:%s:%s#%d" % (p, ty, descr, k), okk,
                   "%s subtraction in %s: %s" % (ty, p, why if okk else "NOT guarded: it underflows (and panics) for small operands"),
                   body.site(sp), nontrivial=True)
    rep.count("unsigned subtractions inspected", n)
    return n
