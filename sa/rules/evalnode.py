"""Abstract syntax-tree nodes for path summaries of eval::eval.

A scripted tree: {id: {"kind": "NUMBER", "children": [ids], "token": bool}}; node 0 is the node being evaluated.  syntree's
accessors are given their meaning on that tree; Query::source is followed to its slice of the text, which becomes the
term text(span<id>); str::parse::<Rational> becomes parse(text) (fallible); recursive evaluation of a child becomes the
symbolic quantity child<id>."""
from ..absint import core
from ..absint.core import Agg, Const, Ref, TOP, UNIT, NONE, some, ok, err
from ..absint.term import EffectDomain, Sym, T, K
from .evalops import numeric


def node(i):
    return Agg("node", None, None, None, (Const(i),))


def node_id(v):
    return v.field(0).v if isinstance(v, Agg) and v.kind == "node" else None


class EvalDomain(EffectDomain):
    inline_depth = 6

    def __init__(self, facts, tree, recurse_effect=True, extra=None):
        super().__init__({}, oracle=self._oracle)
        self.facts = facts
        self.tree = tree
        self.uninterp = lambda n: facts.fn(n) is None
        self.recurse_effect = recurse_effect
        self.extra = extra
        adt = facts.adt("syntax::parser::Syntax")
        self.vidx = {v["name"]: i for i, v in enumerate(adt["variants"])}

    def kind(self, name):
        return Agg("adt", "syntax::parser::Syntax", self.vidx[name], name, ())

    def _children(self, i, nodes_only):
        return [c for c in self.tree.get(i, {}).get("children", []) if not (nodes_only and self.tree[c].get("token"))]

    def _oracle(self, dom, it, nm, args, vals, store):
        if self.extra is not None:
            r = self.extra(dom, it, nm, args, vals, store)
            if r is not None:
                return r
        a0 = vals[0] if vals else None
        i = node_id(a0)
        if nm.startswith("syntree::Node::<") or nm.startswith("syntree::node::Node::<"):
            m = nm.rsplit("::", 1)[-1]
            if i is None:
                return None
            if m == "value":
                st, ref = it.fresh_slot(store, self.kind(self.tree[i]["kind"]))
                return [(ref, st)]
            if m == "span":
                st, ref = it.fresh_slot(store, Sym("span%d" % i))
                return [(ref, st)]
            if m == "range":
                return [(T("range", Sym("span%d" % i)), store)]
            if m in ("first", "last"):
                cs = self._children(i, False)
                if not cs:
                    return [(NONE, store)]
                return [(some(node(cs[0] if m == "first" else cs[-1])), store)]
            if m == "children":
                return [(Agg("children", None, None, None, (Const(i), Const(0), Const(False))), store)]
            if m in ("has_children", "is_empty"):
                has = bool(self._children(i, False))
                return [(Const(has if m == "has_children" else not has), store)]
            return None
        if isinstance(a0, Agg) and a0.kind == "children":
            m = nm.rsplit("::", 1)[-1]
            par, pos, only_nodes = a0.field(0).v, a0.field(1).v, a0.field(2).v
            if m == "skip_tokens":
                return [(Agg("children", None, None, None, (Const(par), Const(pos), Const(True))), store)]
            if m in ("next", "next_node"):
                cs = self._children(par, False)
                p = pos
                while p < len(cs) and (only_nodes or m == "next_node") and self.tree[cs[p]].get("token"):
                    p += 1
                if p >= len(cs):
                    return [(NONE, it.write_ref(store, args[0], Agg("children", None, None, None, (Const(par), Const(p), Const(only_nodes)))))]
                st = it.write_ref(store, args[0], Agg("children", None, None, None, (Const(par), Const(p + 1), Const(only_nodes))))
                return [(some(node(cs[p])), st)]
            if nm.endswith("IntoIterator>::into_iter"):
                return [(a0, store)]
            return None
        if nm == "syntree::Span::<I>::range" and len(vals) == 1:
            return [(T("range", vals[0]), store)]
        if (nm.endswith("Index<I> for str>::index") or nm.endswith("as std::ops::Index<I>>::index")) and len(vals) == 2:
            r = vals[1]
            if isinstance(r, T) and r.op == "range":
                return [(T("text", r.args[0]), store)]
            return [(T("slice", vals[0], r), store)]
        if nm == "core::str::<impl str>::parse" and len(vals) == 1:
            g = ""
            return [(ok(Agg("adt", "rational::Rational", 0, "Rational", (T("parse", vals[0]),))), store),
                    (err(Sym("parse_error")), dom.with_log(store, ("parse-failed", vals[0])))]
        if nm == "eval::eval" and len(vals) == 3 and self.recurse_effect:
            j = node_id(vals[1])
            return [(ok(numeric("child%s" % j)), dom.with_log(store, ("eval-child", j))),
                    (err(Sym("child_error")), dom.with_log(store, ("child-failed", j)))]
        return None


def constant_value(facts, tag="c"):
    adt = facts.adt("db::Constant")
    names = [f["name"] for f in adt["variants"][0]["fields"]]
    fields = []
    for n in names:
        if n == "value":
            fields.append(Agg("adt", "rational::Rational", 0, "Rational", (Sym(tag + ".value"),)))
        elif n == "unit":
            fields.append(Agg("adt", "compound::Compound", 0, "Compound", (Sym(tag + ".unit"),)))
        else:
            fields.append(Sym("%s.%s" % (tag, n)))
    return Agg("adt", "db::Constant", 0, "Constant", fields)


def prior_description(facts, k=0):
    return Agg("adt", "query::Description", 0, "Constant", (Sym("prior%d.text" % k), constant_value(facts, "prior%d" % k)))


def query_value(facts, it, store, describe=None, prior=()):
    """A Query with a symbolic (or fixed) describe option and an addressable description list holding `prior` (arbitrary
    earlier descriptions): (store, ref, slot of the list)."""
    from ..absint.stdmodels import Seq
    store, dref = it.fresh_slot(store, Seq(prior))
    adt = facts.adt("query::Query")
    names = [f["name"] for f in adt["variants"][0]["fields"]]
    opt = Agg("adt", "query::Options", 0, "Options", (Sym("describe") if describe is None else Const(bool(describe)),))
    vals = {"source": Sym("source"), "db": Sym("db"), "options": opt, "descriptions": dref}
    q = Agg("adt", "query::Query", 0, "Query", tuple(vals.get(n, Sym("q." + n)) for n in names))
    store, qref = it.fresh_slot(store, q)
    return store, qref, dref


def lookup_oracle(facts):
    """Db::lookup as an effect: Ok(Some(Match::Constant(c))), Ok(None) or Err."""
    def extra(dom, it, nm, args, vals, store):
        if nm == "db::Db::lookup" and len(vals) == 2:
            st = dom.with_log(store, ("lookup", vals[1]))
            m = Agg("adt", "db::Match", 0, "Constant", (constant_value(facts),))
            return [(ok(some(m)), st), (ok(NONE), dom.with_log(st, ("lookup-miss",))), (err(Sym("lookup_error")), dom.with_log(st, ("lookup-failed",)))]
        return None
    return extra


def run_eval(facts, tree, extra=None, budget=200000, with_query=False, describe=None, prior=()):
    """Summary of eval::eval(q, node 0, bias) on a scripted tree -> (dom, it, outcomes[, ref of the description list])."""
    body = facts.fn("eval::eval")
    dom = EvalDomain(facts, tree, extra=extra)
    it = core.Interp(facts, dom, budget=budget)
    if with_query:
        st, qref, dref = query_value(facts, it, {}, describe, prior)
        outs = it.run(body, [qref, node(0), Sym("bias")], st)
        return dom, it, outs, dref
    outs = it.run(body, [Sym("q"), node(0), Sym("bias")], {})
    return dom, it, outs
