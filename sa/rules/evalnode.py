"""Abstract syntax-tree nodes for path summaries of eval::eval.

A scripted tree: {id: {"kind": "NUMBER", "children": [ids], "token": bool}}; node 0 is the node being evaluated.  syntree's
accessors are given their meaning on that tree; Query::source is followed to its slice of the text, which becomes the
term text(span<id>); str::parse::<Rational> becomes parse(text) (fallible); recursive evaluation of a child becomes the
symbolic quantity child<id>."""
from ..absint import core
from ..absint.core import Agg, Const, Ref, TOP, UNIT, NONE, some, ok, err
from ..absint.term import EffectDomain, Sym, T, K
from .evalops import numeric


def node(i):
    return Agg("node", None, None, None, (Const(i),))


def node_id(v):
    return v.field(0).v if isinstance(v, Agg) and v.kind == "node" else None


class EvalDomain(EffectDomain):
    inline_depth = 6

    def __init__(self, facts, tree, recurse_effect=True, extra=None):
        super().__init__({}, oracle=self._oracle)
        self.facts = facts
        self.tree = tree
        self.uninterp = lambda n: facts.fn(n) is None
        self.recurse_effect = recurse_effect
        self.extra = extra
        adt = facts.adt("syntax::parser::Syntax")
        self.vidx = {v["name"]: i for i, v in enumerate(adt["variants"])}

    def kind(self, name):
        return Agg("adt", "syntax::parser::Syntax", self.vidx[name], name, ())

    def _children(self, i, nodes_only):
        return [c for c in self.tree.get(i, {}).get("children", []) if not (nodes_only and self.tree[c].get("token"))]

    def _oracle(self, dom, it, nm, args, vals, store):
        if self.extra is not None:
            r = self.extra(dom, it, nm, args, vals, store)
            if r is not None:
                return r
        a0 = vals[0] if vals else None
        i = node_id(a0)
        if nm.startswith("syntree::Node::<") or nm.startswith("syntree::node::Node::<"):
            m = nm.rsplit("::", 1)[-1]
            if i is None:
                return None
            if m == "value":
                st, ref = it.fresh_slot(store, self.kind(self.tree[i]["kind"]))
                return [(ref, st)]
            if m == "span":
                st, ref = it.fresh_slot(store, Sym("span%d" % i))
                return [(ref, st)]
            if m == "range":
                return [(T("range", Sym("span%d" % i)), store)]
            if m in ("first", "last"):
                cs = self._children(i, False)
                if not cs:
                    return [(NONE, store)]
                return [(some(node(cs[0] if m == "first" else cs[-1])), store)]
            if m == "children":
                return [(Agg("children", None, None, None, (Const(i), Const(0), Const(False))), store)]
            if m in ("has_children", "is_empty"):
                has = bool(self._children(i, False))
                return [(Const(has if m == "has_children" else not has), store)]
            return None
        if isinstance(a0, Agg) and a0.kind == "children":
            m = nm.rsplit("::", 1)[-1]
            par, pos, only_nodes = a0.field(0).v, a0.field(1).v, a0.field(2).v
            if m == "skip_tokens":
                return [(Agg("children", None, None, None, (Const(par), Const(pos), Const(True))), store)]
            if m in ("next", "next_node"):
                cs = self._children(par, False)
                p = pos
                while p < len(cs) and (only_nodes or m == "next_node") and self.tree[cs[p]].get("token"):
                    p += 1
                if p >= len(cs):
                    return [(NONE, it.write_ref(store, args[0], Agg("children", None, None, None, (Const(par), Const(p), Const(only_nodes)))))]
                st = it.write_ref(store, args[0], Agg("children", None, None, None, (Const(par), Const(p + 1), Const(only_nodes))))
                return [(some(node(cs[p])), st)]
            if nm.endswith("IntoIterator>::into_iter"):
                return [(a0, store)]
            return None
        if nm == "syntree::Span::<I>::range" and len(vals) == 1:
            return [(T("range", vals[0]), store)]
        if (nm.endswith("Index<I> for str>::index") or nm.endswith("as std::ops::Index<I>>::index")) and len(vals) == 2:
            r = vals[1]
            if isinstance(r, T) and r.op == "range":
                return [(T("text", r.args[0]), store)]
            return [(T("slice", vals[0], r), store)]
        if nm == "core::str::<impl str>::parse" and len(vals) == 1:
            g = ""
            return [(ok(Agg("adt", "rational::Rational", 0, "Rational", (T("parse", vals[0]),))), store),
                    (err(Sym("parse_error")), dom.with_log(store, ("parse-failed", vals[0])))]
        if nm == "eval::eval" and len(vals) == 3 and self.recurse_effect:
            j = node_id(vals[1])
            return [(ok(numeric("child%s" % j)), dom.with_log(store, ("eval-child", j))),
                    (err(Sym("child_error")), dom.with_log(store, ("child-failed", j)))]
        return None


def constant_value(facts, tag="c"):
    adt = facts.adt("db::Constant")
    names = [f["name"] for f in adt["variants"][0]["fields"]]
    fields = []
    for n in names:
        if n == "value":
            fields.append(Agg("adt", "rational::Rational", 0, "Rational", (Sym(tag + ".value"),)))
        elif n == "unit":
            fields.append(Agg("adt", "compound::Compound", 0, "Compound", (Sym(tag + ".unit"),)))
        else:
            fields.append(Sym("%s.%s" % (tag, n)))
    return Agg("adt", "db::Constant", 0, "Constant", fields)


def prior_description(facts, k=0):
    return Agg("adt", "query::Description", 0, "Constant", (Sym("prior%d.text" % k), constant_value(facts, "prior%d" % k)))


def query_value(facts, it, store, describe=None, prior=()):
    """A Query with a symbolic (or fixed) describe option over an addressable description list holding `prior` (arbitrary
    earlier descriptions): (store, ref of the Query, ref of the list).  The Query is what `query::query` itself builds from
    (parsed text, database, options, the caller's list) - whatever fields it keeps them in; if that cannot be followed the
    struct is assembled by field name."""
    from ..absint.stdmodels import Seq
    store, dref = it.fresh_slot(store, Seq(prior))
    opt = Agg("adt", "query::Options", 0, "Options", (Sym("describe") if describe is None else Const(bool(describe)),))
    qb = facts.fn("query::query")
    if qb is not None:
        padt = facts.adt("query::Parsed")
        pv = Agg("adt", "query::Parsed", 0, "Parsed", tuple(Sym("source") if f["ty"].startswith("&") and "str" in f["ty"] else Sym("tree")
                                                              for f in padt["variants"][0]["fields"])) if padt else Sym("parsed")
        st1, pref = it.fresh_slot(store, pv)
        args = []
        for i in range(1, qb.arg_count + 1):
            ty = qb.local_ty(i).replace(" ", "")
            if "query::Parsed" in ty:
                args.append(pref)
            elif "db::Db" in ty:
                args.append(Sym("db"))
            elif ty.endswith("query::Options"):
                args.append(opt)
            elif "Vec<query::Description" in ty:
                args.append(dref)
            else:
                args.append(TOP)
        try:
            outs = [o for o in it.run(qb, args, st1)]
        except core.Undecided:
            outs = []
        rets = [o for o in outs if o.kind == "ret" and isinstance(o.value, Agg) and o.value.path == "query::Query"]
        if rets and len(rets) == len(outs):
            if len(rets) == 1:
                st2, qref = it.fresh_slot(rets[0].store, rets[0].value)
                return st2, qref, dref
            # the constructor already looks at the flag: one Query per side
            return [(it.fresh_slot(o.store, o.value), dref) for o in rets]
    adt = facts.adt("query::Query")
    names = [f["name"] for f in adt["variants"][0]["fields"]]
    vals = {"source": Sym("source"), "db": Sym("db"), "options": opt, "descriptions": dref}
    q = Agg("adt", "query::Query", 0, "Query", tuple(vals.get(n, Sym("q." + n)) for n in names))
    store, qref = it.fresh_slot(store, q)
    return store, qref, dref


def lookup_oracle(facts):
    """Db::lookup as an effect: Ok(Some(Match::Constant(c))), Ok(None) or Err."""
    def extra(dom, it, nm, args, vals, store):
        if nm == "db::Db::lookup" and len(vals) == 2:
            st = dom.with_log(store, ("lookup", vals[1]))
            m = Agg("adt", "db::Match", 0, "Constant", (constant_value(facts),))
            return [(ok(some(m)), st), (ok(NONE), dom.with_log(st, ("lookup-miss",))), (err(Sym("lookup_error")), dom.with_log(st, ("lookup-failed",)))]
        return None
    return extra


def run_eval(facts, tree, extra=None, budget=200000, with_query=False, describe=None, prior=()):
    """Summary of eval::eval(q, node 0, bias) on a scripted tree -> (dom, it, outcomes[, ref of the description list])."""
    body = facts.fn("eval::eval")
    dom = EvalDomain(facts, tree, extra=extra)
    it = core.Interp(facts, dom, budget=budget)
    if with_query:
        qv = query_value(facts, it, {}, describe, prior)
        if isinstance(qv, list):
            outs = []
            dref = qv[0][1]
            for (st, qref), _ in qv:
                outs.extend(it.run(body, [qref, node(0), Sym("bias")], st))
            return dom, it, outs, dref
        st, qref, dref = qv
        outs = it.run(body, [qref, node(0), Sym("bias")], st)
        return dom, it, outs, dref
    outs = it.run(body, [Sym("q"), node(0), Sym("bias")], {})
    return dom, it, outs


# ---- the fold of an OPERATION node ----------------------------------------------------------------------------------------
def _vname(v):
    """'child1' / 'r0' / 'cast0' of a Numeric value built by these summaries, else repr."""
    if isinstance(v, Agg) and v.path == "numeric::Numeric":
        x = v.field(0)
        x = x.field(0) if isinstance(x, Agg) and x.path == "rational::Rational" else x
        if isinstance(x, Sym) and x.name.endswith(".value"):
            return x.name[:-6]
        return repr(x)
    return repr(v)


def is_operator_fn(facts, nm):
    b = facts.fn(nm)
    if b is None or b.arg_count != 3 or b.promoted >= 0 or "{closure" in nm:
        return False
    return b.local_ty(2) == "numeric::Numeric" and b.local_ty(3) == "numeric::Numeric" and "numeric::Numeric" in b.local_ty(0) \
        and "Result" in b.local_ty(0)


def fold_summary(facts, kinds, budget=150000):
    """Summary of eval::eval on OPERATION [x1 k1 x3 k2 x5 ...] (kinds = operator token kinds; the operand after OP_CAST is
    a unit expression).  Sub-evaluations, the unit parser, the operator functions and Compound::factor are effects:
      ('eval-child', id) ('child-failed', id) ('unit', id) ('unit-failed', id)
      ('operator', fn, lhs name, rhs name, result name) ('operator-failed', fn)
      ('factor', verdict, value name)        verdict in commensurable / incommensurable / error
    -> (dom, [(outcome, unpacked result, events)])"""
    tree = {0: {"kind": "OPERATION", "children": []}}
    nid = 1
    tree[nid] = {"kind": "NUMBER", "children": []}
    tree[0]["children"].append(nid)
    for k in kinds:
        nid += 1
        tree[nid] = {"kind": k, "children": [], "token": False}
        tree[0]["children"].append(nid)
        nid += 1
        tree[nid] = {"kind": "UNIT" if k == "OP_CAST" else "NUMBER", "children": []}
        tree[0]["children"].append(nid)

    def extra(dom, it, nm, args, vals, store):
        if is_operator_fn(facts, nm) and len(vals) == 3:
            n = store.get(("opn",), 0)
            s2 = dict(store)
            s2[("opn",)] = n + 1
            res = "r%d" % n
            st = dom.with_log(s2, ("operator", nm, _vname(vals[1]), _vname(vals[2]), res))
            return [(ok(numeric(res)), st), (err(Sym("operator_error")), dom.with_log(s2, ("operator-failed", nm)))]
        if nm == "eval::unit" and len(vals) >= 2:
            # the unit expression is handed over as a node or as the iterator over a node's children
            j = node_id(vals[1])
            if j is None and isinstance(vals[1], Agg) and vals[1].kind == "children":
                j = vals[1].field(0).v
            u = Agg("adt", "compound::Compound", 0, "Compound", (Sym("target%s" % j),))
            return [(ok(u), dom.with_log(store, ("unit", j))), (err(Sym("unit_error")), dom.with_log(store, ("unit-failed", j)))]
        if nm == "compound::Compound::factor" and len(vals) == 3:
            a, b = vals[0], vals[1]
            old = vals[2]
            oldv = old.field(0) if isinstance(old, Agg) else old
            ua = a.field(0) if isinstance(a, Agg) and a.path == "compound::Compound" else a
            ub = b.field(0) if isinstance(b, Agg) and b.path == "compound::Compound" else b
            conv = Agg("adt", "rational::Rational", 0, "Rational", (T("conv", oldv, ua, ub),))
            st_ok = dom.with_log(it.write_ref(store, args[2], conv), ("factor", "commensurable", repr(oldv)))
            return [(ok(Const(True)), st_ok), (ok(Const(False)), dom.with_log(store, ("factor", "incommensurable", repr(oldv)))),
                    (err(Agg("adt", "compound::CompoundError", 0, "CompoundError", ())),
                     dom.with_log(it.write_ref(store, args[2], TOP), ("factor", "error", repr(oldv))))]
        if nm.startswith("compound::Compound::") or nm.startswith("<compound::Compound as "):
            # what a unit is like (is_acceleration, is_empty, clone ...) is not this summary's business
            if nm.endswith("::clone"):
                return [(vals[0], store)]
            return [(T("call:" + nm, *vals), store)]
        return None

    dom, it, outs = run_eval(facts, tree, extra=extra, budget=budget)
    from .evalops import unpack
    res = []
    keep = ("eval-child", "child-failed", "unit", "unit-failed", "operator", "operator-failed", "factor")
    for o in outs:
        res.append((o, unpack(o.value) if o.kind == "ret" else None, [e for e in dom.log(o.store) if e[0] in keep]))
    return dom, res
