"""Helpers shared by the rule modules."""
from .. import facts as F
from .. import flow


def census(facts, pred, crate="anything", hand_written=True, include_derive=False):
    """All call sites in the crate whose resolved callee satisfies pred: [(body, block id, term, span, name)]."""
    out = []
    for b in facts.all:
        if b.crate != crate or b.promoted >= 0:
            continue
        if hand_written and not include_derive and b.from_derive():
            continue
        for blk, t, sp, name in b.calls(pred):
            out.append((b, blk["id"], t, sp, name))
    return out


def anchor(rep, rule, facts, path, crate="anything"):
    b = facts.fn(path, crate)
    if b is None:
        rep.ob(rule, "anchor:" + path, False,
               "anchor function %s not found in the current tree (renamed or removed: the rule's anchor table needs "
               "updating; this is not by itself a breach of the property)" % path)
    return b


def param_bool_switches(body, param):
    """Switches whose discriminant is a (possibly negated) copy of boolean parameter `param`:
    [(switch block, target when param is false, target when param is true)]."""
    defs = flow.Defs(body)
    # locals that are copies / negations of the parameter: local -> polarity (True = same)
    pol = {param: True}
    changed = True
    while changed:
        changed = False
        for b, i, s in body.stmts():
            if s["place"]["proj"]:
                continue
            d = s["place"]["local"]
            rv = s["rv"]
            src = None
            neg = False
            if rv["k"] == "use":
                src = F.op_local(rv["op"])
            elif rv["k"] == "unop" and rv["op"] == "Not":
                src = F.op_local(rv["a"])
                neg = True
            if src in pol and len(defs.whole(d)) == 1 and d not in pol:
                pol[d] = pol[src] != neg
                changed = True
    out = []
    for b, t, sp in body.terms():
        if t["k"] != "switch":
            continue
        l = F.op_local(t["discr"])
        if l in pol:
            f = None
            for v, x in t["targets"]:
                if int(v) == 0:
                    f = x
            tr = t["otherwise"]
            if not pol[l]:
                f, tr = tr, f
            out.append((b["id"], f, tr))
    return out


def only_via(body, block, frm, to):
    return block in body.cfg.blocks_only_via_edge(frm, to)


def const_str_args(t, body=None, facts=None):
    """String constants passed to a call (directly, or through copies / references / promoteds when body is given)."""
    out = []
    for a in t["args"]:
        if a["k"] == "const" and isinstance(F.const_val(a), str):
            out.append(F.const_val(a))
        elif body is not None and a["k"] in ("copy", "move"):
            out.extend(sorted(flow.str_consts(body, a, facts)))
    return out


def const_int_args(t):
    out = []
    for a in t["args"]:
        if a["k"] == "const":
            v = F.const_val(a)
            if isinstance(v, int):
                out.append(v)
    return out
