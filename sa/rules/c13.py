"""C13 - quantity arithmetic obeys the field laws, including looked-up facts."""
from ..absint import core
from ..absint.core import Const, Agg
from ..absint.term import Sym, T, K
from .common import anchor
from . import evalops as E
from . import c02, c03, c04, c05

LEVEL = "other"


def _norm(fn, u, dom, o):
    """Normalised description of one outcome with the operator abstracted away."""
    op = {"add": "+", "sub": "-", "mul": "*", "div": "/"}[fn]
    if u[0] == "ok":
        v = repr(u[1]).replace(" %s " % op, " <op> ").replace("Const(-1)", "<n>").replace("Const(1)", "<n>")
        return ("ok", v, repr(E.unit_sym(u[2])).replace("Const(-1)", "<n>").replace("Const(1)", "<n>"))
    if u[0] == "err":
        return ("err", u[1])
    return ("?",)


def r1_siblings(facts, rep):
    rep.rule("C13-R1", "sibling agreement (path summaries): eval::add and eval::sub have the same outcomes on every emptiness "
                       "class - same result unit, same operand conversion, same errors - and differ only in the exact operator; "
                       "eval::mul and eval::div likewise, differing only in the operator, the constant n = +1 / -1 handed to "
                       "Compound::mul and div's test of the divisor")
    for a, b in (("add", "sub"), ("mul", "div")):
        if anchor(rep, "C13-R1", facts, "eval::" + a) is None or anchor(rep, "C13-R1", facts, "eval::" + b) is None:
            continue
        for ea, eb in E.EMPTY_CLASSES:
            cls = "%s,%s" % ("empty" if ea else "non-empty", "empty" if eb else "non-empty")
            try:
                da, ia, ba, oa = E.run_binop(facts, a, ea, eb)
                db, ib, bb, ob = E.run_binop(facts, b, ea, eb)
            except core.Undecided as e:
                rep.ob("C13-R1", "%s/%s:%s" % (a, b, cls), False, "undecided: %s" % e)
                continue
            sa = sorted({_norm(a, E.unpack(o.value), da, o) for o in oa if o.kind == "ret"})
            sb = sorted({_norm(b, E.unpack(o.value), db, o) for o in ob if o.kind == "ret"})
            if (a, b) == ("mul", "div"):
                # div has its own zero-divisor error; everything else must coincide
                sa2 = [x for x in sa if x != ("err", "DivideByZero")]
                sb2 = [x for x in sb if x != ("err", "DivideByZero")]
                good = sa2 == sb2 and ("err", "DivideByZero") in sb
            else:
                good = sa == sb
            rep.ob("C13-R1", "%s/%s:%s" % (a, b, cls), good, "outcomes of %s: %s; of %s: %s" % (a, sa, b, sb),
                   sample={"pair": [a, b], "class": cls, "outcomes": [list(x) for x in sa]})


def run(fx, rep, tier):
    from . import foundation as _fnd
    _fnd.units(fx["dev"], rep, "C13-F", fx, tier)
    rep.assume("the value laws themselves (associativity, distributivity, cancellation) follow from exact rational arithmetic "
               "(C01) and from both operands being normalised identically and reconstructed consistently (rules below); they "
               "are argued, not machine-checked")
    facts = fx["dev"]
    r1_siblings(facts, rep)
    rep.rule("C13-R2", "operand-order symmetry of unit adoption for + and - (shared with C02-R3)")
    rep.rule("C13-R3", "both operands of a product are normalised by the same signature and factor()'s target side mirrors its "
                       "source side (shared with C03-R3); re-derived units shed exactly the power they are inserted with (shared "
                       "with C04-R2/R3)")
    rep.rule("C13-R4", "every unit's dimension table is linear in the power (p -> k*p for every base unit), so Pa^p, (Pa*Pa) and "
                       "Pa^2 have the same base dimensions (shared with C05-R2)")
    for mod, fn, args in ((c02, "r2_r3_summaries", ()), (c03, "r2_r3_factor", (tier,)), (c04, "r2_r5_mul", ()), (c04, "r3_reconstruct", ())):
        sub = type(rep)(rep.prop, rep.tier)
        getattr(mod, fn)(facts, sub, *args)
        for o in sub.obls:
            o["rule"] = {"C02-R3": "C13-R2", "C02-R2": "C13-R2", "C02-R5": "C13-R2", "C03-R3": "C13-R3", "C03-R2": "C13-R3",
                         "C04-R2": "C13-R3", "C04-R3": "C13-R3", "C04-R5": "C13-R3"}.get(o["rule"], o["rule"])
            rep.obls.append(o)
    # a*b = b*a also where a conversion is not multiplicative (°C, °F): each operand's units are re-derived on its own value
    c04.r9_operand_faithful(facts, rep, "C13-R7")
    # a/a is the dimensionless one whenever a is not zero *in base units*: the divisor is tested for zero after it was
    # normalised (0 °C is 273.15 K), and the quotient is computed behind that test
    from . import c01
    rep.rule("C13-R8", "a / a = 1: the zero test of a divisor is made on the normalised value and dominates the division "
                       "(summary of eval::div, shared with C01-R4)")
    s8 = type(rep)(rep.prop, rep.tier)
    c01.r4_operators(facts, s8)
    for o in s8.obls:
        if o["rule"] == "C01-R4" and o["key"].startswith("div"):
            o["rule"] = "C13-R8"
            rep.obls.append(o)
    sub = type(rep)(rep.prop, rep.tier)
    c05.powers_are_base_only(facts, sub, "C13-R4")
    for o in sub.obls:
        rep.obls.append(o)
    for f in sub.floors:
        rep.floors.append(f)
    rep.rule("C13-R6", "equal quantities have equal representations: unit maps and base-dimension maps never keep an entry whose "
                       "power cancelled to zero, so J/N is m on both sides of a law (canonical form, shared with C02-R1)")
    sub = type(rep)(rep.prop, rep.tier)
    c02.r1_canonical(facts, sub)
    for o in sub.obls:
        o["rule"] = "C13-R6"
        rep.obls.append(o)
    from . import c01
    sub = type(rep)(rep.prop, rep.tier)
    c01.r4_totality(facts, sub, "C13-R5")
    sub.rules["C13-R5"] = ("both sides of a law exist together: +, - and * of commensurable operands never fail with an arithmetic "
                           "error (a zero operand is a value like any other), / only for a zero divisor (shared with C01-R4's "
                           "totality clause)")
    rep.rules["C13-R5"] = sub.rules["C13-R5"]
    for o in sub.obls:
        rep.obls.append(o)
