"""C07 - decimal literals are read exactly."""
from .. import facts as F
from .. import flow
from ..absint import core, chars
from ..absint.core import Agg, Const, TOP, Ref, UNIT, some, NONE, ok, err
from ..absint.term import TermDomain, EffectDomain, Sym, T, K, as_k
from .common import census, anchor
from . import c12

LEVEL = "other"

FROM_STR = "<rational::Rational as std::str::FromStr>::from_str"
PEEK = "std::iter::Peekable::<I>::peek"
NEXT = "<std::iter::Peekable<I> as std::iter::Iterator>::next"


# ---- R1: one reader ---------------------------------------------------------------------------------------------
def r1_one_reader(facts, rep):
    rep.rule("C07-R1", "one reader on exactly the literal's text: summaries of eval::eval on a NUMBER node and on a PERCENTAGE node "
                       "(scripted tree, helpers followed): the value is str::parse::<Rational> (= Rational::from_str) of exactly the "
                       "source text under the NUMBER node's span (divided by 100 for a percentage) and a failed parse is an error; no "
                       "other conversion of text to a Rational exists in the evaluator (the only other text-to-number conversion is "
                       "str::parse::<i32> for unit powers)")
    from . import evalnode, evalops
    sites = census(facts, lambda n: n == "core::str::<impl str>::parse")
    by = {}
    for b, bid, t, sp, name in sites:
        g = t["callee"].get("generics", "")
        ty = "Rational" if "rational::Rational" in g else ("i32" if "i32" in g else g)
        by.setdefault((b.path, ty), []).append((b, bid, t, sp))
    n_rat = 0
    for (path, ty), lst in sorted(by.items()):
        in_eval = path.startswith("eval::") and not path.startswith("eval::builtin")
        want = in_eval and ty in ("Rational", "i32")
        n_rat += len(lst) if ty == "Rational" else 0
        rep.ob("C07-R1", "parse:%s:%s" % ("eval" if in_eval else path, ty), want, "%d str::parse::<%s> call(s) in %s" % (len(lst), ty, path), lst[0][0].site(lst[0][3]))
    rep.floor("C07-R1", "literal parses in the evaluator", n_rat, 1)
    for label, tree, span in (("NUMBER", {0: {"kind": "NUMBER", "children": []}}, "span0"),
                              ("PERCENTAGE", {0: {"kind": "PERCENTAGE", "children": [1, 2]}, 1: {"kind": "NUMBER", "children": []},
                                              2: {"kind": "PERCENTAGE", "token": True}}, "span1")):
        try:
            dom, it, outs = evalnode.run_eval(facts, tree)
        except core.Undecided as e:
            rep.ob("C07-R1", "literal-text:%s" % label, False, "undecided: %s" % e)
            continue
        bad = []
        n_ok = n_err = 0
        text = T("text", Sym(span))
        for o in outs:
            if o.kind != "ret":
                bad.append("%s %s" % (o.kind, o.value))
                continue
            u = evalops.unpack(o.value)
            log = dom.log(o.store)
            if u[0] == "ok":
                n_ok += 1
                if repr(T("parse", text)) not in repr(u[1]) or repr(u[1]).count("parse(") != 1:
                    bad.append("the value %r is not read from the NUMBER node's own text %r" % (u[1], text))
                if any(e[0] == "parse-failed" for e in log):
                    bad.append("a failed parse still yields a value")
            elif u[0] == "err":
                n_err += 1
            else:
                bad.append("result %r" % (o.value,))
        rep.ob("C07-R1", "literal-text:%s" % label, not bad and n_ok >= 1 and n_err >= 1, "; ".join(bad[:3]) if bad else
               "%s: the literal text is the source under the NUMBER node's span, parsed once; a failed parse is an error" % label,
               facts.fn("eval::eval").site(), sample={"node": label, "ok_paths": n_ok})
    others = census(facts, lambda n: n in (FROM_STR, "rational::Rational::from_f64") or n.endswith("Num>::from_str_radix") or "parse_bytes" in n)
    for b, bid, t, sp, name in others:
        rep.ob("C07-R1", "other-reader:%s:%s" % (b.path, name.split("::")[-1]), b.path.startswith("eval::builtin::"),
               "%s converts to a Rational with %s" % (b.path, name), b.site(sp), nontrivial=False)
    q = facts.fn("query::Query::<'a>::source")
    if q is not None:
        idx = [n for b_, t, sp, n in q.calls() if "Index" in n]
        rep.ob("C07-R1", "Query::source", len(idx) == 1, "Query::source slices the query text with %s" % idx, q.site())


# ---- R3: counters -----------------------------------------------------------------------------------------------
def r3_counters(facts, rep):
    rep.rule("C07-R3", "independent of the literal's length: the fixed-width counters of the reader (fraction digits, exponent) are "
                       "only updated with checked_add / checked_mul whose None leads to Err; the only unchecked fixed-width "
                       "arithmetic is `b - b'0'` under the digit range test")
    body = anchor(rep, "C07-R3", facts, FROM_STR)
    if body is None:
        return
    n = 0
    for blk, i, s in body.stmts():
        rv = s["rv"]
        if rv["k"] == "binop" and rv["op"].replace("WithOverflow", "").replace("Unchecked", "") in ("Add", "Sub", "Mul", "Shl"):
            n += 1
            consts = [F.const_val(o) for o in (rv["a"], rv["b"]) if o["k"] == "const"]
            okk = rv["op"].startswith("Sub") and consts == [48]
            rep.ob("C07-R3", "unchecked:%s#%d" % (rv["op"], n), okk, "fixed-width %s with constants %s" % (rv["op"], consts), body.site(s["span"]))
    chk = flow.calls_named(body, lambda n_: n_.startswith("core::num::<impl u32>::checked_") or n_.startswith("core::num::<impl usize>::checked_"))
    rep.floor("C07-R3", "checked counter updates", len(chk), 2)
    clos = [b for b in facts.lib_bodies() if b.path.startswith(FROM_STR + "::{closure")]
    for b in clos:
        for blk, i, s in b.stmts():
            rv = s["rv"]
            if rv["k"] == "binop" and rv["op"].replace("WithOverflow", "") in ("Add", "Mul"):
                rep.ob("C07-R3", "closure-unchecked:%s" % b.path, False, "unchecked arithmetic in %s" % b.path, b.site(s["span"]))


# ---- R4: the reader as a transducer, inductive check --------------------------------------------------------------
class ReaderDomain(TermDomain):
    def __init__(self, facts):
        super().__init__()
        self.facts = facts
        self.uninterp = lambda n: facts.fn(n) is None

    def on_assert(self, it, body, t, sp, st, frame):
        return False

    @staticmethod
    def stream(store):
        return store.get(("stream",), ())

    def call(self, it, name, args, store, term, frame):
        if name == PEEK:
            s = self.stream(store)
            if not s:
                raise core.Undecided("the reader looks further ahead than one step allows")
            if s[0] == "EOF":
                return [(NONE, store)]
            s2 = dict(store)
            s2[(0, 900)] = Const(s[0])
            return [(some(Ref(0, 900)), s2)]
        if name == NEXT:
            s = self.stream(store)
            if not s:
                raise core.Undecided("the reader consumes more than one step allows")
            s2 = dict(store)
            if s[0] == "EOF":
                return [(NONE, store)]
            s2[("stream",)] = s[1:]
            s2[("consumed",)] = store.get(("consumed",), ()) + (s[0],)
            return [(some(Const(s[0])), s2)]
        if name in ("core::str::<impl str>::bytes", "std::iter::Iterator::peekable") or name.endswith("IntoIterator>::into_iter"):
            return [(Sym("bytes"), store)]
        if name.startswith("core::num::<impl u32>::checked_") and len(args) == 2:
            op = {"checked_mul": "i*", "checked_add": "i+"}.get(name.split("::")[-1])
            vals = [it.read_ref(store, a) for a in args]
            if op:
                if all(isinstance(v, Const) for v in vals):
                    r = vals[0].v * vals[1].v if op == "i*" else vals[0].v + vals[1].v
                    return [(some(Const(r)), store)] if r < 2 ** 32 else [(NONE, store)]
                t = T(op, vals[0], vals[1])
                return [(some(t), self.with_pc(store, T("overflows", t), False)), (NONE, self.with_pc(store, T("overflows", t), True))]
        if name == "std::option::Option::<T>::ok_or":
            vals = [it.read_ref(store, a) for a in args]
            o = vals[0]
            if isinstance(o, Agg) and o.path == "std::option::Option":
                return [(ok(o.field(0)) if o.vi == 1 else err(vals[1]), store)]
        return super().call(it, name, args, store, term, frame)


def loop_heads(body):
    cfg = body.cfg
    hs = [bid for bid, t, sp, nm in flow.calls_named(body, lambda n: n == NEXT) if bid in cfg.reachable_after(bid)]
    hs.sort(key=lambda h: len(cfg.dom[h]))
    return hs


def named_locals(body, name, ty_pred=None):
    return [l["id"] for l in body.locals if l["name"] == name and (ty_pred is None or ty_pred(l["ty"]))]


def byte_values(body, tier):
    """Quick tier: one representative of every interval of byte values that no comparison constant of the reader separates,
    every comparison constant and all ten digits; thorough tier: all 256 values."""
    if tier == "thorough":
        return list(range(256))
    consts = set()
    for b in body.blocks:
        if b["cleanup"]:
            continue
        for s in b["stmts"]:
            if s["k"] == "assign" and s["rv"]["k"] == "binop":
                for o in (s["rv"]["a"], s["rv"]["b"]):
                    if o["k"] == "const" and o.get("ty") == "u8" and o.get("val") is not None:
                        consts.add(int(o["val"]))
        t = b["term"]["t"]
        if t["k"] == "switch" and t.get("discr_ty") == "u8":
            for v, _ in t["targets"]:
                consts.add(int(v))
    cuts = sorted({0, 256} | {c for c in consts} | {c + 1 for c in consts})
    vals = set(range(48, 58)) | {c for c in consts if 0 <= c < 256}
    for a, b in zip(cuts, cuts[1:]):
        if a < 256:
            vals.add(a)
    return sorted(v for v in vals if 0 <= v < 256)


def r4_reader(facts, rep, tier="quick"):
    rep.rule("C07-R4", "the reader is the decimal-literal transducer (inductive, exhaustive over bytes): with the accumulator "
                       "standing for an arbitrary N (all digits so far) and the fraction counter for an arbitrary d, from every "
                       "reachable flag state and for every one of the 256 byte values one turn of the main loop yields N*10+digit "
                       "(or leaves N unchanged for a leading zero while N = 0), d+1 exactly for digits after the point, accepts one "
                       "point, hands over to the exponent loop on e/E (optional sign), and rejects everything else; the exponent "
                       "loop likewise accumulates E*10+digit with checked arithmetic; at the end the value is "
                       "(-)N * 10^(+-E) / 10^d.  The base case is N = 0, d = 0")
    body = anchor(rep, "C07-R4", facts, FROM_STR)
    if body is None:
        return
    heads = loop_heads(body)
    if not rep.ob("C07-R4", "anchor:loops", len(heads) == 2, "the reader has a main loop and an exponent loop (%d loop heads)" % len(heads), body.site()):
        return
    H1, H2 = heads
    is_ratio = lambda ty: "Ratio<" in ty
    L = {
        "out": (named_locals(body, "out", is_ratio) or [None])[0],
        "dots": (named_locals(body, "dots") or [None])[0],
        "dot": (named_locals(body, "dot") or [None])[0],
        "init": (named_locals(body, "init") or [None])[0],
        "neg": (named_locals(body, "neg") or [None])[0],
        "exp": (named_locals(body, "exp") or [None])[0],
        "init2": (named_locals(body, "init") + [None, None])[1],
        "neg2": (named_locals(body, "neg") + [None, None])[1],
    }
    if not rep.ob("C07-R4", "anchor:locals", None not in L.values(), "reader state variables found: %s" % {k: v for k, v in L.items()}, body.site()):
        return
    frame = 1
    BYTES = byte_values(body, tier)
    rep.count("byte values per state", len(BYTES))

    def run(start, stream):
        dom = ReaderDomain(facts)
        it = core.Interp(facts, dom, budget=60000)
        if start is None:
            st0 = {("stream",): tuple(stream)}
            outs = it.run(body, [Sym("text")], st0, stop={H1, H2})
        else:
            st = dict(start[1])
            st[("stream",)] = tuple(stream)
            st[("consumed",)] = ()
            st[("pc",)] = ()
            outs = it.run(body, [Sym("text")], {}, start=(start[0], st), stop={H1, H2})
        return dom, it, outs

    def val(it, st, key):
        return it.read_ref(st, Ref(frame, L[key]))

    # ---- base case: the prologue ------------------------------------------------------------------------------
    templates = {}
    for first in (45, 43, 53, 46, "EOF"):
        try:
            dom, it, outs = run(None, [first, 53])
        except core.Undecided as e:
            rep.ob("C07-R4", "prologue:%s" % first, False, "undecided: %s" % e, body.site())
            continue
        stops = [o for o in outs if o.kind == "stop" and o.value == H1]
        good = len(stops) == 1 and len(outs) == 1
        if good:
            st = stops[0].store
            neg = val(it, st, "neg")
            cons = st.get(("consumed",), ())
            good = val(it, st, "out") == K(0) and val(it, st, "dots") == Const(0) and val(it, st, "init") == Const(False) and val(it, st, "dot") == Const(False) \
                and neg == Const(first == 45) and cons == ((first,) if first in (45, 43) else ())
            templates[first] = st
        rep.ob("C07-R4", "prologue:first=%s" % (chr(first) if isinstance(first, int) else first), good,
               "before the main loop: accumulator 0, no fraction digits, sign %s, %s consumed" % (
                   "negative" if first == 45 else "positive", "the sign" if first in (45, 43) else "nothing"), body.site())
    if 53 not in templates:
        return
    base = templates[53]

    def seed_main(init, dot):
        st = dict(base)
        st[(frame, L["out"])] = Sym("N")
        st[(frame, L["dots"])] = Sym("d")
        st[(frame, L["init"])] = Const(init)
        st[(frame, L["dot"])] = Const(dot)
        st[(frame, L["neg"])] = Sym("neg")
        return st

    N, d, ten = Sym("N"), Sym("d"), K(10)
    # ---- main loop: BFS over (init, dot, zero) -------------------------------------------------------------------
    seen = set()
    work = [(False, False, True)]
    exp_entry = None
    n_steps = 0
    while work:
        state = work.pop()
        if state in seen:
            continue
        seen.add(state)
        init, dot, zero = state
        st0 = seed_main(init, dot)
        bad = []
        for b in BYTES:
            look = [53] if b not in (101, 69) else None
            streams = [[b, 53]] if look else [[b, 45, 53], [b, 43, 53], [b, 53, 53], [b, "EOF"], [b, 120]]
            for stream in streams:
                n_steps += 1
                try:
                    dom, it, outs = run((H1, st0), stream)
                except core.Undecided as e:
                    bad.append("byte %d: undecided: %s" % (b, e))
                    continue
                digit = 48 <= b <= 57
                dlt = b - 48
                for o in outs:
                    if o.kind == "stop" and o.value == H1:
                        st = o.store
                        cons = st.get(("consumed",), ())
                        out2, dots2 = val(it, st, "out"), val(it, st, "dots")
                        i2, d2 = val(it, st, "init"), val(it, st, "dot")
                        if cons != (b,) or not isinstance(i2, Const) or not isinstance(d2, Const):
                            bad.append("byte %d: consumed %s, flags %r %r" % (b, cons, i2, d2))
                            continue
                        if digit:
                            if out2 == T("+", T("*", N, ten), K(dlt)):
                                pass
                            elif out2 == N and zero and dlt == 0:
                                pass
                            else:
                                bad.append("digit '%s': accumulator becomes %r (N %s known to be 0), expected N*10+%d" % (chr(b), out2, "is" if zero else "is NOT", dlt))
                            want_d = T("i+", d, Const(1)) if dot else d
                            if dots2 != want_d:
                                bad.append("digit '%s' %s the point: fraction counter becomes %r, expected %r" % (chr(b), "after" if dot else "before", dots2, want_d))
                            if d2.v != dot:
                                bad.append("digit '%s' changes the point flag" % chr(b))
                            z2 = zero and dlt == 0
                            if not i2.v and not z2:
                                bad.append("digit '%s': still 'not started' although a non-zero digit was read" % chr(b))
                            work.append((bool(i2.v), bool(d2.v), z2))
                        elif b == 46:
                            if dot:
                                bad.append("a second '.' is accepted")
                            if out2 != N or dots2 != d or not d2.v:
                                bad.append("'.': accumulator %r, counter %r, point flag %r" % (out2, dots2, d2))
                            work.append((bool(i2.v), True, zero))
                        else:
                            bad.append("byte %d (%r) is accepted by the main loop" % (b, chr(b)))
                    elif o.kind == "stop" and o.value == H2:
                        st = o.store
                        cons = st.get(("consumed",), ())
                        if b not in (101, 69):
                            bad.append("byte %d enters the exponent loop" % b)
                            continue
                        sign = stream[1]
                        want_cons = (b, sign) if sign in (45, 43) else (b,)
                        n2 = val(it, st, "neg2")
                        okk = cons == want_cons and val(it, st, "out") == N and val(it, st, "dots") == d and val(it, st, "exp") == Const(0) \
                            and val(it, st, "init2") == Const(False) and n2 == Const(sign == 45)
                        if not okk:
                            bad.append("'%s' + %r: consumed %s, exp %r, neg %r, accumulator %r" % (chr(b), sign, cons, val(it, st, "exp"), n2, val(it, st, "out")))
                        else:
                            exp_entry = st
                    elif o.kind == "ret":
                        v = o.value
                        is_err = isinstance(v, Agg) and v.path == "std::result::Result" and v.vi == 1
                        if is_err:
                            ov = any(isinstance(p, T) and p.op == "overflows" and bb for p, bb in dom.pc(o.store))
                            if (digit or (b == 46 and not dot) or b in (101, 69)) and not ov:
                                bad.append("the well-formed continuation %r is rejected" % chr(b))
                        else:
                            bad.append("byte %d ends the reader with %r" % (b, v))
                    else:
                        bad.append("byte %d: %s %s" % (b, o.kind, o.value))
        rep.ob("C07-R4", "main:init=%s:dot=%s:N_is_zero=%s" % state, not bad,
               "main loop from state (started=%s, after point=%s, N=0 %s): %s" % (init, dot, "known" if zero else "unknown", "all byte classes as specified" if not bad else "; ".join(bad[:4])),
               body.site(), sample={"state": {"init": init, "dot": dot, "zero": zero}, "bytes": len(BYTES)})
    rep.count("reader steps", n_steps)
    rep.floor("C07-R4", "reachable main-loop states", len(seen), 4)
    # ---- end of input in the main loop ---------------------------------------------------------------------------
    for state in sorted(seen):
        init, dot, zero = state
        try:
            dom, it, outs = run((H1, seed_main(init, dot)), ["EOF"])
        except core.Undecided as e:
            rep.ob("C07-R4", "end:main:%s" % (state,), False, "undecided: %s" % e)
            continue
        x = T("/", N, T("pow", ten, d))
        good = len(outs) == 2
        got = []
        for o in outs:
            v = o.value
            r = v.field(0) if isinstance(v, Agg) and v.path == "std::result::Result" and v.vi == 0 else None
            q = r.field(0) if isinstance(r, Agg) and r.path == "rational::Rational" else None
            ng = dom.decide(o.store, Sym("neg"))
            got.append((ng, repr(q)))
            want = T("neg", x) if ng else x
            if o.kind != "ret" or q != want or ng is None:
                good = False
        rep.ob("C07-R4", "end:main:init=%s:dot=%s" % (init, dot), good, "at the end of a literal without exponent the value is %s; specified (-)N / 10^d" % got, body.site())
    # ---- exponent loop ----------------------------------------------------------------------------------------------
    if not rep.ob("C07-R4", "exponent-entry", exp_entry is not None, "the exponent loop is entered from the main loop on e / E"):
        return
    E = Sym("E")

    def seed_exp(init2, neg2=None):
        st = dict(exp_entry)
        st[(frame, L["exp"])] = E
        st[(frame, L["init2"])] = Const(init2)
        st[(frame, L["neg2"])] = Sym("eneg") if neg2 is None else Const(neg2)
        return st
    seen2 = set()
    work = [(False, True)]
    while work:
        state = work.pop()
        if state in seen2:
            continue
        seen2.add(state)
        init2, zero = state
        bad = []
        for b in BYTES:
            try:
                dom, it, outs = run((H2, seed_exp(init2)), [b, 53])
            except core.Undecided as e:
                bad.append("byte %d: undecided: %s" % (b, e))
                continue
            digit = 48 <= b <= 57
            dlt = b - 48
            for o in outs:
                if o.kind == "stop" and o.value == H2:
                    st = o.store
                    e2, i2 = val(it, st, "exp"), val(it, st, "init2")
                    if not digit:
                        bad.append("byte %d (%r) is accepted in the exponent" % (b, chr(b)))
                        continue
                    if e2 == T("i+", T("i*", E, Const(10)), Const(dlt)):
                        pass
                    elif e2 == E and zero and dlt == 0:
                        pass
                    else:
                        bad.append("exponent digit '%s': exponent becomes %r, expected E*10+%d" % (chr(b), e2, dlt))
                    if val(it, st, "out") != N or val(it, st, "dots") != d:
                        bad.append("exponent digit changes the mantissa")
                    z2 = zero and dlt == 0
                    if isinstance(i2, Const):
                        if not i2.v and not z2:
                            bad.append("exponent: still 'not started' after a non-zero digit")
                        work.append((bool(i2.v), z2))
                    else:
                        bad.append("exponent flag %r" % (i2,))
                elif o.kind == "stop":
                    bad.append("byte %d returns to the main loop" % b)
                elif o.kind == "ret":
                    v = o.value
                    is_err = isinstance(v, Agg) and v.path == "std::result::Result" and v.vi == 1
                    ov = any(isinstance(p, T) and p.op == "overflows" and bb for p, bb in dom.pc(o.store))
                    if not is_err:
                        bad.append("byte %d ends the reader with %r" % (b, v))
                    elif digit and not ov:
                        bad.append("exponent digit %r is rejected" % chr(b))
                else:
                    bad.append("byte %d: %s" % (b, o.kind))
        rep.ob("C07-R4", "exponent:init=%s:E_is_zero=%s" % state, not bad,
               "exponent loop from state (started=%s, E=0 %s): %s" % (init2, "known" if zero else "unknown", "all byte classes as specified" if not bad else "; ".join(bad[:4])),
               body.site())
    for init2 in sorted({s[0] for s in seen2}):
        for neg2 in (False, True):
            try:
                dom, it, outs = run((H2, seed_exp(init2, neg2)), ["EOF"])
            except core.Undecided as e:
                rep.ob("C07-R4", "end:exponent:%s:%s" % (init2, neg2), False, "undecided: %s" % e)
                continue
            p = T("pow", ten, E)
            x = T("/", T("/" if neg2 else "*", N, p), T("pow", ten, d))
            good = len(outs) == 2
            got = []
            for o in outs:
                v = o.value
                r = v.field(0) if isinstance(v, Agg) and v.path == "std::result::Result" and v.vi == 0 else None
                q = r.field(0) if isinstance(r, Agg) and r.path == "rational::Rational" else None
                ng = dom.decide(o.store, Sym("neg"))
                got.append((ng, repr(q)))
                if o.kind != "ret" or q != (T("neg", x) if ng else x) or ng is None:
                    good = False
            rep.ob("C07-R4", "end:exponent:init=%s:negative=%s" % (init2, neg2), good,
                   "at the end of the exponent the value is %s; specified (-)N %s 10^E / 10^d" % (got, "/" if neg2 else "*"), body.site())


# ---- R5: the lexer produces every well-formed literal as one NUMBER token ----------------------------------------
class PatternLexDomain(c12.LexDomain):
    """LexDomain over a reduced alphabet that records the class pattern of the consumed characters."""
    CLS = {"5": "D", "0": "D", ".": ".", "e": "e", "E": "e", "+": "+", "-": "-"}

    def call(self, it, name, args, store, term, frame):
        if name == self.n_step:
            outs = []
            for st in self.observe(store, 0):
                cur, nxt = self.lex(st)
                if cur == "EOF":
                    outs.append((core.UNIT, st))
                    continue
                pat = st.get(("pattern",), "")
                c = self.CLS.get(chr(cur), "x")
                if not (c in ("D", "x") and pat.endswith(c)) and not pat.endswith("~"):
                    pat = pat + c
                if not any(w.startswith(pat) for w in WELLFORMED):
                    pat = "~" + ("x" if "x" in pat or pat.startswith("~x") else "")
                st2 = self.setlex(st, nxt, None)
                st2[("pattern",)] = pat
                st2 = self.advance(it, st2, args[0])
                outs.append((core.UNIT, st2))
            return outs
        return super().call(it, name, args, store, term, frame)


def wellformed_patterns():
    out = []
    for s in ("", "+", "-"):
        for m in ("D", "D.", "D.D", ".D"):
            for e in ("", "eD", "e+D", "e-D"):
                out.append(s + m + e)
    return out


WELLFORMED = wellformed_patterns()


def r5_lexer(facts, rep):
    rep.rule("C07-R5", "the same number as a query: for each of the 48 shapes of a well-formed literal ([sign] digits [. digits] | "
                       ". digits, optional exponent with optional sign) an abstract run of Lexer::next shows a path on which exactly "
                       "that shape is consumed as one NUMBER token (so the query route hands the reader the whole literal); and no "
                       "NUMBER token contains a character the reader rejects in that position")
    body = anchor(rep, "C07-R5", facts, c12.NEXT)
    if body is None:
        return
    alphabet = [ord(c) for c in "50.eE+- x%"]
    ats = [(c, c) for c in sorted(set(alphabet))]
    number = facts.discr_of("syntax::parser::Syntax", "NUMBER")
    produced = {}
    for first in sorted(set(alphabet)):
        dom = PatternLexDomain(ats, facts=facts)
        it = core.Interp(facts, dom, budget=400000)
        st = dom.setlex({(0, 0): c12.lexer_value(False)}, first, None)
        try:
            outs = it.run(body, [Ref(0, 0)], st)
        except core.Undecided as e:
            rep.ob("C07-R5", "lexer:first=%s" % chr(first), False, "undecided: %s" % e)
            continue
        for o in outs:
            v = o.value
            tok = v.field(0) if isinstance(v, Agg) and v.vname == "Some" else None
            k = tok.field(1) if isinstance(tok, Agg) else None
            if isinstance(k, Agg) and k.vi == number:
                cur, nxt = dom.lex(o.store)
                produced.setdefault(o.store.get(("pattern",), ""), set()).add(cur)
    rep.count("NUMBER token shapes produced", len(produced))
    for pat in wellformed_patterns():
        followers = produced.get(pat, set())
        rep.ob("C07-R5", "literal-shape:%s" % pat, "EOF" in followers or ord(" ") in followers or ord("%") in followers,
               "the shape %s %s one NUMBER token" % (pat, "is lexed as" if followers else "is NOT lexed as"), body.site(),
               sample={"shape": pat, "followed_by": sorted(str(f) for f in followers)[:5]})
    # alphabet agreement: every produced shape consists of characters the reader accepts in a literal
    bad = sorted(p for p in produced if "x" in p)
    # a NUMBER token that is not a prefix-closed well-formed shape is reported only when it contains a foreign character
    rep.ob("C07-R5", "number-alphabet", not bad, "NUMBER tokens containing characters outside [0-9.eE+-]: %s" % bad)


def run(fx, rep, tier):
    rep.assume("BigRational / BigInt arithmetic is exact (C01)")
    facts = fx["dev"]
    r1_one_reader(facts, rep)
    r3_counters(facts, rep)
    r4_reader(facts, rep, tier)
    r5_lexer(facts, rep)
    if "rel" in fx:
        sub = type(rep)(rep.prop, rep.tier)
        r4_reader(fx["rel"], sub, "quick")
        for o in sub.obls:
            o["key"] += "[rel]"
            rep.obls.append(o)
