"""C07 - decimal literals are read exactly."""
from .. import facts as F
from .. import flow
from ..absint import core, chars
from ..absint.core import Agg, Const, TOP, Ref, UNIT, some, NONE, ok, err
from ..absint.term import TermDomain, EffectDomain, Sym, T, K, as_k
from .common import census, anchor
from . import c12

LEVEL = "other"

FROM_STR = "<rational::Rational as std::str::FromStr>::from_str"
PEEK = "std::iter::Peekable::<I>::peek"
NEXT = "<std::iter::Peekable<I> as std::iter::Iterator>::next"


# ---- R1: one reader ---------------------------------------------------------------------------------------------
def r1_one_reader(facts, rep):
    rep.rule("C07-R1", "one reader on exactly the literal's text: summaries of eval::eval on a NUMBER node and on a PERCENTAGE node "
                       "(scripted tree, helpers followed): the value is str::parse::<Rational> (= Rational::from_str) of exactly the "
                       "source text under the NUMBER node's span (divided by 100 for a percentage) and a failed parse is an error; no "
                       "other conversion of text to a Rational exists in the evaluator (the only other text-to-number conversion is "
                       "str::parse::<i32> for unit powers)")
    from . import evalnode, evalops
    sites = census(facts, lambda n: n == "core::str::<impl str>::parse")
    by = {}
    for b, bid, t, sp, name in sites:
        g = t["callee"].get("generics", "")
        ty = "Rational" if "rational::Rational" in g else ("i32" if "i32" in g else g)
        by.setdefault((b.path, ty), []).append((b, bid, t, sp))
    n_rat = 0
    for (path, ty), lst in sorted(by.items()):
        in_eval = path.startswith("eval::") and not path.startswith("eval::builtin")
        want = in_eval and ty in ("Rational", "i32")
        n_rat += len(lst) if ty == "Rational" else 0
        rep.ob("C07-R1", "parse:%s:%s" % ("eval" if in_eval else path, ty), want, "%d str::parse::<%s> call(s) in %s" % (len(lst), ty, path), lst[0][0].site(lst[0][3]))
    rep.floor("C07-R1", "literal parses in the evaluator", n_rat, 1)
    for label, tree, span in (("NUMBER", {0: {"kind": "NUMBER", "children": []}}, "span0"),
                              ("PERCENTAGE", {0: {"kind": "PERCENTAGE", "children": [1, 2]}, 1: {"kind": "NUMBER", "children": []},
                                              2: {"kind": "PERCENTAGE", "token": True}}, "span1")):
        try:
            dom, it, outs = evalnode.run_eval(facts, tree)
        except core.Undecided as e:
            rep.ob("C07-R1", "literal-text:%s" % label, False, "undecided: %s" % e)
            continue
        bad = []
        n_ok = n_err = 0
        text = T("text", Sym(span))
        for o in outs:
            if o.kind != "ret":
                bad.append("%s %s" % (o.kind, o.value))
                continue
            u = evalops.unpack(o.value)
            log = dom.log(o.store)
            if u[0] == "ok":
                n_ok += 1
                if repr(T("parse", text)) not in repr(u[1]) or repr(u[1]).count("parse(") != 1:
                    bad.append("the value %r is not read from the NUMBER node's own text %r" % (u[1], text))
                if any(e[0] == "parse-failed" for e in log):
                    bad.append("a failed parse still yields a value")
            elif u[0] == "err":
                n_err += 1
            else:
                bad.append("result %r" % (o.value,))
        rep.ob("C07-R1", "literal-text:%s" % label, not bad and n_ok >= 1 and n_err >= 1, "; ".join(bad[:3]) if bad else
               "%s: the literal text is the source under the NUMBER node's span, parsed once; a failed parse is an error" % label,
               facts.fn("eval::eval").site(), sample={"node": label, "ok_paths": n_ok})
    others = census(facts, lambda n: n in (FROM_STR, "rational::Rational::from_f64") or n.endswith("Num>::from_str_radix") or "parse_bytes" in n)
    for b, bid, t, sp, name in others:
        rep.ob("C07-R1", "other-reader:%s:%s" % (b.path, name.split("::")[-1]), b.path.startswith("eval::builtin::"),
               "%s converts to a Rational with %s" % (b.path, name), b.site(sp), nontrivial=False)
    q = facts.fn("query::Query::<'a>::source")
    if q is not None:
        idx = [n for b_, t, sp, n in q.calls() if "Index" in n]
        rep.ob("C07-R1", "Query::source", len(idx) == 1, "Query::source slices the query text with %s" % idx, q.site())


# ---- R3: counters -----------------------------------------------------------------------------------------------
def r3_counters(facts, rep):
    rep.rule("C07-R3", "independent of the literal's length: in the reader and the helpers it calls, the fixed-width counters "
                       "(fraction digits, exponent) are only updated with checked_add / checked_mul whose None leads to Err; the "
                       "only unchecked fixed-width arithmetic is `b - b'0'` under the digit range test")
    body = anchor(rep, "C07-R3", facts, FROM_STR)
    if body is None:
        return
    from ..callgraph import CallGraph
    cg = CallGraph(facts)
    tree = [facts.fn(p) for p in sorted(cg.reachable([FROM_STR])) if facts.fn(p) is not None and facts.fn(p).promoted < 0
            and (p == FROM_STR or p.startswith("rational::") or p.startswith(FROM_STR))]
    n = 0
    n_chk = 0
    for b in tree:
        if b.from_derive():
            continue
        for blk, i, s in b.stmts():
            rv = s["rv"]
            if rv["k"] == "binop" and rv["op"].replace("WithOverflow", "").replace("Unchecked", "") in ("Add", "Sub", "Mul", "Shl"):
                tys = {b.local_ty(F.op_local(o)) for o in (rv["a"], rv["b"]) if F.op_local(o) is not None}
                if not tys & {"u8", "u16", "u32", "u64", "usize", "i32", "i64"}:
                    continue
                n += 1
                consts = [F.const_val(o) for o in (rv["a"], rv["b"]) if o["k"] == "const"]
                okk = rv["op"].startswith("Sub") and consts == [48]
                rep.ob("C07-R3", "unchecked:%s:%s#%d" % (b.path.rsplit("::", 1)[-1], rv["op"], n), okk, "fixed-width %s with constants %s in %s" % (rv["op"], consts, b.path), b.site(s["span"]))
        n_chk += len(flow.calls_named(b, lambda n_: n_.startswith("core::num::<impl u32>::checked_") or n_.startswith("core::num::<impl usize>::checked_")))
    rep.floor("C07-R3", "checked counter updates in the reader's call tree", n_chk, 2)


# ---- R4: the reader as a transducer, inductive check --------------------------------------------------------------
def BS(p):
    return Agg("bslice", None, None, None, (Const(p),))


def furthest(store):
    """The furthest position a byte slice / slice iterator of the store has reached (None when the text is not held as one)."""
    best = None

    def walk(v):
        nonlocal best
        if isinstance(v, Agg):
            if v.kind in ("bslice", "bsiter"):
                best = v.field(0).v if best is None else max(best, v.field(0).v)
            else:
                for f in v.fields:
                    walk(f)
    for k, v in store.items():
        if isinstance(k, tuple) and len(k) == 2 and isinstance(k[0], int):
            walk(v)
    return best


def consumed_of(store):
    """What the segment consumed: bytes taken from the iterator, or the prefix up to the furthest slice held."""
    c = tuple(store.get(("consumed",), ()))
    f = furthest(store)
    if f is not None and f > len(c):
        s0 = c + tuple(store.get(("stream",), ()))
        return tuple(s0[:f])
    return c


def rebase(st):
    """A new segment starts where the text now stands: the furthest slice becomes position 0, older ones are dropped."""
    f = furthest(st)
    if f is None:
        return st

    def mv(v):
        if isinstance(v, Agg):
            if v.kind in ("bslice", "bsiter"):
                q = v.field(0).v - f
                return Agg(v.kind, None, None, None, (Const(q),)) if q >= 0 else TOP
            return Agg(v.kind, v.path, v.vi, v.vname, [mv(x) for x in v.fields])
        return v
    return {k: (mv(v) if isinstance(k, tuple) and len(k) == 2 and isinstance(k[0], int) else v) for k, v in st.items()}


class ReaderDomain(TermDomain):
    """The text is a scripted byte stream; every way of looking at / taking the next byte reads that script."""

    inline_depth = 8

    def __init__(self, facts):
        super().__init__()
        self.facts = facts
        self.uninterp = lambda n: facts.fn(n) is None

    def on_assert(self, it, body, t, sp, st, frame):
        return False

    @staticmethod
    def stream(store):
        return store.get(("stream",), ())

    # ---- the same text seen as a byte slice (`&[u8]` walked with slice patterns, `first`, `split_first`, `iter`) ----------
    # BS(p): the text from position p, counted from where the current segment began; the script of the segment is
    # consumed ++ stream.  Nothing is "consumed" by looking at a slice: how far the reader got is the furthest slice it holds.
    @staticmethod
    def script(store):
        return tuple(store.get(("consumed",), ())) + tuple(store.get(("stream",), ()))

    def _slice(self, it, store, v):
        for _ in range(4):
            if isinstance(v, Ref):
                v = it.read_ref(store, v)
        return v if isinstance(v, Agg) and v.kind in ("bslice", "bsiter") else None

    def _len(self, store, p):
        s0 = self.script(store)
        if "EOF" in s0:
            return Const(max(s0.index("EOF") - p, 0))
        return Agg("blen", None, None, None, (Const(max(len(s0) - p, 0)),))

    def _byte(self, store, q):
        s0 = self.script(store)
        if q >= len(s0):
            raise core.Undecided("the reader looks further ahead than one step allows")
        return s0[q]

    def rvalue_hook(self, it, store, frame, rv):
        if rv["k"] == "unop" and rv["op"] == "PtrMetadata":
            v = self._slice(it, store, it.operand(store, frame, rv["a"]))
            if v is not None and v.kind == "bslice":
                return self._len(store, v.field(0).v)
        return None

    def slice_proj(self, it, store, v, what, nums):
        v = self._slice(it, store, v)
        if v is None or v.kind != "bslice":
            return None
        p = v.field(0).v
        if what == "index" and nums.get("from_end") == "false":
            b = self._byte(store, p + int(nums["offset"]))
            if b == "EOF":
                raise core.Undecided("a byte past the end of the text is read")
            return Const(b)
        if what == "subslice" and nums.get("from_end") == "true" and int(nums.get("to", "0")) == 0:
            return BS(p + int(nums["from"]))
        return None

    def binop(self, op, a, b):
        for x, y, flip in ((a, b, False), (b, a, True)):
            if isinstance(x, Agg) and x.kind == "blen" and isinstance(y, Const):
                n, k = x.field(0).v, y.v
                o = {"Lt": "Gt", "Gt": "Lt", "Le": "Ge", "Ge": "Le"}.get(op, op) if flip else op
                # the length is at least n
                if o == "Ge" and k <= n:
                    return Const(True)
                if o == "Gt" and k < n:
                    return Const(True)
                if o == "Lt" and k <= n:
                    return Const(False)
                if o == "Le" and k < n:
                    return Const(False)
                if o == "Eq" and k < n:
                    return Const(False)
                if o == "Ne" and k < n:
                    return Const(True)
                raise core.Undecided("the reader asks for more of the text than one step allows")
        return super().binop(op, a, b)

    def _is_bytes(self, it, store, a):
        v = a
        for _ in range(4):
            if isinstance(v, Ref):
                v = it.read_ref(store, v)
        return v == Sym("bytes")

    def _peek(self, store):
        s = self.stream(store)
        if not s:
            raise core.Undecided("the reader looks further ahead than one step allows")
        return s[0]

    def _take(self, store):
        s = self.stream(store)
        if not s:
            raise core.Undecided("the reader consumes more than one step allows")
        if s[0] == "EOF":
            return None, store
        s2 = dict(store)
        s2[("stream",)] = s[1:]
        s2[("consumed",)] = store.get(("consumed",), ()) + (s[0],)
        return s[0], s2

    def call(self, it, name, args, store, term, frame):
        m = name.rsplit("::", 1)[-1]
        if args and self._is_bytes(it, store, args[0]):
            if m == "peek":
                b = self._peek(store)
                if b == "EOF":
                    return [(NONE, store)]
                st, ref = it.fresh_slot(store, Const(b))
                return [(some(ref), st)]
            if m == "next" and ("Iterator>::next" in name or name == "std::iter::Iterator::next"):
                b, st = self._take(store)
                return [(NONE if b is None else some(Const(b)), st)]
            if m in ("next_if", "next_if_eq") and len(args) == 2:
                b = self._peek(store)
                if b == "EOF":
                    return [(NONE, store)]
                if m == "next_if_eq":
                    want = it.read_ref(store, args[1])
                    hit = [(isinstance(want, Const) and want.v == b, store)]
                else:
                    st, ref = it.fresh_slot(store, Const(b))
                    r = it.apply_closure(it.read_ref(st, args[1]), [ref], st, getattr(it, "_cur_depth", 0))
                    if r is None:
                        raise core.Undecided("next_if with an unknown predicate")
                    hit = []
                    for k_, v_, s_ in r:
                        if k_ != "ret" or not isinstance(v_, Const):
                            raise core.Undecided("next_if predicate returns %r" % (v_,))
                        hit.append((bool(v_.v), s_))
                outs = []
                for h, st in hit:
                    if h:
                        b2, st2 = self._take(st)
                        outs.append((some(Const(b2)), st2))
                    else:
                        outs.append((NONE, st))
                return outs
            if m in ("into_iter", "by_ref", "peekable", "fuse"):
                return [(args[0] if isinstance(args[0], Ref) and m == "by_ref" else Sym("bytes"), store)]
        if name == "core::str::<impl str>::as_bytes":
            return [(BS(len(store.get(("consumed",), ()))), store)]
        sl = self._slice(it, store, args[0]) if args else None
        if sl is not None:
            p = sl.field(0).v
            if sl.kind == "bslice":
                if m == "len" and "slice" in name:
                    return [(self._len(store, p), store)]
                if m == "is_empty":
                    return [(Const(self._byte(store, p) == "EOF"), store)]
                if m in ("first", "split_first", "get") and "slice" in name:
                    if m == "get":
                        k_ = it.read_ref(store, args[1])
                        if not (isinstance(k_, Const) and isinstance(k_.v, int)):
                            return None
                        p += k_.v
                    b = self._byte(store, p)
                    if b == "EOF":
                        return [(NONE, store)]
                    st, ref = it.fresh_slot(store, Const(b))
                    if m == "split_first":
                        return [(some(Agg("tuple", None, None, None, (ref, BS(p + 1)))), st)]
                    return [(some(ref), st)]
                if m in ("iter", "into_iter") or name.endswith("IntoIterator>::into_iter"):
                    return [(Agg("bsiter", None, None, None, (Const(p),)), store)]
                if name.endswith("as std::ops::Deref>::deref") or m in ("as_ref", "borrow"):
                    return [(sl, store)]
            else:
                if m == "next" and ("Iterator>::next" in name or name == "std::iter::Iterator::next"):
                    b = self._byte(store, p)
                    if b == "EOF":
                        return [(NONE, store)]
                    st, ref = it.fresh_slot(store, Const(b))
                    st = it.write_ref(st, args[0], Agg("bsiter", None, None, None, (Const(p + 1),))) if isinstance(args[0], Ref) else st
                    return [(some(ref), st)]
                if m in ("into_iter", "by_ref", "copied", "cloned") or name.endswith("IntoIterator>::into_iter"):
                    return [(args[0] if isinstance(args[0], Ref) and m == "by_ref" else sl, store)]
                if m == "as_slice":
                    return [(BS(p), store)]
        if name in ("core::str::<impl str>::bytes",) or (m == "peekable" and args and it.read_ref(store, args[0]) == Sym("bytes")):
            return [(Sym("bytes"), store)]
        if name in ("core::str::<impl str>::bytes",) or (name.endswith("IntoIterator>::into_iter") and args and it.read_ref(store, args[0]) == Sym("bytes")):
            return [(Sym("bytes"), store)]
        if name.startswith("core::num::<impl u32>::checked_") and len(args) == 2:
            op = {"checked_mul": "i*", "checked_add": "i+"}.get(m)
            vals = [it.read_ref(store, a) for a in args]
            if op:
                if all(isinstance(v, Const) for v in vals):
                    r = vals[0].v * vals[1].v if op == "i*" else vals[0].v + vals[1].v
                    return [(some(Const(r)), store)] if r < 2 ** 32 else [(NONE, store)]
                t = T(op, vals[0], vals[1])
                return [(some(t), self.with_pc(store, T("overflows", t), False)), (NONE, self.with_pc(store, T("overflows", t), True))]
        return super().call(it, name, args, store, term, frame)


def byte_values(bodies, tier):
    """Quick tier: one representative of every interval of byte values that no comparison constant of the reader separates,
    every comparison constant, all ten digits and the bytes + - . E e of the specified alphabet; thorough tier: all 256 values."""
    if tier == "thorough":
        return list(range(256))
    consts = set()
    for body in bodies:
        for b in body.blocks:
            if b["cleanup"]:
                continue
            for s in b["stmts"]:
                if s["k"] == "assign" and s["rv"]["k"] == "binop":
                    for o in (s["rv"]["a"], s["rv"]["b"]):
                        if o["k"] == "const" and o.get("ty") == "u8" and o.get("val") is not None:
                            consts.add(int(o["val"]))
            t = b["term"]["t"]
            if t["k"] == "switch" and t.get("discr_ty") == "u8":
                for v, _ in t["targets"]:
                    consts.add(int(v))
    cuts = sorted({0, 256} | {c for c in consts} | {c + 1 for c in consts})
    # the specified alphabet is tried whatever the reader compares against: a reader that no longer mentions 'E' must
    # still be asked about 'E' (seeded C01-16)
    vals = set(range(48, 58)) | {43, 45, 46, 69, 101} | {c for c in consts if 0 <= c < 256}
    for a, b in zip(cuts, cuts[1:]):
        if a < 256:
            vals.add(a)
    return sorted(v for v in vals if 0 <= v < 256)


def r4_reader(facts, rep, tier="quick"):
    from ..absint import induct, evalterm
    from fractions import Fraction
    rep.rule("C07-R4", "the reader is the decimal-literal transducer (bisimulation with a value-level reference machine; inductive, "
                       "exhaustive over byte classes): with N standing for all digits read so far, d for the number of digits after the "
                       "point and E for the exponent digits, from every reachable pair (finite state of the code, reference state) and "
                       "for every byte value one turn of the mantissa loop yields N*10+digit (with d+1 exactly after the point), accepts "
                       "one point, hands over to the exponent loop on e/E with an optional sign, and rejects everything else; the "
                       "exponent loop accumulates E*10+digit with checked arithmetic; at the end the value is (-)N * 10^(+-E) / 10^d.  "
                       "Base case N = 0, d = 0.  The loops may sit in helper functions; their state is found by type, not by name")
    body = anchor(rep, "C07-R4", facts, FROM_STR)
    if body is None:
        return
    ind = induct.Induct(facts, body, lambda: ReaderDomain(facts), budget=80000)
    all_loops = ind.all_loops()
    if not rep.ob("C07-R4", "anchor:loops", len(all_loops) == 2, "the reader has a mantissa loop and an exponent loop (%d loops in its call tree)" % len(all_loops), body.site()):
        return
    bodies = [facts.fn(p) for p in sorted({p for p, _ in all_loops} | {body.path}) if facts.fn(p) is not None]
    BYTES = byte_values(bodies, tier)
    rep.count("byte values per state", len(BYTES))
    N, D, Ee, TEN = Sym("N"), Sym("d"), Sym("E"), K(10)
    GRID = [{"N": Fraction(n), "d": Fraction(d), "E": Fraction(e)} for n in (0, 7, 123) for d in (0, 1, 3) for e in (0, 2, 5)]

    def same(a, b, nzero=False, ezero=False):
        pc = []
        if nzero:
            pc.append((T("Eq", N, Const(0)), True))
        if ezero:
            pc.append((T("Eq", Ee, Const(0)), True))
        try:
            return evalterm.sem_eq(a, b, GRID, pc)[0]
        except evalterm.Unrecognised:
            return False

    # ---- base case: the prologue ---------------------------------------------------------------------------------------
    entry = {}
    bad = []
    for first in (45, 43, 53, 46, "EOF"):
        try:
            segs = ind.from_entry([Sym("text")], {("stream",): (first, 53)})
        except core.Undecided as e:
            bad.append("first byte %s: undecided: %s" % (first, e))
            continue
        if len(segs) != 1 or segs[0].kind != "stop":
            bad.append("first byte %s: the prologue ends in %s" % (first, segs))
            continue
        entry[first] = segs[0]
    if bad or len({s_.loop for s_ in entry.values()}) != 1:
        rep.ob("C07-R4", "prologue", False, "; ".join(bad[:3]) or "the prologue reaches different loops", body.site())
        return
    main = entry[53]
    MAIN = main.loop
    vt = {l: ty for l, ty in ind.variant(main).items() if ind.read(main, main.frame, l) is not TOP}
    flags, counters, numbers, _ = induct.classify_state(vt)
    inv_bools = [l for l, ty in ind.invariant_live(main).items() if ty == "bool"]
    signs = [l for l in inv_bools if ind.read(entry[45], main.frame, l) == Const(True) and ind.read(entry[53], main.frame, l) == Const(False)]
    okroles = len(numbers) == 1 and len(counters) == 1 and len(signs) == 1
    if not rep.ob("C07-R4", "anchor:state", okroles, "mantissa loop state by type: accumulator %s, fraction counter %s, flags %s, sign %s" % (
            numbers, counters, flags, signs), body.site()):
        return
    LN, LD, LS = numbers[0], counters[0], signs[0]
    F1 = main.frame

    def dval(v):
        if isinstance(v, Agg) and v.path == "std::option::Option":
            return v.field(0) if v.vi == 1 else Const(0)
        return v

    def flagstate(seg, fl, frame):
        return tuple(induct.flag_of(ind.read(seg, frame, l)) for l in fl)

    for first, sg in sorted(entry.items(), key=lambda x: str(x[0])):
        cons = consumed_of(sg.store)
        sgn = ind.read(sg, F1, LS)
        good = ind.read(sg, F1, LN) == K(0) and dval(ind.read(sg, F1, LD)) == Const(0) and sgn == Const(first == 45) \
            and cons == ((first,) if first in (45, 43) else ()) and flagstate(sg, flags, F1) == flagstate(main, flags, F1)
        rep.ob("C07-R4", "prologue:first=%s" % (chr(first) if isinstance(first, int) else first), good,
               "before the mantissa loop: accumulator %r (specified 0), fraction digits %r (0), negative = %r (specified %s), consumed %s (specified %s)" % (
                   ind.read(sg, F1, LN), dval(ind.read(sg, F1, LD)), sgn, first == 45, cons, "the sign" if first in (45, 43) else "nothing"), body.site())

    def seed_main(fs):
        st = dict(main.store)
        st[(F1, LN)] = N
        st[(F1, LS)] = Sym("neg")
        for l, f in zip(flags, fs):
            ty = vt[l].replace(" ", "")
            if ty == "bool":
                st[(F1, l)] = Const(bool(f))
            else:
                st[(F1, l)] = some(D) if f == "Some" else NONE
        if LD not in flags:
            st[(F1, LD)] = D
        st[("consumed",)] = ()
        st[("pc",)] = ()
        return rebase(st)

    # ---- mantissa loop: bisimulation over (code flags, (after point, N known zero)) ---------------------------------------
    init_fs = flagstate(main, flags, F1)
    work = [(init_fs, (False, True))]
    seen = set()
    exp_entry = None
    n_steps = 0
    while work:
        pair = work.pop()
        if pair in seen:
            continue
        seen.add(pair)
        if len(seen) > 40:
            rep.ob("C07-R4", "bisimulation", False, "more than 40 (code state, reference state) pairs")
            return
        fs, (after, nzero) = pair
        bad = []
        for b in BYTES:
            streams = [[b, 53]] if b not in (101, 69) else [[b, 45, 53], [b, 43, 53], [b, 53, 53], [b, "EOF"], [b, 120]]
            for stream in streams:
                n_steps += 1
                st0 = seed_main(fs)
                st0[("stream",)] = tuple(stream)
                try:
                    segs = ind.turn(main, st0)
                except core.Undecided as e:
                    bad.append("byte %d: undecided: %s" % (b, e))
                    continue
                digit = 48 <= b <= 57
                dlt = b - 48
                for sg in segs:
                    cons = consumed_of(sg.store)
                    if sg.kind == "stop" and sg.loop == MAIN:
                        n2, d2 = ind.read(sg, F1, LN), dval(ind.read(sg, F1, LD))
                        fs2 = flagstate(sg, flags, F1)
                        if cons != (b,) or None in fs2:
                            bad.append("byte %d: consumed %s, flags %r" % (b, cons, fs2))
                            continue
                        if digit:
                            if not same(n2, T("+", T("*", N, TEN), K(dlt)), nzero):
                                bad.append("digit '%s': accumulator becomes %r (N %s known to be 0), expected N*10+%d" % (chr(b), n2, "is" if nzero else "is NOT", dlt))
                            want_d = T("+", D, K(1)) if after else D
                            if not same(d2, want_d if LD not in flags or "Some" in fs else (K(1) if after else K(0))) and not same(d2, want_d):
                                bad.append("digit '%s' %s the point: fraction counter becomes %r, expected %r" % (chr(b), "after" if after else "before", d2, want_d))
                            work.append((fs2, (after, nzero and dlt == 0)))
                        elif b == 46:
                            if after:
                                bad.append("a second '.' is accepted")
                            if not same(n2, N, nzero) or not (same(d2, D) or (LD in flags and d2 == Const(0))):
                                bad.append("'.': accumulator %r, counter %r" % (n2, d2))
                            work.append((fs2, (True, nzero)))
                        else:
                            bad.append("byte %d (%r) is accepted by the mantissa loop" % (b, chr(b)))
                    elif sg.kind == "stop":
                        if b not in (101, 69):
                            bad.append("byte %d enters the exponent loop" % b)
                            continue
                        sign = stream[1]
                        want_cons = (b, sign) if sign in (45, 43) else (b,)
                        if cons != want_cons or not same(ind.read(sg, F1, LN), N, nzero) or not same(dval(ind.read(sg, F1, LD)), D if (LD not in flags or "Some" in fs) else K(0)):
                            bad.append("'%s' + %r: consumed %s, accumulator %r" % (chr(b), sign, cons, ind.read(sg, F1, LN)))
                        else:
                            exp_entry = exp_entry or {}
                            exp_entry[sign] = sg
                    elif sg.kind == "ret":
                        v = sg.value
                        is_err = isinstance(v, Agg) and v.path == "std::result::Result" and v.vi == 1
                        if is_err:
                            ov = any(isinstance(p_, T) and p_.op == "overflows" and bb for p_, bb in ind.dom.pc(sg.store))
                            if (digit or (b == 46 and not after) or b in (101, 69)) and not ov:
                                bad.append("the well-formed continuation %r is rejected" % chr(b))
                        else:
                            bad.append("byte %d ends the reader with %r" % (b, v))
                    else:
                        bad.append("byte %d: %s %s" % (b, sg.kind, sg.value))
        rep.ob("C07-R4", "main:%s:after_point=%s:N_is_zero=%s" % ("".join(str(x)[0] for x in fs), after, nzero), not bad,
               "mantissa loop from (code state %s, after point=%s, N=0 %s): %s" % (fs, after, "known" if nzero else "unknown", "all byte classes as specified" if not bad else "; ".join(bad[:4])),
               body.site(), sample={"code_state": [str(x) for x in fs], "after_point": after, "n_zero": nzero, "bytes": len(BYTES)})
    rep.count("reader steps", n_steps)
    rep.floor("C07-R4", "reachable mantissa-loop pairs", len(seen), 4)

    def result_value(sg):
        v = sg.value
        r = v.field(0) if isinstance(v, Agg) and v.path == "std::result::Result" and v.vi == 0 else None
        return r.field(0) if isinstance(r, Agg) and r.path == "rational::Rational" else None

    # ---- end of input in the mantissa loop --------------------------------------------------------------------------------
    for fs, (after, nzero) in sorted(seen, key=str):
        st0 = seed_main(fs)
        st0[("stream",)] = ("EOF",)
        try:
            segs = ind.turn(main, st0)
        except core.Undecided as e:
            rep.ob("C07-R4", "end:main:%s" % (fs,), False, "undecided: %s" % e)
            continue
        dd = D if (LD not in flags or "Some" in fs) else K(0)
        x = T("/", N, T("pow", TEN, dd))
        good = len(segs) == 2
        got = []
        for sg in segs:
            q = result_value(sg)
            ng = ind.dom.decide(sg.store, Sym("neg"))
            got.append((ng, repr(q)))
            if sg.kind != "ret" or q is None or ng is None or not same(q, T("neg", x) if ng else x, nzero):
                good = False
        rep.ob("C07-R4", "end:main:%s:after_point=%s" % ("".join(str(x_)[0] for x_ in fs), after), good,
               "at the end of a literal without exponent the value is %s; specified (-)N / 10^d" % got, body.site())
    # ---- exponent loop ------------------------------------------------------------------------------------------------------
    if not rep.ob("C07-R4", "exponent-entry", bool(exp_entry) and set(exp_entry) >= {45, 43, 53}, "the exponent loop is entered from the mantissa loop on e / E (signs seen: %s)" % sorted(map(str, exp_entry or {}))):
        return
    ex = exp_entry[53]
    F2 = ex.frame
    vt2 = {l: ty for l, ty in ind.variant(ex).items() if ind.read(ex, F2, l) is not TOP}
    flags2, counters2, numbers2, _ = induct.classify_state(vt2)
    inv2 = [l for l, ty in ind.invariant_live(ex).items() if ty == "bool"]
    esign = [l for l in inv2 if ind.read(exp_entry[45], F2, l) == Const(True) and ind.read(exp_entry[53], F2, l) == Const(False)]
    okx = len(counters2) == 1 and len(esign) == 1 and not numbers2
    if not rep.ob("C07-R4", "anchor:exponent-state", okx, "exponent loop state by type: counter %s, flags %s, sign %s%s" % (
            counters2, flags2, esign, "" if not numbers2 else "; the accumulator %s changes inside the loop" % numbers2), ex.body.site()):
        return
    LE, LES = counters2[0], esign[0]
    e0 = dval(ind.read(ex, F2, LE))
    rep.ob("C07-R4", "exponent:base", e0 == Const(0), "the exponent starts at %r (specified 0)" % (e0,), ex.body.site())
    for sign_, sg_ in sorted(exp_entry.items(), key=lambda kv: str(kv[0])):
        v_ = ind.read(sg_, F2, LES)
        rep.ob("C07-R4", "exponent:sign=%s" % (chr(sign_) if sign_ in (45, 43) else "none"), v_ == Const(sign_ == 45),
               "after e%s the exponent is negative = %r (specified %s)" % (chr(sign_) if sign_ in (45, 43) else "", v_, sign_ == 45), ex.body.site())

    def seed_exp(fs, eneg=None):
        st = dict(ex.store)
        st[(F2, LE)] = Ee
        for l, f in zip(flags2, fs):
            if vt2[l].replace(" ", "") == "bool":
                st[(F2, l)] = Const(bool(f))
        st[(F2, LES)] = Sym("eneg") if eneg is None else Const(eneg)
        st[("consumed",)] = ()
        st[("pc",)] = ()
        return rebase(st)

    seen2 = set()
    work = [(flagstate(ex, flags2, F2), True)]
    while work:
        pair = work.pop()
        if pair in seen2:
            continue
        seen2.add(pair)
        if len(seen2) > 24:
            break
        fs, ezero = pair
        bad = []
        for b in BYTES:
            st0 = seed_exp(fs)
            st0[("stream",)] = (b, 53)
            try:
                segs = ind.turn(ex, st0)
            except core.Undecided as e:
                bad.append("byte %d: undecided: %s" % (b, e))
                continue
            digit = 48 <= b <= 57
            dlt = b - 48
            for sg in segs:
                if sg.kind == "stop" and sg.loop == ex.loop:
                    if not digit:
                        bad.append("byte %d (%r) is accepted in the exponent" % (b, chr(b)))
                        continue
                    e2 = dval(ind.read(sg, F2, LE))
                    if not same(e2, T("+", T("*", Ee, TEN), K(dlt)), ezero=ezero):
                        bad.append("exponent digit '%s': exponent becomes %r, expected E*10+%d" % (chr(b), e2, dlt))
                    if not same(ind.read(sg, F1, LN), N) or consumed_of(sg.store) != (b,):
                        bad.append("exponent digit changes the mantissa or consumes %s" % (consumed_of(sg.store),))
                    fs2 = flagstate(sg, flags2, F2)
                    if None in fs2:
                        bad.append("exponent flags %r" % (fs2,))
                    else:
                        work.append((fs2, ezero and dlt == 0))
                elif sg.kind == "stop":
                    bad.append("byte %d returns to the mantissa loop" % b)
                elif sg.kind == "ret":
                    v = sg.value
                    is_err = isinstance(v, Agg) and v.path == "std::result::Result" and v.vi == 1
                    ov = any(isinstance(p_, T) and p_.op == "overflows" and bb for p_, bb in ind.dom.pc(sg.store))
                    if not is_err:
                        bad.append("byte %d ends the reader with %r" % (b, v))
                    elif digit and not ov:
                        bad.append("exponent digit %r is rejected" % chr(b))
                else:
                    bad.append("byte %d: %s" % (b, sg.kind))
        rep.ob("C07-R4", "exponent:%s:E_is_zero=%s" % ("".join(str(x)[0] for x in fs), ezero), not bad,
               "exponent loop from (code state %s, E=0 %s): %s" % (fs, "known" if ezero else "unknown", "all byte classes as specified" if not bad else "; ".join(bad[:4])),
               ex.body.site())
    for fs in sorted({p[0] for p in seen2}, key=str):
        for eneg in (False, True):
            st0 = seed_exp(fs, eneg)
            st0[("stream",)] = ("EOF",)
            try:
                segs = ind.turn(ex, st0)
            except core.Undecided as e:
                rep.ob("C07-R4", "end:exponent:%s:%s" % (fs, eneg), False, "undecided: %s" % e)
                continue
            p10 = T("pow", TEN, Ee)
            x = T("/", T("/" if eneg else "*", N, p10), T("pow", TEN, D))
            good = len(segs) == 2
            got = []
            for sg in segs:
                q = result_value(sg)
                ng = ind.dom.decide(sg.store, Sym("neg"))
                got.append((ng, repr(q)))
                if sg.kind != "ret" or q is None or ng is None or not (same(q, T("neg", x) if ng else x) or same(q, subst_d0(T("neg", x) if ng else x))):
                    good = False
            rep.ob("C07-R4", "end:exponent:%s:negative=%s" % ("".join(str(x_)[0] for x_ in fs), eneg), good,
                   "at the end of the exponent the value is %s; specified (-)N %s 10^E / 10^d" % (got, "/" if eneg else "*"), body.site())


def subst_d0(t):
    """The same term with d = 0 (a literal whose code state says 'no point seen' carries no counter)."""
    if isinstance(t, Sym) and t.name == "d":
        return K(0)
    if isinstance(t, T):
        return T(t.op, *[subst_d0(a) for a in t.args])
    return t


# ---- R5: the lexer produces every well-formed literal as one NUMBER token ----------------------------------------
class PatternLexDomain(c12.LexDomain):
    """LexDomain over a reduced alphabet that records the class pattern of the consumed characters."""
    CLS = {"5": "D", "0": "D", ".": ".", "e": "e", "E": "E", "+": "+", "-": "-"}

    def call(self, it, name, args, store, term, frame):
        if name == self.n_step:
            outs = []
            for st in self.observe(store, 0):
                cur, nxt = self.lex(st)
                if cur == "EOF":
                    outs.append((core.UNIT, st))
                    continue
                pat = st.get(("pattern",), "")
                c = self.CLS.get(chr(cur), "x")
                if not (c in ("D", "x") and pat.endswith(c)) and not pat.endswith("~"):
                    pat = pat + c
                if not any(w.startswith(pat) for w in WELLFORMED):
                    pat = "~" + ("x" if "x" in pat or pat.startswith("~x") else "")
                st2 = self.setlex(st, nxt, None)
                st2[("pattern",)] = pat
                st2 = self.advance(it, st2, args[0])
                outs.append((core.UNIT, st2))
            return outs
        return super().call(it, name, args, store, term, frame)


def wellformed_patterns():
    out = []
    for s in ("", "+", "-"):
        for m in ("D", "D.", "D.D", ".D"):
            for e in ("", "eD", "e+D", "e-D", "ED", "E+D", "E-D"):
                out.append(s + m + e)
    return out


WELLFORMED = wellformed_patterns()


def r5_lexer(facts, rep):
    rep.rule("C07-R5", "the same number as a query: for each of the 84 shapes of a well-formed literal ([sign] digits [. digits] | "
                       ". digits, optional exponent marker e or E with optional sign) an abstract run of Lexer::next shows a path on which exactly "
                       "that shape is consumed as one NUMBER token (so the query route hands the reader the whole literal); and no "
                       "NUMBER token contains a character the reader rejects in that position")
    body = anchor(rep, "C07-R5", facts, c12.NEXT)
    if body is None:
        return
    alphabet = [ord(c) for c in "50.eE+- x%"]
    ats = [(c, c) for c in sorted(set(alphabet))]
    number = facts.discr_of("syntax::parser::Syntax", "NUMBER")
    produced = {}
    for first in sorted(set(alphabet)):
        dom = PatternLexDomain(ats, facts=facts)
        it = core.Interp(facts, dom, budget=400000)
        st = dom.setlex({(0, 0): c12.lexer_value(False, facts)}, first, None)
        try:
            outs = it.run(body, [Ref(0, 0)], st)
        except core.Undecided as e:
            rep.ob("C07-R5", "lexer:first=%s" % chr(first), False, "undecided: %s" % e)
            continue
        for o in outs:
            v = o.value
            tok = v.field(0) if isinstance(v, Agg) and v.vname == "Some" else None
            k = tok.field(1) if isinstance(tok, Agg) else None
            if isinstance(k, Agg) and k.vi == number:
                cur, nxt = dom.lex(o.store)
                produced.setdefault(o.store.get(("pattern",), ""), set()).add(cur)
    rep.count("NUMBER token shapes produced", len(produced))
    for pat in wellformed_patterns():
        followers = produced.get(pat, set())
        rep.ob("C07-R5", "literal-shape:%s" % pat, "EOF" in followers or ord(" ") in followers or ord("%") in followers,
               "the shape %s %s one NUMBER token" % (pat, "is lexed as" if followers else "is NOT lexed as"), body.site(),
               sample={"shape": pat, "followed_by": sorted(str(f) for f in followers)[:5]})
    # alphabet agreement: every produced shape consists of characters the reader accepts in a literal
    bad = sorted(p for p in produced if "x" in p)
    # a NUMBER token that is not a prefix-closed well-formed shape is reported only when it contains a foreign character
    rep.ob("C07-R5", "number-alphabet", not bad, "NUMBER tokens containing characters outside [0-9.eE+-]: %s" % bad)


def run(fx, rep, tier):
    rep.assume("BigRational / BigInt arithmetic is exact (C01)")
    facts = fx["dev"]
    r1_one_reader(facts, rep)
    r3_counters(facts, rep)
    r4_reader(facts, rep, tier)
    r5_lexer(facts, rep)
    rep.rule("C07-R6", "a percent literal is its own decimal text divided by 100 (the literal's denominator is not dropped): "
                       "shared with C01-R5")
    from . import c01
    sub = type(rep)(rep.prop, rep.tier)
    c01.r5_percent(facts, sub)
    for o in sub.obls:
        o["rule"] = "C07-R6"
        rep.obls.append(o)
    if "rel" in fx:
        sub = type(rep)(rep.prop, rep.tier)
        r4_reader(fx["rel"], sub, "quick")
        for o in sub.obls:
            o["key"] += "[rel]"
            rep.obls.append(o)
