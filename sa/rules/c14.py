"""C14 - fact lookups do not depend on how the index was built."""
from .. import facts as F
from .. import flow
from ..absint import core
from .common import census, anchor, const_str_args, const_int_args

LEVEL = "other"


def writer_sites(facts):
    return census(facts, lambda n: n.startswith("tantivy::Index::writer"))


def r1_single_writer(facts, rep):
    rep.rule("C14-R1", "schedule independence: every IndexWriter of the crate is created by "
                       "Index::writer_with_num_threads with the constant 1 (one indexing thread => documents get "
                       "their ids in insertion order, so equal scores are broken the same way on every build); "
                       "Index::writer (thread count taken from the machine) is a violation")
    sites = writer_sites(facts)
    for body, bid, t, sp, name in sites:
        key = "%s:%s" % (body.path, name.split("::")[-1])
        if name == "tantivy::Index::writer_with_num_threads":
            n = None
            if len(t["args"]) >= 2:
                n = F.const_val(t["args"][1]) if t["args"][1]["k"] == "const" else None
            rep.ob("C14-R1", key, n == 1,
                   "index writer created with %s indexing thread(s)" % ("a non-constant number of" if n is None else n),
                   body.site(sp), sample={"fn": body.path, "callee": name, "threads": n})
        else:
            rep.ob("C14-R1", key, False,
                   "index writer created by %s: the number of indexing threads comes from the machine, documents of "
                   "one build are spread over several segments in a schedule-dependent order and equal-score ties "
                   "(TopDocs::with_limit(1)) are broken differently from build to build" % name, body.site(sp))
    rep.floor("C14-R1", "index writer creation sites", len(sites), 1)


def r2_tokenizer(facts, rep):
    rep.rule("C14-R2", "the n-gram tokenizer is registered under the schema's tokenizer name on every path of "
                       "open_inner before any writer / document / Ok(db); both index-creation paths use build_schema(); "
                       "indexing and querying use the same field, data is read from the other")
    body = anchor(rep, "C14-R2", facts, "db::Db::open_inner")
    schema = anchor(rep, "C14-R2", facts, "db::build_schema")
    if body is None or schema is None:
        return
    # the name the tokenizer is registered under: from the session summaries of open_inner (helpers followed); that the
    # registration comes before any writer / load / Ok(db) on every path is C14-R5's effect order
    from . import c15
    reg_names = set()
    n_reg = 0
    for in_memory in (True, False):
        try:
            dom_, it_, body_, outs_ = c15.open_inner_summary(facts, in_memory)
        except core.Undecided as e:
            rep.ob("C14-R2", "tokenizer-name-agreement", False, "undecided: %s" % e, body.site())
            return
        for o in outs_:
            for e in dom_.log(o.store):
                if e[0] == "register":
                    n_reg += 1
                    for v in e[1:]:
                        if isinstance(v, core.Const) and isinstance(v.v, str):
                            reg_names.add(v.v)
    rep.floor("C14-R2", "tokenizer registrations in open_inner", n_reg, 1)
    sets = flow.calls_named(schema, lambda n: n.endswith("TextFieldIndexing::set_tokenizer"))
    set_names = set()
    for bid, t, sp, name in sets:
        set_names |= set(const_str_args(t, schema, facts))
    rep.floor("C14-R2", "set_tokenizer calls in build_schema", len(sets), 1)
    rep.ob("C14-R2", "tokenizer-name-agreement", bool(reg_names) and reg_names == set_names,
           "tokenizer registered as %s, schema indexes with %s" % (sorted(reg_names), sorted(set_names)),
           body.site(), sample={"registered": sorted(reg_names), "schema": sorted(set_names)})
    # both creation paths take their schema from build_schema()
    for cname in ("tantivy::Index::create_in_ram", "tantivy::Index::create_in_dir"):
        sites = census(facts, lambda n, c=cname: n == c)
        rep.floor("C14-R2", cname, len(sites), 1)
        for b2, bid, t, sp, name in sites:
            arg = t["args"][-1]
            leaves = flow.slice_back(b2, arg)
            okk = ("call", "db::build_schema", ) in {(l[0], l[1]) for l in leaves if l[0] == "call"}
            rep.ob("C14-R2", "schema-of:%s@%s" % (cname.split("::")[-1], b2.path), okk,
                   "schema argument of %s comes from %s" % (cname, sorted(str(l) for l in leaves)), b2.site(sp))
    # field names: open_inner asks the schema for the names build_schema defines
    adds = {}
    for bid, t, sp, name in flow.calls_named(schema, lambda n: "SchemaBuilder::add_" in n):
        for s in const_str_args(t, schema, facts):
            adds[s] = name.split("::")[-1]
    gets = {}
    for bid, t, sp, name in flow.calls_named(body, lambda n: n.endswith("Schema::get_field")):
        for s in const_str_args(t, body, facts):
            gets[s] = body.site(sp)
    rep.ob("C14-R2", "schema-fields", set(gets) <= set(adds) and len(gets) >= 2,
           "open_inner looks up fields %s; build_schema defines %s" % (sorted(gets), adds), body.site(),
           sample={"defined": adds, "looked_up": sorted(gets)})
    # the text field is the one carrying the tokenizer options; the bytes field stores the payload
    text_fields = [k for k, v in adds.items() if v == "add_text_field"]
    bytes_fields = [k for k, v in adds.items() if v == "add_bytes_field"]
    # which struct field gets which looked-up name
    assign = {}
    for b, i, s in body.stmts():
        rv = s["rv"]
        if rv["k"] == "aggregate" and rv["kind"].get("path") == "db::Db":
            adt = facts.adt("db::Db")
            names = [f["name"] for f in adt["variants"][0]["fields"]] if adt else []
            for fname, op in zip(names, rv["ops"]):
                if fname in ("field_data", "field_name"):
                    ls = flow.slice_back(body, op)
                    # which get_field call feeds it
                    for l in ls:
                        if l[0] == "call" and l[1].endswith("Option::<T>::ok_or_else"):
                            t2 = body.blocks[l[2]]["term"]["t"]
                            for l2 in flow.slice_back(body, t2["args"][0]):
                                if l2[0] == "call" and l2[1].endswith("Schema::get_field"):
                                    assign[fname] = const_str_args(body.blocks[l2[2]]["term"]["t"], body, facts)
                        if l[0] == "call" and l[1].endswith("Schema::get_field"):
                            assign[fname] = const_str_args(body.blocks[l[2]]["term"]["t"], body, facts)
    rep.ob("C14-R2", "field-binding", assign.get("field_name") == text_fields and assign.get("field_data") == bytes_fields
           and len(text_fields) == 1 and len(bytes_fields) == 1,
           "Db.field_name <- get_field(%s), Db.field_data <- get_field(%s); text field(s) %s, bytes field(s) %s" % (
               assign.get("field_name"), assign.get("field_data"), text_fields, bytes_fields), body.site(),
           sample={"binding": assign})
    # use sites
    lb = anchor(rep, "C14-R2", facts, "db::Db::load_bytes")
    # use sites: lookup reads the index through the text field and the payload through the bytes field (effect summary of
    # Db::lookup, helpers followed - shared with C16-R2)
    from . import c16
    s2 = type(rep)(rep.prop, rep.tier)
    c16.r2_lookup(facts, s2, rule="C14-R2")
    for o in s2.obls:
        o["key"] = "lookup:fields" if o["key"] == "lookup" else o["key"]
        rep.obls.append(o)


def r3_loop(facts, rep):
    rep.rule("C14-R3", "every shipped asset is indexed, in asset order: in the session summary of Db::open_inner (two symbolic "
                       "assets, helpers followed; shared with C15-R6) every successfully built session loads asset i exactly once "
                       "unless its name was compared equal to the sources asset or the asset lookup returned None, and the loads "
                       "happen in the order of Config::assets()")
    from . import c15
    if anchor(rep, "C14-R3", facts, "db::Db::open_inner") is None:
        return
    src_name = facts.const("db::SOURCES_BIN_GZ")
    n_paths = 0
    n_loads = 0
    bad = []
    for in_memory in (True, False):
        try:
            dom, it, body, outs = c15.open_inner_summary(facts, in_memory)
        except Exception as e:  # Undecided and friends
            bad.append("undecided: %s" % e)
            continue
        for o in outs:
            if o.kind != "ret":
                continue
            log = dom.log(o.store)
            labels = [e[0] for e in log]
            if "fail" in labels or "commit" not in labels:
                continue
            n_paths += 1
            pc = dom.pc(o.store)
            loaded = []
            for e in log:
                if e[0] == "load":
                    txt = repr(e[-1])
                    idx = [i for i in (0, 1) if "asset%d" % i in txt]
                    loaded.append(idx[0] if len(idx) == 1 and "get_asset" in txt else None)
            n_loads += len(loaded)
            if None in loaded:
                bad.append("load_bytes is given something that is not the looked-up content of one asset")
                continue
            if loaded != sorted(loaded) or len(set(loaded)) != len(loaded):
                bad.append("assets are loaded in the order %s" % loaded)
            for i in (0, 1):
                is_src = c15.compared_equal([(p_, b_) for p_, b_ in pc if "asset%d" % i in repr(p_)], "asset%d" % i, str(src_name))
                missing = any("get_asset" in repr(p_) and "asset%d" % i in repr(p_) and "discr" in repr(p_) and b_ is False for p_, b_ in pc)
                if i not in loaded and not (is_src or missing):
                    bad.append("asset %d is not indexed although it was neither compared equal to %r nor missing (path: %s)" % (
                        i, src_name, "; ".join("%r=%s" % (p_, b_) for p_, b_ in pc if "asset%d" % i in repr(p_))[:300]))
                if i in loaded and is_src:
                    bad.append("the sources asset is indexed as a document")
    rep.ob("C14-R3", "every-asset-indexed", not bad and n_paths >= 4 and n_loads >= 2, "; ".join(sorted(set(bad))[:3]) if bad else
           "%d successfully built sessions: each asset loaded once, in order, unless it is the sources asset or missing (%d loads)" % (n_paths, n_loads),
           facts.fn("db::Db::open_inner").site(), sample={"paths": n_paths, "loads": n_loads})


HASH_ITER = ("::iter", "::iter_mut", "::into_iter", "::values", "::into_values", "::keys", "::into_keys", "::drain",
             "::values_mut", "::retain", "::extract_if")


def r4_insertion_order(facts, rep):
    rep.rule("C14-R4", "documents are added in a deterministic order: no function on the index-building path (reachable from "
                       "Db::open_inner) iterates a hash-based collection, and Db::load_bytes adds the constants of a document "
                       "in document order (path summary shared with C16-R1)")
    from ..callgraph import CallGraph
    cg = CallGraph(facts)
    reach = cg.reachable(["db::Db::open_inner"])
    n = 0
    for p in sorted(reach):
        b = cg.local.get(p)
        if b is None or b.from_derive():
            continue
        n += 1
        for blk, t, sp, name in b.calls():
            if ("HashMap" in name or "HashSet" in name or "hash_map" in name or "hash_set" in name or "hashbrown" in name) \
                    and any(name.endswith(x) or (x + "<") in name for x in HASH_ITER):
                rep.ob("C14-R4", "hash-iteration:%s:%s" % (p, name.split("::")[-1]), False,
                       "%s iterates a hash-based collection (%s): iteration order differs between builds / processes, so "
                       "documents would get different ids from build to build" % (p, name), b.site(sp))
            if "IntoIterator>::into_iter" in name and t["args"]:
                ty = b.local_ty(t["args"][0]["place"]["local"]) if t["args"][0]["k"] in ("copy", "move") else ""
                if "HashMap" in ty or "HashSet" in ty or "hash_map" in ty or "hash_set" in ty:
                    rep.ob("C14-R4", "hash-iteration:%s:into_iter" % p, False,
                           "%s iterates a value of type %s" % (p, ty), b.site(sp))
    rep.count("functions on the index-building path", n)
    rep.ob("C14-R4", "no-hash-iteration-census", n >= 5, "%d hand-written functions reachable from open_inner were scanned" % n)
    from . import c16
    sub = type(rep)(rep.prop, rep.tier)
    c16.r1_load_bytes(facts, sub)
    for o in sub.obls:
        o["rule"] = "C14-R4"
        rep.obls.append(o)


def r6_one_segment(facts, rep):
    rep.rule("C14-R6", "one segment per build: the documents of a build are committed once, after the last asset (the session "
                       "summary has exactly one commit, C14-R5); no function reachable from Db::load_bytes commits, merges or "
                       "opens a writer, so that the index of a build is one segment in insertion order (several segments are "
                       "ordered by tantivy through a randomly seeded map, and equal scores are then broken differently from "
                       "build to build)")
    from ..callgraph import CallGraph
    cg = CallGraph(facts)
    if facts.fn("db::Db::load_bytes") is None:
        rep.ob("C14-R6", "anchor:db::Db::load_bytes", False, "anchor not found")
        return
    reach = cg.reachable(["db::Db::load_bytes"])
    seg = ("tantivy::IndexWriter::commit", "tantivy::IndexWriter::prepare_commit", "tantivy::IndexWriter::merge",
           "tantivy::IndexWriter::garbage_collect_files", "tantivy::Index::writer", "tantivy::IndexWriter::rollback",
           "tantivy::IndexWriter::delete_all_documents", "tantivy::IndexWriter::delete_term", "tantivy::PreparedCommit")
    n = 0
    for p in sorted(reach):
        b = cg.local.get(p)
        if b is None:
            continue
        n += 1
        for blk, t, sp, name in b.calls():
            if any(name.startswith(x) for x in seg):
                rep.ob("C14-R6", "segment-op:%s:%s" % (p, name.rsplit("::", 1)[-1]), False,
                       "%s, on the loading path of an asset, calls %s: the build is no longer one segment written in one go" % (p, name),
                       b.site(sp))
    # positive control: the commit of the session itself is seen by the same census
    sess = cg.reachable(["db::Db::open_inner"])
    commits = [(p, name) for p in sess for blk, t, sp, name in (cg.local[p].calls() if p in cg.local else []) if name.startswith("tantivy::IndexWriter::commit")]
    rep.ob("C14-R6", "load-path-census", n >= 1 and len(commits) >= 1,
           "%d function(s) on the loading path scanned; the session's own commit is found in %s" % (n, sorted({p for p, _ in commits})))


def run(fx, rep, tier):
    rep.assume("tantivy with one indexing thread assigns document ids in insertion order and breaks equal scores by "
               "document address (trusted); rust-embed iterates assets in a fixed order (trusted)")
    for cfg, facts in fx.items():
        if cfg != "dev":
            continue
        r1_single_writer(facts, rep)
        r2_tokenizer(facts, rep)
        r3_loop(facts, rep)
        r4_insertion_order(facts, rep)
        r6_one_segment(facts, rep)
        from . import c15
        rep.rule("C14-R5", "every kind of session serves a fully built index (path summary of Db::open_inner shared with C15-R6)")
        c15.r6_session(facts, rep, rule="C14-R5")
        rep.rule("C14-R7", "a re-opened on-disk index is a complete index of this build's data: the marker never outlives the "
                           "index it describes, an index is trusted only behind version equality, and the hash that is compared "
                           "covers every asset (shared with C15-R3, C15-R4, C15-R7)")
        s7 = type(rep)(rep.prop, rep.tier)
        c15.r3_invalidate_before_destroy(facts, s7)
        c15.r4_trust_conditions(facts, s7)
        c15.r7_hash_covers(facts, s7, rule="C14-R7")
        for o in s7.obls:
            o["rule"] = "C14-R7"
            rep.obls.append(o)
    if "rel" in fx:
        # flow rules re-evaluated on the release-like MIR
        sub = type(rep)(rep.prop, rep.tier)
        r1_single_writer(fx["rel"], sub)
        r2_tokenizer(fx["rel"], sub)
        r3_loop(fx["rel"], sub)
        for o in sub.obls:
            o["key"] += "[rel]"
            rep.obls.append(o)
