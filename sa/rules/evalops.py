"""Path summaries of eval::{add, sub, mul, div, pow} shared by C01, C02, C04, C11 and C13."""
from .. import facts as F
from .. import loops
from ..absint import core
from ..absint.core import Agg, Const, TOP, Ref, ok, err, some, NONE, UNIT
from ..absint.term import EffectDomain, TermDomain, Sym, T, K


def compound(sym):
    return Agg("adt", "compound::Compound", 0, "Compound", (Sym(sym),))


def numeric(nm):
    return Agg("adt", "numeric::Numeric", 0, "Numeric",
               (Agg("adt", "rational::Rational", 0, "Rational", (Sym(nm + ".value"),)), compound(nm + ".unit")))


def unit_sym(v):
    """Compound value -> its symbolic name term."""
    if isinstance(v, Agg) and v.path == "compound::Compound":
        return v.field(0)
    return v


class OpsDomain(EffectDomain):
    """Compound::factor / Compound::mul / Compound::pow are summarised by their contracts when no side is known empty;
    with an empty side Compound::factor is analysed for real (its early return)."""

    def __init__(self, facts):
        super().__init__(effects={}, oracle=self._oracle)
        self.facts = facts
        # hand-written functions of the crate are analysed (inlined); everything else is an uninterpreted term
        self.uninterp = lambda n: facts.fn(n) is None

    def empty(self, store, compound_value):
        return self.decide(store, T("is_empty", unit_sym(compound_value)))

    def _oracle(self, dom, it, name, args, vals, store):
        if name.startswith("std::collections::BTreeMap::<K, V") and name.endswith("::is_empty"):
            return self.fork(store, T("is_empty", vals[0]))
        if name == "compound::Compound::factor":
            a, b = vals[0], vals[1]
            ea, eb = self.empty(store, a), self.empty(store, b)
            if ea or eb:
                return None  # analyse the real early return
            if ea is None or eb is None:
                return None
            old = vals[2]
            oldv = old.field(0) if isinstance(old, Agg) else old
            conv = Agg("adt", "rational::Rational", 0, "Rational", (T("conv", oldv, unit_sym(b), unit_sym(a)),))
            st_ok = self.with_log(it.write_ref(store, args[2], conv), ("factor", "commensurable"))
            return [(ok(Const(True)), st_ok),
                    (ok(Const(False)), self.with_log(store, ("factor", "incommensurable"))),
                    (err(Agg("adt", "compound::CompoundError", 0, "CompoundError", ())),
                     self.with_log(it.write_ref(store, args[2], TOP), ("factor", "error")))]
        if name == "compound::Compound::mul":
            a, b, n = vals[0], vals[1], vals[2]
            lv = vals[3].field(0) if isinstance(vals[3], Agg) else vals[3]
            rv = vals[4].field(0) if isinstance(vals[4], Agg) else vals[4]
            ua, ub = unit_sym(a), unit_sym(b)
            u = compound(None)
            u = Agg("adt", "compound::Compound", 0, "Compound", (T("unit_mul", ua, ub, n),))
            st = it.write_ref(store, args[3], Agg("adt", "rational::Rational", 0, "Rational", (T("mul_lhs", lv, ua, ub, n),)))
            st = it.write_ref(st, args[4], Agg("adt", "rational::Rational", 0, "Rational", (T("mul_rhs", rv, ua, ub, n),)))
            return [(ok(u), self.with_log(st, ("unit_mul", "ok"))),
                    (err(Agg("adt", "compound::CompoundError", 0, "CompoundError", ())),
                     self.with_log(it.havoc(store, [args[3], args[4]]), ("unit_mul", "error")))]
        if name == "compound::Compound::pow":
            u = Agg("adt", "compound::Compound", 0, "Compound", (T("unit_pow", unit_sym(vals[0]), vals[1]),))
            return [(some(u), store), (NONE, self.with_log(store, ("unit_pow", "overflow")))]
        if name.endswith("PartialEq>::eq") and len(vals) == 2:
            for x, y in ((vals[0], vals[1]), (vals[1], vals[0])):
                if isinstance(x, T) and x.op == "sign" and isinstance(y, Agg) and y.vname:
                    return self.fork(store, T("sign_is", x.args[0], Const(y.vname)))
        return None


def seed_pc(store, facts_):
    s = dict(store)
    s[("pc",)] = tuple(facts_)
    return s


EMPTY_CLASSES = [(True, True), (True, False), (False, True), (False, False)]


def run_binop(facts, fn, ea, eb):
    """Summary of eval::<fn>(span, a, b) for the emptiness class (a.unit empty?, b.unit empty?)."""
    body = facts.fn("eval::" + fn)
    dom = OpsDomain(facts)
    it = core.Interp(facts, dom, budget=100000)
    store = seed_pc({}, [(T("is_empty", Sym("a.unit")), ea), (T("is_empty", Sym("b.unit")), eb)])
    outs = it.run(body, [Sym("span"), numeric("a"), numeric("b")], store)
    return dom, it, body, outs


def unpack(v):
    """-> ('ok', value term, unit value) | ('err', kind name, fields) | ('?', v)"""
    if isinstance(v, Agg) and v.path == "std::result::Result":
        p = v.field(0)
        if v.vi == 0 and isinstance(p, Agg) and p.path == "numeric::Numeric":
            val = p.field(0)
            if isinstance(val, Agg) and val.path == "rational::Rational":
                val = val.field(0)
            return ("ok", val, p.field(1))
        if v.vi == 1 and isinstance(p, Agg) and p.path == "error::Error":
            k = p.field(1)
            return ("err", k.vname if isinstance(k, Agg) else "?", k.fields if isinstance(k, Agg) else (), p.field(0))
    return ("?", v)


def run_pow(facts):
    """Summary of eval::pow(span, base, pow): the counting loop is replaced by its recognised closed form
    value' = value * b^|c|.  Returns (dom, body, outcomes, loop info or None, reason)."""
    body = facts.fn("eval::pow")
    info, why = loops.counted_product_loop(body)
    dom = OpsDomain(facts)
    it = core.Interp(facts, dom, budget=200000)
    args = [Sym("span"), numeric("base"), numeric("pow")]
    if info is None:
        return dom, body, None, None, why
    outs = it.run(body, args, {}, stop={info["head"]})
    final = []
    frame = 1
    for o in outs:
        if o.kind != "stop":
            final.append(o)
            continue
        st = o.store
        acc = it.read_ref(st, Ref(frame, info["acc"]))
        c = it.read_ref(st, Ref(frame, info["c"]))
        b = it.read_ref(st, Ref(frame, info["b"]))
        accv = acc.field(0) if isinstance(acc, Agg) else acc
        bv = b.field(0) if isinstance(b, Agg) else b
        new = Agg("adt", "rational::Rational", 0, "Rational", (T("*", accv, T("pow", bv, T("abs", c))),))
        st2 = it.write_ref(st, Ref(frame, info["acc"]), new)
        st2 = it.write_ref(st2, Ref(frame, info["c"]), K(0))
        for o2 in it.run(body, args, {}, start=(info["exit"], st2)):
            final.append(o2)
    return dom, body, final, info, None
