"""Path summaries of eval::{add, sub, mul, div, pow} shared by C01, C02, C04, C11 and C13."""
from .. import facts as F
from .. import loops
from ..absint import core
from ..absint.core import Agg, Const, TOP, Ref, ok, err, some, NONE, UNIT
from ..absint.term import EffectDomain, TermDomain, Sym, T, K


def compound(sym):
    return Agg("adt", "compound::Compound", 0, "Compound", (Sym(sym),))


def numeric(nm):
    return Agg("adt", "numeric::Numeric", 0, "Numeric",
               (Agg("adt", "rational::Rational", 0, "Rational", (Sym(nm + ".value"),)), compound(nm + ".unit")))


def unit_sym(v):
    """Compound value -> its symbolic name term."""
    if isinstance(v, Agg) and v.path == "compound::Compound":
        return v.field(0)
    return v


class OpsDomain(EffectDomain):
    """Compound::factor / Compound::mul / Compound::pow are summarised by their contracts when no side is known empty;
    with an empty side Compound::factor is analysed for real (its early return)."""

    def __init__(self, facts):
        super().__init__(effects={}, oracle=self._oracle)
        self.facts = facts
        # hand-written functions of the crate are analysed (inlined); everything else is an uninterpreted term
        self.uninterp = lambda n: facts.fn(n) is None

    def empty(self, store, compound_value):
        return self.decide(store, T("is_empty", unit_sym(compound_value)))

    def _oracle(self, dom, it, name, args, vals, store):
        if name.startswith("std::collections::BTreeMap::<K, V") and name.endswith("::is_empty"):
            return self.fork(store, T("is_empty", vals[0]))
        if name == "compound::Compound::factor":
            a, b = vals[0], vals[1]
            ea, eb = self.empty(store, a), self.empty(store, b)
            if ea or eb:
                return None  # analyse the real early return
            if ea is None or eb is None:
                return None
            old = vals[2]
            oldv = old.field(0) if isinstance(old, Agg) else old
            conv = Agg("adt", "rational::Rational", 0, "Rational", (T("conv", oldv, unit_sym(b), unit_sym(a)),))
            st_ok = self.with_log(it.write_ref(store, args[2], conv), ("factor", "commensurable"))
            return [(ok(Const(True)), st_ok),
                    (ok(Const(False)), self.with_log(store, ("factor", "incommensurable"))),
                    (err(Agg("adt", "compound::CompoundError", 0, "CompoundError", ())),
                     self.with_log(it.write_ref(store, args[2], TOP), ("factor", "error")))]
        if name == "compound::Compound::mul":
            a, b, n = vals[0], vals[1], vals[2]
            lv = vals[3].field(0) if isinstance(vals[3], Agg) else vals[3]
            rv = vals[4].field(0) if isinstance(vals[4], Agg) else vals[4]
            ua, ub = unit_sym(a), unit_sym(b)
            u = compound(None)
            u = Agg("adt", "compound::Compound", 0, "Compound", (T("unit_mul", ua, ub, n),))
            st = it.write_ref(store, args[3], Agg("adt", "rational::Rational", 0, "Rational", (T("mul_lhs", lv, ua, ub, n),)))
            st = it.write_ref(st, args[4], Agg("adt", "rational::Rational", 0, "Rational", (T("mul_rhs", rv, ua, ub, n),)))
            return [(ok(u), self.with_log(st, ("unit_mul", "ok"))),
                    (err(Agg("adt", "compound::CompoundError", 0, "CompoundError", ())),
                     self.with_log(it.havoc(store, [args[3], args[4]]), ("unit_mul", "error")))]
        if name == "compound::Compound::pow":
            u = Agg("adt", "compound::Compound", 0, "Compound", (T("unit_pow", unit_sym(vals[0]), vals[1]),))
            return [(some(u), store), (NONE, self.with_log(store, ("unit_pow", "overflow")))]
        if name.endswith("PartialEq>::eq") and len(vals) == 2:
            for x, y in ((vals[0], vals[1]), (vals[1], vals[0])):
                if isinstance(x, T) and x.op == "sign" and isinstance(y, Agg) and y.vname:
                    return self.fork(store, T("sign_is", x.args[0], Const(y.vname)))
        return None


def seed_pc(store, facts_):
    s = dict(store)
    s[("pc",)] = tuple(facts_)
    return s


EMPTY_CLASSES = [(True, True), (True, False), (False, True), (False, False)]


def run_binop(facts, fn, ea, eb):
    """Summary of eval::<fn>(span, a, b) for the emptiness class (a.unit empty?, b.unit empty?)."""
    body = facts.fn("eval::" + fn)
    dom = OpsDomain(facts)
    it = core.Interp(facts, dom, budget=100000)
    store = seed_pc({}, [(T("is_empty", Sym("a.unit")), ea), (T("is_empty", Sym("b.unit")), eb)])
    outs = it.run(body, [Sym("span"), numeric("a"), numeric("b")], store)
    return dom, it, body, outs


def unpack(v):
    """-> ('ok', value term, unit value) | ('err', kind name, fields) | ('?', v)"""
    if isinstance(v, Agg) and v.path == "std::result::Result":
        p = v.field(0)
        if v.vi == 0 and isinstance(p, Agg) and p.path == "numeric::Numeric":
            val = p.field(0)
            if isinstance(val, Agg) and val.path == "rational::Rational":
                val = val.field(0)
            return ("ok", val, p.field(1))
        if v.vi == 1 and isinstance(p, Agg) and p.path == "error::Error":
            k = p.field(1)
            return ("err", k.vname if isinstance(k, Agg) else "?", k.fields if isinstance(k, Agg) else (), p.field(0))
    return ("?", v)


def _rat(v):
    return v.field(0) if isinstance(v, Agg) and v.path == "rational::Rational" else v


def run_pow(facts):
    """Summary of eval::pow(span, base, pow).  Its counting loop - in eval::pow itself or in a helper only it uses - is
    summarised inductively: from the loop head with the accumulator ACC and the counter CNT arbitrary, one turn either
    leaves (CNT = 0, ACC unchanged) or continues with ACC * X for a loop-invariant X and CNT - s where s = 1 on a
    non-negative counter (a magnitude) or s = signum(counter at entry); hence the loop computes ACC0 * X^|CNT0| and leaves
    CNT = 0.  Returns (dom, body, outcomes, info or None, reason)."""
    from ..absint import induct
    from ..callgraph import CallGraph
    from fractions import Fraction
    body = facts.fn("eval::pow")
    cg = CallGraph(facts)
    # helpers only eval::pow uses, minus what the domain summarises by contract (the unit operations)
    own = {p for p in cg.exclusive("eval::pow") if not p.startswith("compound::Compound::")}
    ind = induct.Induct(facts, body, lambda: OpsDomain(facts), budget=200000, exclude=[p for p in cg.local if p not in own])
    args = [Sym("span"), numeric("base"), numeric("pow")]
    loops_ = ind.all_loops()
    if len(loops_) != 1:
        ind._fresh()
        return ind.dom, body, None, None, "eval::pow and its own helpers have %d loops; the product loop cannot be singled out" % len(loops_)
    segs = ind.from_entry(args)
    final = []
    ACC, CNT = Sym("ACC"), Sym("CNT")
    info = {"head": loops_[0], "states": 0}
    for sg in segs:
        if sg.kind != "stop":
            final.append(sg.o)
            continue
        info["states"] += 1
        vs = ind.variant(sg)
        acc_l = [l for l, ty in vs.items() if "rational::Rational" in ty or "Ratio<" in ty]
        cnt_l = [l for l, ty in vs.items() if ("BigInt" in ty or "BigUint" in ty) and "Range<" not in ty]
        rng_l = [l for l, ty in vs.items() if "Range<" in ty and ("BigInt" in ty or "BigUint" in ty)]
        range_counter = False
        if not cnt_l and rng_l:
            # `for _ in num::range(0, |n|)`: the iterator is the counter (the number of items it still has); a moved-from copy
            # of it may still be around - the one the loop drives is the last one assigned
            live_r = [l for l in rng_l if isinstance(ind.it.read_ref(sg.store, Ref(sg.frame, l)), Agg)
                      and ind.it.read_ref(sg.store, Ref(sg.frame, l)).kind == "numrange"]
            if live_r:
                cnt_l, range_counter = [max(live_r)], True
        if len(acc_l) != 1 or len(cnt_l) != 1:
            return ind.dom, body, None, None, "loop state of eval::pow: accumulators %s, counters %s (one of each expected)" % (acc_l, cnt_l)
        A, C = acc_l[0], cnt_l[0]
        frame = sg.frame
        it = ind.it
        st = sg.store
        acc0 = _rat(it.read_ref(st, Ref(frame, A)))
        c0 = it.read_ref(st, Ref(frame, C))
        wrap = (lambda v_: Agg("numrange", None, None, None, (v_,))) if range_counter else (lambda v_: v_)
        unwrap = (lambda v_: v_.field(0) if isinstance(v_, Agg) and v_.kind == "numrange" else v_)
        if range_counter:
            if not (isinstance(c0, Agg) and c0.kind == "numrange"):
                return ind.dom, body, None, None, "the range iterator of eval::pow's loop is not a counting range (%r)" % (c0,)
            c0 = unwrap(c0)
        st1 = it.write_ref(st, Ref(frame, A), Agg("adt", "rational::Rational", 0, "Rational", (ACC,)))
        st1 = it.write_ref(st1, Ref(frame, C), wrap(CNT))
        turn = ind.turn(sg, st1)
        dom, it = ind.dom, ind.it
        back = [t for t in turn if t.kind == "stop"]
        if len(back) != 1:
            return dom, body, None, None, "one turn of eval::pow's loop returns to its head on %d path(s)" % len(back)
        b = back[0]
        nonneg0 = isinstance(c0, T) and c0.op == "abs"

        def cnt_nonzero(st_):
            # the counter was tested non-zero: `!is_zero()`, or `is_positive()` (a magnitude that is not positive is zero)
            return dom.decide(st_, T("is_zero", CNT)) is False or dom.decide(st_, T("is_positive", CNT)) is True

        def cnt_zero(st_):
            return dom.decide(st_, T("is_zero", CNT)) is True or (nonneg0 and dom.decide(st_, T("is_positive", CNT)) is False)
        if not cnt_nonzero(b.store):
            return dom, body, None, None, "the loop of eval::pow continues without having tested its counter non-zero"
        acc1 = _rat(it.read_ref(b.store, Ref(frame, A)))
        c1 = unwrap(it.read_ref(b.store, Ref(frame, C)))
        X = None
        if isinstance(acc1, T) and acc1.op == "*" and len(acc1.args) == 2 and ACC in acc1.args:
            X = acc1.args[1] if acc1.args[0] == ACC else acc1.args[0]
        if X is None or "ACC" in repr(X) or "CNT" in repr(X):
            return dom, body, None, None, "one turn of the loop turns the accumulator into %r; expected ACC * (loop-invariant factor)" % (acc1,)
        step = None
        if isinstance(c1, T) and c1.op == "-" and c1.args[0] == CNT:
            step = c1.args[1]
        nonneg = isinstance(c0, T) and c0.op == "abs"
        okstep = False
        if step is not None:
            k = step.v if isinstance(step, (K,)) else (Fraction(step.v) if isinstance(step, Const) and isinstance(step.v, int) else None)
            if k == 1 and nonneg:
                okstep = True
            elif step == T("signum", c0):
                okstep = True
        if not okstep:
            return dom, body, None, None, ("one turn of the loop turns the counter %r into %r; expected a step of 1 on a magnitude or of "
                                           "signum(counter at entry)" % (c0, c1))
        # the exits of the turn leave the accumulator alone
        for t in turn:
            if t.kind == "stop":
                continue
            if not cnt_zero(t.store):
                return dom, body, None, None, "the loop of eval::pow is left on a path that did not test its counter zero"
        closed = T("*", acc0, T("pow", X, T("abs", c0)))
        st2 = it.write_ref(st, Ref(frame, A), Agg("adt", "rational::Rational", 0, "Rational", (closed,)))
        st2 = it.write_ref(st2, Ref(frame, C), wrap(K(0)))
        for t in ind.turn(sg, st2):
            if t.kind == "stop":
                return ind.dom, body, None, None, "with the counter at zero the loop of eval::pow is entered again"
            final.append(t.o)
    if ind.dom is None:
        ind._fresh()
    return ind.dom, body, final, info, None
