"""Foundations shared by the properties about quantities (C02, C03, C04, C09, C13).

The rules of those properties are stated over the unit machinery: the tables of the units (identity, base dimensions,
scale), the canonical form of unit maps, the exact-arithmetic wrappers and the builtins that pass a quantity through.  A
slip in one of these breaks every property that is stated over them (a henry that carries the weber's id makes `Wb/H + m`
a number; a lux without its m^-2 makes `lx + lm` one), so each of these properties includes them, under one rule id of its
own; the rules themselves live with the property they were written for."""
from . import c01, c02, c05, c10, c17


def _take(rep, sub, rule, prefix):
    for o in sub.obls:
        o["key"] = "%s:%s:%s" % (prefix, o["rule"], o["key"])
        o["rule"] = rule
        rep.obls.append(o)


def units(facts, rep, rule, fx=None, tier="quick"):
    rep.rule(rule, "foundations (shared): distinct units have distinct identities and the released ids (C17-R1); every unit's "
                   "base dimensions and scale are the standard ones (C05-R2, known table defects listed); unit maps are "
                   "canonical (C02-R1); the wrappers of the exact arithmetic forward to it unchanged (C01-R3); the builtins "
                   "keep the unit of their first argument (C10-R2..R6)")
    new = lambda: type(rep)(rep.prop, rep.tier)
    s = new()
    c17.r1_ids(facts, s)
    _take(rep, s, rule, "ids")
    if rep.prop not in ("C03", "C05"):
        s = new()
        c05.r2_tables(facts, s)
        # the base dimensions decide what is commensurable and what a product denotes; the scale of a unit (C05's and C03's
        # subject, with its two known table defects) cancels out of these properties
        s.obls = [o for o in s.obls if not o["key"].startswith("scale:")]
        _take(rep, s, rule, "tables")
    if rep.prop not in ("C02", "C05", "C13"):
        s = new()
        c02.r1_canonical(facts, s)
        _take(rep, s, rule, "canonical")
    if rep.prop != "C01":
        s = new()
        c01.r3_forwarding(facts, s)
        _take(rep, s, rule, "arith")
    if rep.prop != "C10":
        s = new()
        try:
            c10.run(fx or {"dev": facts}, s, "quick")
        except Exception as e:  # fail closed
            s.ob("C10", "builtins", False, "the builtin summaries could not be computed: %s" % e)
        _take(rep, s, rule, "builtins")
