"""C02 - addition, subtraction and casts are allowed exactly between commensurable units."""
from .. import facts as F
from .. import flow, tables
from ..absint import core
from ..absint.core import Agg, Const, TOP, Ref, UNIT, some, NONE, ok, err
from ..absint.term import TermDomain, EffectDomain, Sym, T, K, IterV, VecV
from ..absint.stdmodels import it_list
from .common import census, anchor
from . import evalops as E

LEVEL = "other"

MUTREF_CALLS = ("OccupiedEntry::<'a, K, V, A>::get_mut", "BTreeMap::<K, V, A>::get_mut", "Entry::<'a, K, V, A>::or_default",
                "Entry::<'a, K, V, A>::or_insert", "Entry::<'a, K, V, A>::or_insert_with", "OccupiedEntry::<'a, K, V, A>::into_mut",
                "Entry::<'a, K, V, A>::or_insert_with_key")
REMOVE_CALLS = ("OccupiedEntry::<'a, K, V, A>::remove_entry", "OccupiedEntry::<'a, K, V, A>::remove", "BTreeMap::<K, V, A>::remove",
                "BTreeMap::<K, V, A>::remove_entry", "BTreeMap::<K, V, A>::retain")
FROZEN_EXCEPTIONS = {
    ("compound::Compound::mul::reconstruct", "Add"):
        "a unit is re-inserted only with the sign of what remains of its own base powers (bases_match / inner_match return "
        "a non-zero power of the same sign), so the sum cannot cancel an earlier insertion of itself",
}


def stored_power_writes(facts):
    """Write sites of a power stored in a unit map: [(body, block id, stmt, kind, source callee)]."""
    out = []
    for b in facts.lib_bodies():
        if b.from_derive() or not (b.path.startswith("compound::") or b.path.startswith("powers::") or b.path.startswith("eval::")):
            continue
        defs = flow.Defs(b)
        # locals holding a &mut into a map value
        src = {}
        for blk, t, sp, name in b.calls(lambda n: any(n.endswith(m) for m in MUTREF_CALLS)):
            if not t["dest"]["proj"]:
                src[t["dest"]["local"]] = name
        # propagate through Option payload moves / copies
        changed = True
        while changed:
            changed = False
            for blk, i, s in b.stmts():
                rv = s["rv"]
                if rv["k"] == "use" and rv["op"]["k"] in ("copy", "move") and not s["place"]["proj"]:
                    l = rv["op"]["place"]["local"]
                    if l in src and s["place"]["local"] not in src:
                        src[s["place"]["local"]] = src[l]
                        changed = True
        for blk, i, s in b.stmts():
            p = s["place"]
            if p["local"] in src and p["proj"] and p["proj"][0]["k"] == "deref":
                fs = F.place_fields(p)
                if fs and fs[-1] != "power":
                    continue
                # what is written
                rv = s["rv"]
                kind = "Assign"
                if rv["k"] == "use" and rv["op"]["k"] in ("copy", "move"):
                    for d in defs.of(rv["op"]["place"]["local"]):
                        if d[0] == "assign" and d[3]["rv"]["k"] == "binop":
                            kind = d[3]["rv"]["op"].replace("WithOverflow", "").replace("Unchecked", "")
                elif rv["k"] == "binop":
                    kind = rv["op"].replace("WithOverflow", "").replace("Unchecked", "")
                out.append((b, blk["id"], s, kind, src[p["local"]]))
    return out


def zero_switches(body):
    """Switch blocks whose discriminant is a comparison with the constant 0: [(block id, zero-side target, other target)]."""
    out = []
    defs = flow.Defs(body)
    for b, t, sp in body.terms():
        if t["k"] != "switch":
            continue
        l = F.op_local(t["discr"])
        if l is None:
            continue
        for d in defs.whole(l):
            if d[0] != "assign" or d[3]["rv"]["k"] != "binop":
                continue
            rv = d[3]["rv"]
            if rv["op"] not in ("Eq", "Ne"):
                continue
            consts = [F.const_val(o) for o in (rv["a"], rv["b"]) if o["k"] == "const"]
            if 0 not in consts:
                continue
            f = None
            for v, x in t["targets"]:
                if int(v) == 0:
                    f = x
            tr = t["otherwise"]
            zero_side, other = (tr, f) if rv["op"] == "Eq" else (f, tr)
            compared = rv["b"] if rv["a"]["k"] == "const" else rv["a"]
            out.append((b["id"], zero_side, other, compared))
    return out


READ_CALLS = MUTREF_CALLS + ("OccupiedEntry::<'a, K, V, A>::get",)


def reads_stored_power(body, operand):
    """The operand is a value read back from the map (through get / get_mut / the entry API)."""
    ls = flow.slice_back(body, operand)
    return any(l[0] == "call" and any(l[1].endswith(m) for m in READ_CALLS) for l in ls)


def r1_canonical(facts, rep):
    rep.rule("C02-R1", "canonical form of dimension maps: every site that updates a power already stored in a unit map "
                       "(through OccupiedEntry::get_mut, BTreeMap::get_mut or the Entry::or_* API) removes the entry when the "
                       "power becomes zero: either a removal is reachable after the update under a comparison with 0, or the "
                       "update is reached only on the non-zero side of such a comparison whose zero side removes the entry. "
                       "One frozen exception (reconstruct's re-insertion), with its reason")
    sites = stored_power_writes(facts)
    seen_keys = {}
    for body, bid, s, kind, src in sites:
        base = "%s:%s" % (body.path, kind)
        seen_keys[base] = seen_keys.get(base, 0) + 1
        key = base if seen_keys[base] == 1 else "%s#%d" % (base, seen_keys[base])
        cfg = body.cfg
        removes = [b_ for b_, t, sp, nm in flow.calls_named(body, lambda n: any(n.endswith(r) for r in REMOVE_CALLS))]
        zs = zero_switches(body)
        good = False
        how = "no removal of the entry under a comparison with 0"
        written = s["rv"]["op"] if s["rv"]["k"] == "use" else None
        wl = {l for l in flow.slice_back(body, written) if l[0] == "param"} if written is not None else set()
        for sw, zt, ot, compared in zs:
            if zt is None:
                continue
            rem_zero = [r for r in removes if r in cfg.blocks_only_via_edge(sw, zt) or r == zt]
            if not rem_zero:
                continue
            if (sw in cfg.reachable_from(bid) and bid != sw or bid == sw):
                if reads_stored_power(body, compared):
                    good = True
                    how = "the entry is removed after the update when the stored power is 0"
                elif not good:
                    how = "a removal exists, but the value compared with 0 is not the stored power"
            if ot is not None and bid in (cfg.blocks_only_via_edge(sw, ot) | {ot}) and cfg.dominates(sw, bid):
                cl = {l for l in flow.slice_back(body, compared) if l[0] == "param"}
                if wl and cl == wl:
                    good = True
                    how = "the update happens only for a non-zero power; the zero case removes the entry"
        exc = FROZEN_EXCEPTIONS.get((body.path, kind))
        if not good and exc:
            rep.ob("C02-R1", key, True, "frozen exception: %s" % exc, body.site(s["span"]), sample={"site": key, "exception": True})
            continue
        rep.ob("C02-R1", key, good, "stored power written via %s (%s): %s" % (src.split("::")[-1], kind, how), body.site(s["span"]),
               sample={"site": key, "how": how})
    rep.floor("C02-R1", "stored-power update sites", len(sites), 4)
    # construction sites that filter zero powers
    fi = None
    for b in facts.lib_bodies():
        if "FromIterator" in b.path and "compound::Compound" in b.path and b.path.endswith("::from_iter"):
            fi = b
    if rep.ob("C02-R1", "anchor:Compound::from_iter", fi is not None, "FromIterator for Compound found"):
        # summary over two symbolic entries (loops, adaptors and `extend` followed): an entry reaches the map only on a path
        # where its own power was compared with 0 and found different; in input order
        from . import unitops as U2_
        try:
            _, fres = U2_.from_iter_summary(facts)
        except core.Undecided as e:
            fres = None
            rep.ob("C02-R1", "Compound::from_iter:filters-zero", False, "undecided: %s" % e, fi.site())
        if fres is not None:
            bad = []
            n_ins = 0
            for r in fres:
                if r["kind"] != "ret":
                    bad.append("from_iter can end in %s" % r["kind"])
                    continue
                order = []
                for e in r["log"]:
                    if e[0] != "insert":
                        continue
                    n_ins += 1
                    stv = e[3]
                    pw = stv.field(0) if isinstance(stv, Agg) and stv.path == "compound::State" else None
                    order.append(repr(pw))
                    nz = False
                    for p_, b_ in r["pc"]:
                        if isinstance(p_, T) and p_.op in ("Eq", "Ne", "==") and len(p_.args) == 2 and pw in p_.args and any(
                                (isinstance(a_, Const) and a_.v == 0) or a_ == K(0) for a_ in p_.args):
                            nz = nz or (p_.op == "Ne" and b_ is True) or (p_.op in ("Eq", "==") and b_ is False)
                    if not nz:
                        bad.append("an entry with power %r is inserted without having been compared non-zero" % (pw,))
                if order != sorted(order):
                    bad.append("entries are inserted out of input order: %s" % order)
            rep.ob("C02-R1", "Compound::from_iter:filters-zero", not bad and n_ins >= 2, "; ".join(bad[:2]) if bad else
                   "from_iter inserts only entries whose power was compared non-zero, in input order (%d insertions over the paths)" % n_ins, fi.site())
    cp = facts.fn("compound::Compound::pow")
    if cp is not None:
        # summary of Compound::pow (helpers and adaptors followed): every entry that reaches the new map carries a power
        # that was compared with 0 and found different on that path
        from . import unitops as U_
        res = U_.compound_pow_summary(facts)
        bad = []
        n_ins = 0
        for r in res or []:
            if r["kind"] != "ret":
                continue
            pcs = [(p_, b_) for p_, b_ in r["pc"]]
            for e in r["log"]:
                if e[0] != "insert":
                    continue
                n_ins += 1
                stv = e[3]
                pw = stv.field(0) if isinstance(stv, Agg) and stv.path == "compound::State" else None
                nonzero = False
                for p_, b_ in pcs:
                    if isinstance(p_, T) and p_.op in ("Eq", "Ne", "==") and len(p_.args) == 2 and pw in p_.args and any(
                            (isinstance(a_, Const) and a_.v == 0) or a_ == K(0) for a_ in p_.args):
                        nonzero = nonzero or (p_.op == "Ne" and b_ is True) or (p_.op in ("Eq", "==") and b_ is False)
                if not nonzero:
                    bad.append("inserts a power %r that was not compared non-zero (path %s)" % (pw, "; ".join("%r=%s" % x for x in pcs)[:200]))
        rep.ob("C02-R1", "Compound::pow:filters-zero", not bad and n_ins >= 1, "; ".join(bad[:2]) if bad else
               "Compound::pow inserts only entries whose power was compared non-zero (%d insertion(s) in the summary)" % n_ins, cp.site())


def r2_r3_summaries(facts, rep):
    rep.rule("C02-R2", "only `true` yields a number: in eval::add / eval::sub (path summaries) an Ok result exists only on the "
                       "path where Compound::factor returned Ok(true); Ok(false) reaches only Err(IllegalOperation) and Err only "
                       "Err(ConversionNotPossible); the `to` arm of eval::eval continues only on the Ok(true) edge")
    rep.rule("C02-R3", "unit adoption: over the four emptiness classes of (a.unit, b.unit) the unit of an Ok result of + / - is "
                       "b's unit when a's is empty and a's otherwise, so a plain number adopts the quantity's unit in either order")
    for fn in ("add", "sub"):
        if anchor(rep, "C02-R2", facts, "eval::" + fn) is None:
            continue
        for ea, eb in E.EMPTY_CLASSES:
            cls = "a.unit %s, b.unit %s" % ("empty" if ea else "non-empty", "empty" if eb else "non-empty")
            try:
                dom, it, body, outs = E.run_binop(facts, fn, ea, eb)
            except core.Undecided as e:
                rep.ob("C02-R2", "%s:%s" % (fn, cls), False, "undecided: %s" % e)
                continue
            for o in outs:
                if o.kind != "ret":
                    continue
                u = E.unpack(o.value)
                log = [e for e in dom.log(o.store) if e[0] == "factor"]
                verdict = log[-1][1] if log else "early-return"
                if u[0] == "ok":
                    rep.ob("C02-R2", "%s:%s:ok-only-when-commensurable" % (fn, cls), verdict in ("commensurable", "early-return"),
                           "eval::%s returns a number where factor's verdict was %s" % (fn, verdict), o.site)
                    want = Sym("b.unit") if ea else Sym("a.unit")
                    got = E.unit_sym(u[2])
                    rep.ob("C02-R3", "%s:%s:unit" % (fn, cls), got == want,
                           "the result of %s carries unit %r, expected %r" % (fn, got, want), o.site,
                           sample={"fn": fn, "class": cls, "unit": repr(got)})
                elif u[0] == "err":
                    want = {"incommensurable": "IllegalOperation", "error": "ConversionNotPossible"}.get(verdict)
                    rep.ob("C02-R2", "%s:%s:err:%s" % (fn, cls, verdict), want is not None and u[1] == want,
                           "factor verdict %s yields Err(%s)" % (verdict, u[1]), o.site)
                    if u[1] == "IllegalOperation":
                        opc = u[2][0] if u[2] else None
                        rep.ob("C02-R2", "%s:%s:err-names-operator" % (fn, cls), opc == Const("+" if fn == "add" else "-"),
                               "the error names the operator %r" % (opc,), o.site, nontrivial=False)
    # the `to` arm: summary of eval::eval on OPERATION [x to u] (helpers followed; the unit parser, the sub-evaluation and
    # Compound::factor are effects)
    if anchor(rep, "C02-R2", facts, "eval::eval") is None:
        return
    rep.rule("C02-R5", "a cast yields the target unit: the result of `x to u` is the value of x converted by "
                       "target.factor(&x.unit, &mut x.value) with the unit parsed from the right-hand side")
    from . import evalnode
    try:
        dom, res = evalnode.fold_summary(facts, ["OP_CAST"])
    except core.Undecided as e:
        rep.ob("C02-R2", "cast:summary", False, "undecided: %s" % e)
        return
    n_ok = 0
    seen = set()
    for o, u, ev in res:
        fv = [e for e in ev if e[0] == "factor"]
        verdict = fv[-1][1] if fv else None
        if u is None:
            rep.ob("C02-R2", "cast:panic", False, "the `to` arm can end in %s" % o.kind, o.site)
            continue
        if u[0] == "ok":
            n_ok += 1
            rep.ob("C02-R2", "cast:number-only-on-true", verdict == "commensurable" and len(fv) == 1,
                   "`x to u` yields a number where factor's verdict was %s" % verdict, o.site)
            val_ok = repr(u[1]) == "conv(child1.value, target3, child1.unit)"
            unit_ok = repr(E.unit_sym(u[2])) == "target3"
            rep.ob("C02-R5", "cast:result", val_ok and unit_ok,
                   "after a cast the result is (%r, %r); specified (x.value converted from x.unit into the target, the target unit)" % (u[1], E.unit_sym(u[2])), o.site)
        elif u[0] == "err" and verdict in ("incommensurable", "error"):
            want = {"incommensurable": "IllegalCast", "error": "ConversionNotPossible"}[verdict]
            if verdict not in seen:
                seen.add(verdict)
                rep.ob("C02-R2", "cast:%s-edge-is-error" % ("false" if verdict == "incommensurable" else "err"), u[1] == want,
                       "factor verdict %s yields Err(%s)" % (verdict, u[1]), o.site)
        elif verdict == "commensurable":
            rep.ob("C02-R2", "cast:commensurable-fails", False, "a commensurable cast ends in %r" % (u,), o.site)
    rep.ob("C02-R2", "cast:has-ok-path", n_ok >= 1 and seen == {"incommensurable", "error"},
           "%d successful path(s); verdicts seen on error paths: %s" % (n_ok, sorted(seen)))


def powers_value(entries):
    adt = Agg("adt", "powers::Powers", 0, "Powers", (Agg("map", None, None, None, tuple(entries)),))
    return adt


def r6_factor(facts, rep):
    rep.rule("C02-R6", "Compound::factor decides commensurability by comparing the two base-dimension maps completely: path "
                       "summary over symbolic base maps (two entries on the right-hand side): the conversion phase / Ok(true) "
                       "is reached only on the path where the map sizes were compared equal AND every right-hand entry was found "
                       "in the left-hand map with an equal power; every other path returns Ok(false); with an empty side it "
                       "returns Ok(true) without touching the value")
    body = anchor(rep, "C02-R6", facts, "compound::Compound::factor")
    if body is None:
        return

    def oracle(dom, it, name, args, vals, store):
        if name.startswith("std::collections::BTreeMap::<K, V") and name.endswith("::is_empty"):
            return dom.fork(store, T("is_empty", vals[0]))
        if name == "compound::Compound::base_units":
            u = vals[0]
            nm = E.unit_sym(u)
            tup = Agg("tuple", None, None, None, (Sym("derived(%r)" % nm), Sym("bases(%r)" % nm)))
            return [(tup, store)]
        if name == "powers::Powers::len":
            return [(T("len", vals[0]), store)]
        if (name.endswith("IntoIterator>::into_iter") or name in ("powers::Powers::iter",)) and isinstance(vals[0], Sym) and vals[0].name.startswith("bases("):
            which = vals[0].name
            items = [Agg("tuple", None, None, None, (Sym("%s.key%d" % (which, i)), Sym("%s.pow%d" % (which, i)))) for i in range(2)]
            return [(it_list(items), dom.with_log(store, ("iterate", which)))]
        if name == "powers::Powers::get":
            p = T("get", vals[0], vals[1])
            d = dom.decide(store, T("found", vals[0], vals[1]))
            outs = []
            if d is not False:
                outs.append((some(p), dom.with_pc(store, T("found", vals[0], vals[1]), True) if d is None else store))
            if d is not True:
                outs.append((NONE, dom.with_pc(store, T("found", vals[0], vals[1]), False) if d is None else store))
            return outs
        if name.endswith("IntoIterator>::into_iter") and isinstance(vals[0], Sym):
            # iteration over self.names / other.names in the conversion phase: zero entries suffice for this rule
            return [(it_list(()), dom.with_log(store, ("conversion-phase", repr(vals[0]))))]
        return None

    for ea, eb in E.EMPTY_CLASSES:
        cls = "self %s, other %s" % ("empty" if ea else "non-empty", "empty" if eb else "non-empty")
        dom = EffectDomain({}, oracle=oracle)
        dom.uninterp = lambda n: facts.fn(n) is None or n in ("compound::apply_conversion",)
        it = core.Interp(facts, dom, budget=100000)
        store = E.seed_pc({(0, 0): E.compound("self.unit"), (0, 1): E.compound("other.unit"),
                           (0, 2): Agg("adt", "rational::Rational", 0, "Rational", (Sym("value"),))},
                          [(T("is_empty", Sym("self.unit")), ea), (T("is_empty", Sym("other.unit")), eb)])
        try:
            outs = it.run(body, [Ref(0, 0), Ref(0, 1), Ref(0, 2)], store)
        except core.Undecided as e:
            rep.ob("C02-R6", "factor:%s" % cls, False, "undecided: %s" % e, body.site())
            continue
        rep.count("factor paths", len(outs))
        n_true = 0
        for o in outs:
            if o.kind != "ret":
                rep.ob("C02-R6", "factor:%s:panic" % cls, False, "factor can end in %s (%s)" % (o.kind, o.value), o.site)
                continue
            v = o.value
            payload = v.field(0) if isinstance(v, Agg) and v.path == "std::result::Result" and v.vi == 0 else None
            val_after = it.read_ref(o.store, Ref(0, 2))
            if ea or eb:
                good = payload == Const(True) and val_after == store[(0, 2)]
                rep.ob("C02-R6", "factor:%s" % cls, good, "with an empty side factor returns %r and leaves the value %s" % (
                    payload, "untouched" if val_after == store[(0, 2)] else "CHANGED"), o.site)
                continue
            pc = dom.pc(o.store)
            log = dom.log(o.store)
            reached_conv = any(e[0] == "conversion-phase" for e in log)
            if payload == Const(True) or reached_conv:
                n_true += 1
                lb, rb = Sym("bases(self.unit)"), Sym("bases(other.unit)")
                # sizes compared equal
                size_ok = any(isinstance(p, T) and p.op in ("Ne", "Eq") and set(map(repr, p.args)) == {repr(T("len", lb)), repr(T("len", rb))}
                              and ((p.op == "Ne" and b is False) or (p.op == "Eq" and b is True)) for p, b in pc)
                # which side is iterated, every entry found and equal
                iterated = [e[1] for e in log if e[0] == "iterate"]
                it_side = iterated[0] if iterated else None
                other_side = lb if it_side == rb.name else rb
                found_all = True
                equal_all = True
                for i in range(2):
                    key = Sym("%s.key%d" % (it_side, i))
                    if dom.decide(o.store, T("found", other_side, key)) is not True:
                        found_all = False
                    eq = False
                    for p, b in pc:
                        if isinstance(p, T) and p.op in ("Ne", "Eq", "call:std::cmp::PartialEq::ne", "call:std::cmp::PartialEq::eq",
                                                        "call:std::cmp::impls::<impl std::cmp::PartialEq<&B> for &A>::ne",
                                                        "call:std::cmp::impls::<impl std::cmp::PartialEq<&B> for &A>::eq"):
                            txt = repr(p)
                            if ("%s.pow%d" % (it_side, i)) in txt and "get(" in txt:
                                if (p.op.endswith("ne") or p.op == "Ne") and b is False:
                                    eq = True
                                if (p.op.endswith("eq") or p.op == "Eq") and b is True:
                                    eq = True
                    if not eq:
                        equal_all = False
                good = size_ok and found_all and equal_all and len(iterated) == 1
                rep.ob("C02-R6", "factor:%s:true-path#%d" % (cls, n_true), good,
                       "commensurable verdict reached with: sizes compared equal=%s, every entry of %s found in the other map=%s, "
                       "every power compared equal=%s" % (size_ok, it_side, found_all, equal_all), o.site,
                       sample={"path_condition": "; ".join("%r=%s" % (p, b) for p, b in pc)[:600]})
            else:
                rep.ob("C02-R6", "factor:%s:other-paths-false" % cls, payload == Const(False) or (isinstance(v, Agg) and v.vi == 1),
                       "a path that did not pass the comparison returns %r" % (payload,), o.site, nontrivial=False)
        if not (ea or eb):
            rep.ob("C02-R6", "factor:%s:has-true-path" % cls, n_true >= 1, "%d path(s) reach the commensurable verdict" % n_true, body.site())


def r4_base_only(facts, rep):
    rep.rule("C02-R4", "one-step expansion: every `powers` closure of the unit tables inserts base units only (so base_units() "
                       "is complete after one step) - shared with C05-R2")
    try:
        from . import c05
        c05.powers_are_base_only(facts, rep, "C02-R4")
    except ImportError:
        rep.ob("C02-R4", "shared-rule", False, "C05's table rule is not available")


def run(fx, rep, tier):
    from . import foundation as _fnd
    _fnd.units(fx["dev"], rep, "C02-F", fx, tier)
    for cfg, facts in fx.items():
        sub = rep if cfg == "dev" else type(rep)(rep.prop, rep.tier)
        r1_canonical(facts, sub)
        r2_r3_summaries(facts, sub)
        r6_factor(facts, sub)
        r4_base_only(facts, sub)
        if cfg == "dev":
            # the operands of + - to are quantity expressions: which unit `2s`, `1 / 2s` or `(3m)^2` carries when it reaches
            # the commensurability test is decided by the unit rules of * / ^ (C04-R1, C04-R5)
            from . import c04
            rep.rule("C02-R7", "the units that + - and `to` compare are the ones the operand expressions denote: a power carries "
                               "unit^n also for a zero value, a product or quotient with a plain number carries the other side's "
                               "unit raised to +1 / -1 (shared with C04-R1 and C04-R5)")
            s2 = type(rep)(rep.prop, rep.tier)
            c04.r1_pow_unit(facts, s2)
            c04.r2_r5_mul(facts, s2)
            for o in s2.obls:
                if o["rule"] in ("C04-R1", "C04-R5"):
                    o["rule"] = "C02-R7"
                    rep.obls.append(o)
        if sub is not rep:
            for o in sub.obls:
                o["key"] += "[rel]"
                rep.obls.append(o)
