"""C16 - every shipped fact can be found by its own words."""
import collections
import re

from .. import facts as F
from .. import flow, shipped, tables
from ..absint import core, chars
from ..absint.core import Agg, Ref, TOP, Const, ok
from ..absint.term import EffectDomain, Sym, T, VecV
from .common import census, anchor, const_str_args
from . import c12, c17

LEVEL = "other"

REF_WORD_FIRST = "abcdefghijklmnopqrstuvwxyzABCDEFGHIJKLMNOPQRSTUVWXYZ°'"
REF_WORD_REST = REF_WORD_FIRST + "0123456789"


def strip_views(v):
    while isinstance(v, T) and v.op.startswith("call:") and any(
            v.op.endswith(s) for s in ("::as_ref", "::deref", "::borrow", "::as_str", "::clone")) and len(v.args) == 1:
        v = v.args[0]
    return v


def r1_load_bytes(facts, rep):
    rep.rule("C16-R1", "path summary of Db::load_bytes over a symbolic document with two constants of two tokens each: the "
                       "effects are, for each constant in document order, add_bytes(field_data, to_vec(constant)), "
                       "add_text(field_name, token) for each of its tokens in order, add_document; nothing else, nothing skipped")
    body = anchor(rep, "C16-R1", facts, "db::Db::load_bytes")
    if body is None:
        return
    consts = []
    for i in range(2):
        toks = VecV([Sym("c%d.tok%d" % (i, j)) for j in range(2)])
        consts.append(Agg("adt", "db::PartialConstant", 0, "PartialConstant", (toks, Sym("c%d.content" % i))))
    doc = Agg("adt", "db::Doc", 0, "Doc", (VecV(consts), VecV(())))

    def oracle(dom, it, name, args, vals, store):
        if name == "db::load_bytes":
            return [(ok(doc), store), (core.err(Sym("decode_error")), dom.with_log(store, ("fail", "decode")))]
        return None

    effects = {
        "tantivy::Document::add_bytes": ("add_bytes", "unit"),
        "tantivy::Document::add_text": ("add_text", "unit"),
        "tantivy::IndexWriter::add_document": ("add_document", "fallible-value"),
        "serde_cbor::to_vec": ("to_vec", "fallible-value"),
    }
    dom = EffectDomain(effects, oracle=oracle)
    dom.uninterp = lambda n: facts.fn(n) is None  # private helpers of load_bytes are followed
    it = core.Interp(facts, dom, budget=100000)
    adt = facts.adt("db::Db")
    fields = [f["name"] for f in adt["variants"][0]["fields"]] if adt else []
    selfv = Agg("adt", "db::Db", 0, "Db", [Sym("self." + f) for f in fields])
    store = {(0, 0): selfv, (0, 1): Sym("writer")}
    try:
        outs = it.run(body, [Ref(0, 0), Ref(0, 1), Sym("bytes")], store)
    except core.Undecided as e:
        rep.ob("C16-R1", "load_bytes:summary", False, "undecided: %s" % e, body.site())
        return
    rep.count("load_bytes paths", len(outs))
    want = []
    for i in range(2):
        want.append(("add_bytes", "self.field_data", "c%d" % i))
        for j in range(2):
            want.append(("add_text", "self.field_name", "c%d.tok%d" % (i, j)))
        want.append(("add_document",))
    n_ok = 0
    for o in outs:
        if o.kind != "ret":
            rep.ob("C16-R1", "load_bytes:panic", False, "load_bytes can end in %s (%s)" % (o.kind, o.value), o.site)
            continue
        log = dom.log(o.store)
        if any(e[0] == "fail" for e in log):
            continue
        v = o.value
        if not (isinstance(v, Agg) and v.path == "std::result::Result" and v.vi == 0):
            continue
        n_ok += 1
        got = []
        for e in log:
            if e[0] == "to_vec":
                continue
            if e[0] == "add_bytes":
                payload = e[3]
                # Ok payload of to_vec(&c_i)
                inner = payload
                while isinstance(inner, T) and inner.op == "call:serde_cbor::to_vec":
                    inner = inner.args[0]
                which = None
                for i, c in enumerate(consts):
                    if inner == c:
                        which = "c%d" % i
                got.append(("add_bytes", repr(e[2]), which or repr(inner)[:60]))
            elif e[0] == "add_text":
                got.append(("add_text", repr(e[2]), repr(strip_views(e[3]))))
            elif e[0] == "add_document":
                got.append(("add_document",))
            else:
                got.append((e[0],))
        rep.ob("C16-R1", "load_bytes:effects", got == want,
               "effects of a successful load_bytes: %s" % (got if got != want else "as specified (%d effects)" % len(got)),
               body.site(), sample={"effects": got})
    rep.ob("C16-R1", "load_bytes:has-ok-path", n_ok >= 1, "%d successful path(s)" % n_ok, body.site())
    # open_inner hands every asset but the sources file to load_bytes: C14-R3


def lookup_summary(facts):
    """Effect summary of Db::lookup with one hit (helpers only it uses are followed):
    -> (body, dom, [(outcome, events)]) with events ('parser', fields) ('get_first', field) ('decode', bytes) ('limit', n)."""
    body = facts.fn("db::Db::lookup")
    if body is None:
        return None, None, None
    from ..callgraph import CallGraph
    own = {p for p in CallGraph(facts).exclusive("db::Db::lookup") if facts.fn(p) is not None}
    from ..absint.stdmodels import Seq
    from ..absint.core import some, NONE

    def oracle(dom, it, name, args, vals, store):
        m = name.rsplit("::", 1)[-1]
        if name.startswith("tantivy::query::QueryParser::for_index"):
            return [(Sym("parser"), dom.with_log(store, ("parser", vals[1] if len(vals) > 1 else None)))]
        if name.startswith("tantivy::query::QueryParser::parse_query"):
            return [(ok(Sym("query")), store), (core.err(Sym("query_error")), store)]
        if name.startswith("tantivy::collector::TopDocs::with_limit"):
            return [(Sym("top1"), dom.with_log(store, ("limit", vals[0])))]
        if name.startswith("tantivy::Searcher::search"):
            hit = Agg("tuple", None, None, None, (Sym("score0"), Sym("id0")))
            return [(ok(Seq((hit,))), store), (ok(Seq(())), store), (core.err(Sym("search_error")), store)]
        if name.startswith("tantivy::Searcher::doc"):
            return [(ok(Sym("doc")), store), (core.err(Sym("doc_error")), store)]
        if name == "tantivy::Document::get_first":
            return [(some(Sym("stored")), dom.with_log(store, ("get_first", vals[1]))), (NONE, dom.with_log(store, ("get_first", vals[1])))]
        if name == "serde_cbor::from_slice":
            return [(ok(Sym("constant")), dom.with_log(store, ("decode", vals[0]))), (core.err(Sym("cbor_error")), dom.with_log(store, ("decode", vals[0])))]
        return None
    dom = EffectDomain({}, oracle=oracle)
    dom.uninterp = lambda n: n not in own
    it = core.Interp(facts, dom, budget=100000)
    adt = facts.adt("db::Db")
    fields = [f["name"] for f in adt["variants"][0]["fields"]] if adt else []
    selfv = Agg("adt", "db::Db", 0, "Db", [Sym("self." + f) for f in fields])
    store = {(0, 0): selfv}
    outs = it.run(body, [Ref(0, 0), Sym("phrase")], store)
    keep = ("parser", "get_first", "decode", "limit")
    return body, dom, [(o, [e for e in dom.log(o.store) if e[0] in keep]) for o in outs]


def r2_lookup(facts, rep, rule="C16-R2"):
    rep.rule(rule, "effect summary of Db::lookup (helpers followed): the query parser is built over self.field_name; a "
                   "constant is returned only as the serde_cbor::from_slice decoding of the bytes that get_first(self.field_data) "
                   "gave for the hit's document; Ok(None) only without a hit, without stored bytes or after a failed decoding; "
                   "at least one hit is asked for")
    if anchor(rep, rule, facts, "db::Db::lookup") is None:
        return
    try:
        body, dom, res = lookup_summary(facts)
    except core.Undecided as e:
        rep.ob(rule, "lookup:summary", False, "undecided: %s" % e)
        return
    bad = []
    n_some = n_none = 0
    for o, ev in res:
        if o.kind != "ret":
            bad.append("lookup can end in %s (%s)" % (o.kind, str(o.value)[:80]))
            continue
        v = o.value
        if not (isinstance(v, Agg) and v.path == "std::result::Result"):
            bad.append("lookup returns %r" % (v,))
            continue
        ps = [e for e in ev if e[0] == "parser"]
        if ps and "self.field_name" not in repr(ps[0][1]):
            # vec![field] is built through an uninitialised box the term domain does not follow: which of the database's
            # schema fields lookup (and its own helpers) reads at all decides it - the payload field goes to get_first
            from ..callgraph import CallGraph
            read = set()
            for p_ in CallGraph(facts).exclusive("db::Db::lookup"):
                b_ = facts.fn(p_)
                if b_ is None:
                    continue

                def walk(x):
                    if isinstance(x, dict):
                        if x.get("k") == "field" and x.get("name") in ("field_name", "field_data"):
                            read.add(x["name"])
                        for v_ in x.values():
                            walk(v_)
                    elif isinstance(x, list):
                        for v_ in x:
                            walk(v_)
                walk(b_.blocks)
            opaque = "new_uninit" in repr(ps[0][1]) or "into_vec" in repr(ps[0][1])
            if not (opaque and read == {"field_name", "field_data"}):
                bad.append("the query parser is built over %r, not self.field_name" % (ps[0][1],))
        for e in ev:
            if e[0] == "limit" and not (isinstance(e[1], Const) and isinstance(e[1].v, int) and e[1].v >= 1):
                bad.append("TopDocs::with_limit(%r)" % (e[1],))
        if v.vi != 0:
            continue
        inner = v.field(0)
        if isinstance(inner, Agg) and inner.path == "std::option::Option" and inner.vi == 1:
            n_some += 1
            m = inner.field(0)
            got = m.field(0) if isinstance(m, Agg) and m.path == "db::Match" else m
            gf = [e for e in ev if e[0] == "get_first"]
            dec = [e for e in ev if e[0] == "decode"]
            if got != Sym("constant"):
                bad.append("the constant returned is %r, not the decoded payload" % (got,))
            elif not gf or gf[-1][1] != Sym("self.field_data"):
                bad.append("the payload is read with get_first(%r), not self.field_data" % (gf[-1][1] if gf else None,))
            elif not dec or "stored" not in repr(dec[-1][1]):
                bad.append("from_slice decodes %r, not the bytes stored with the hit" % (dec[-1][1] if dec else None,))
        elif isinstance(inner, Agg) and inner.path == "std::option::Option" and inner.vi == 0:
            n_none += 1
    rep.ob(rule, "lookup", not bad and n_some >= 1 and n_none >= 1, "; ".join(sorted(set(bad))[:3]) if bad else
           "%d path(s) return the decoded payload of the hit, %d return None" % (n_some, n_none), body.site())


def ngram_params(facts, rep):
    sites = census(facts, lambda n: n == "tantivy::tokenizer::NgramTokenizer::new")
    rep.floor("C16-R4", "NgramTokenizer::new sites", len(sites), 1)
    out = None
    for b, bid, t, sp, name in sites:
        vals = [F.const_val(a) if a["k"] == "const" else None for a in t["args"]]
        out = (vals, b.site(sp))
    return out


def typable(tokens):
    if not tokens:
        return False
    for i, w in enumerate(tokens):
        if not w or any(ch not in REF_WORD_REST for ch in w):
            return False
    if tokens[0][0] not in REF_WORD_FIRST or tokens[0] == "to":
        return False
    return True


def terms(tokens, mn, mx, prefix_only):
    out = set()
    for w in tokens:
        w = w.lower()
        cps = list(w)
        starts = [0] if prefix_only else range(len(cps))
        for s in starts:
            for k in range(mn, mx + 1):
                if s + k <= len(cps):
                    out.add("".join(cps[s:s + k]))
    return frozenset(out)


def r4_distinguishable(facts, rep):
    rep.rule("C16-R4", "with the tokenizer parameters read from the code (NgramTokenizer::new(min, max, prefix_only) + "
                       "LowerCaser) every word of every shipped constant yields at least one index term, and no two typable "
                       "shipped constants with different word sets have identical index term sets (identical postings cannot "
                       "be told apart by any query, so one of them could not be found by its own words)")
    p = ngram_params(facts, rep)
    if p is None:
        return
    (mn, mx, po), site = p
    if not rep.ob("C16-R4", "ngram-params-constant", isinstance(mn, int) and isinstance(mx, int) and po in (0, 1) and 1 <= mn <= mx,
                  "NgramTokenizer::new(%s, %s, %s)" % (mn, mx, po), site, sample={"min": mn, "max": mx, "prefix_only": bool(po)}):
        return
    lower = census(facts, lambda n: n == "tantivy::tokenizer::TextAnalyzer::filter")
    rep.ob("C16-R4", "lowercaser", len(lower) >= 1, "the analyzer has %d filter(s) (LowerCaser expected)" % len(lower), site)
    consts = []
    for name, path in shipped.assets().items():
        try:
            d = shipped.load(path)
        except Exception:  # noqa: BLE001
            continue
        for c in d.get("constants") or []:
            consts.append((name, [str(t) for t in (c.get("tokens") or [])]))
    rep.count("shipped constants", len(consts))
    groups = collections.defaultdict(list)
    n_typ = 0
    for name, toks in consts:
        empty = [w for w in toks if len(w) < mn]
        if empty:
            rep.ob("C16-R4", "word-too-short:%s" % " ".join(toks), False, "word(s) %s yield no index term with min_gram %d" % (empty, mn))
        if typable(toks):
            n_typ += 1
            groups[terms(toks, mn, mx, bool(po))].append(tuple(toks))
    rep.count("typable constants", n_typ)
    bad = 0
    for ts, members in groups.items():
        sets = {frozenset(w.lower() for w in m) for m in members}
        if len(sets) > 1:
            bad += 1
            rep.ob("C16-R4", "indistinguishable:%s" % "|".join(sorted(" ".join(m) for m in members)), False,
                   "constants %s have identical index terms under NgramTokenizer(%d, %d, prefix_only=%s)" % (
                       sorted(" ".join(m) for m in members), mn, mx, bool(po)), site)
    rep.ob("C16-R4", "all-distinguishable", bad == 0, "%d typable constants, %d group(s) of indistinguishable constants" % (n_typ, bad),
           site, sample={"typable": n_typ, "groups": len(groups)})
    rep.floor("C16-R4", "typable constants", n_typ, 700)


def r5_typability(facts, rep):
    rep.rule("C16-R5", "the query lexer's word alphabet contains the reference alphabet [A-Za-z0-9 degree apostrophe]: an abstract "
                       "run of Lexer::consume_word accepts every atom of that alphabet, and Lexer::next starts a WORD on "
                       "every letter, degree sign and apostrophe; so every shipped word made of these characters can be typed")
    bodies = c12.lexer_bodies(facts)
    consts, preds, unknown = chars.char_constants(bodies)
    if unknown:
        rep.ob("C16-R5", "partition", False, "unmodelled character predicates: %s" % sorted(unknown))
        return
    ats = chars.atoms(consts, preds)
    cw = anchor(rep, "C16-R5", facts, c12.LEX + "consume_word")
    nx = anchor(rep, "C16-R5", facts, c12.NEXT)
    if cw is None or nx is None:
        return
    word = facts.discr_of("syntax::parser::Syntax", "WORD")
    to = facts.discr_of("syntax::parser::Syntax", "TO")
    ref_rest = {ord(c) for c in REF_WORD_REST}
    ref_first = {ord(c) for c in REF_WORD_FIRST}
    n = 0
    for lo, hi in ats:
        members = set(range(lo, min(hi, lo + 300) + 1))
        if members & ref_rest:
            n += 1
            whole = members <= ref_rest
            dom = c12.LexDomain(ats, facts=facts)
            it = core.Interp(facts, dom, budget=200000)
            st = dom.setlex({(0, 0): c12.lexer_value(False, facts)}, lo, "EOF")
            outs = it.run(cw, [Ref(0, 0)], st)
            acc = bool(outs) and all(o.kind == "ret" and o.value == c12.POSITIVE for o in outs)
            rep.ob("C16-R5", "consume_word-accepts:%s" % chars.describe(lo), acc,
                   "consume_word %s characters %s..%s" % ("accepts" if acc else "does NOT accept", chars.describe(lo), chars.describe(hi)),
                   cw.site(), sample={"atom": [lo, hi], "accepted": acc})
        if members & ref_first:
            dom = c12.LexDomain(ats, facts=facts)
            it = core.Interp(facts, dom, budget=200000)
            st = dom.setlex({(0, 0): c12.lexer_value(False, facts)}, lo, None)
            outs = it.run(nx, [Ref(0, 0)], st)
            kinds = set()
            for o in outs:
                v = o.value
                tok = v.field(0) if isinstance(v, Agg) and v.vname == "Some" else None
                k = tok.field(1) if isinstance(tok, Agg) else None
                kinds.add(k.vi if isinstance(k, Agg) else None)
            rep.ob("C16-R5", "word-starts-with:%s" % chars.describe(lo), bool(kinds) and kinds <= {word, to},
                   "a token starting with %s..%s has kind(s) %s" % (chars.describe(lo), chars.describe(hi),
                                                                  sorted(facts.variant_by_discr("syntax::parser::Syntax", k) or "?" for k in kinds if k is not None)),
                   nx.site())
    rep.floor("C16-R5", "alphabet atoms", n, 5)


def r6_sentence(facts, rep):
    rep.rule("C16-R6", "evaluation looks a phrase up with exactly the source text of the WORD / SENTENCE node: summary of eval::eval "
                       "on such a node (scripted tree, helpers followed): Db::lookup is called once, with text(span of the node), and "
                       "a hit yields the constant's value and unit - see also C18-R2")
    from . import evalnode, evalops
    if anchor(rep, "C16-R6", facts, "eval::eval") is None:
        return
    for kind in ("WORD", "SENTENCE"):
        tree = {0: {"kind": kind, "children": []}}
        try:
            dom, it, outs, dref = evalnode.run_eval(facts, tree, extra=evalnode.lookup_oracle(facts), with_query=True)
        except core.Undecided as e:
            rep.ob("C16-R6", "lookup-text:%s" % kind, False, "undecided: %s" % e)
            continue
        bad = []
        n_ok = 0
        want = T("text", Sym("span0"))
        for o in outs:
            if o.kind != "ret":
                bad.append("%s %s" % (o.kind, o.value))
                continue
            lk = [e for e in dom.log(o.store) if e[0] == "lookup"]
            if len(lk) != 1 or lk[0][1] != want:
                bad.append("Db::lookup receives %s; specified once, the node's own text" % [repr(e[1]) for e in lk])
            u = evalops.unpack(o.value)
            if u[0] == "ok":
                n_ok += 1
                if u[1] != Sym("c.value") or evalops.unit_sym(u[2]) != Sym("c.unit"):
                    bad.append("a hit evaluates to (%r, %r); specified the constant's value and unit" % (u[1], u[2]))
        rep.ob("C16-R6", "lookup-text:%s" % kind, not bad and n_ok >= 1, "; ".join(sorted(set(bad))[:3]) if bad else
               "a %s node is looked up by exactly its own text and evaluates to the matched constant (%d Ok path(s))" % (kind, n_ok),
               facts.fn("eval::eval").site())


def r7_index_options(facts, rep):
    rep.rule("C16-R7", "the ranking the findability argument relies on (BM25 with field-length norms over positional n-gram terms): "
                       "every call that configures a tantivy text field in the crate is one of the frozen table - the tokenizer name, "
                       "WithFreqsAndPositions, stored, defaults otherwise; an additional option (e.g. switching the field norms off, "
                       "another record option) changes which of several matching facts wins and is reported")
    allowed = {
        "<tantivy::schema::TextFieldIndexing as std::default::Default>::default", "tantivy::schema::TextFieldIndexing::set_tokenizer",
        "tantivy::schema::TextFieldIndexing::set_index_option", "<tantivy::schema::TextOptions as std::default::Default>::default",
        "tantivy::schema::TextOptions::set_indexing_options", "tantivy::schema::TextOptions::set_stored",
    }
    sites = census(facts, lambda n: ("tantivy::schema::TextFieldIndexing" in n or "tantivy::schema::TextOptions" in n) and "::fmt" not in n)
    for b, bid, t, sp, name in sites:
        okc = name in allowed
        if not okc and name.endswith("::set_fieldnorms") and len(t["args"]) == 2:
            # the default said explicitly
            okc = {l for l in flow.slice_back(b, t["args"][1], facts=facts)} == {("const", True)}
        rep.ob("C16-R7", "option:%s" % name.rsplit("::", 1)[-1], okc, "%s is called in %s" % (name, b.path), b.site(sp))
    rep.floor("C16-R7", "text-field option calls", len(sites), 4)
    for b, bid, t, sp, name in sites:
        if name.endswith("set_index_option"):
            ls = flow.slice_back(b, t["args"][1], through_agg=True)
            kinds = {l[1] for l in ls if l[0] == "agg"}
            vi = [a for a in (t["args"][1],) if a["k"] == "const"]
            txt = repr(t["args"][1])
            okk = "WithFreqsAndPositions" in txt or any("WithFreqsAndPositions" in str(k) for k in kinds)
            if not okk:
                # the operand is a unit variant constant: find its definition
                for blk, i, st in b.stmts():
                    if st["rv"]["k"] == "aggregate" and "IndexRecordOption" in st["rv"]["kind"].get("path", ""):
                        okk = st["rv"]["kind"].get("variant") == "WithFreqsAndPositions"
            rep.ob("C16-R7", "record-option", okk, "the name field is indexed with %s" % ("WithFreqsAndPositions" if okk else "another record option"), b.site(sp))


def run(fx, rep, tier):
    rep.assume("tantivy ranks a document that contains all query terms above documents that lack some (not decided: which "
               "document wins the ranking)")
    facts = fx["dev"]
    r1_load_bytes(facts, rep)
    r2_lookup(facts, rep)
    rep.rule("C16-R3", "all shipped constants decode completely (value, unit, description, source) - shared with C17-R4")
    sub = type(rep)(rep.prop, rep.tier)
    c17.r4_shipped(facts, sub, None)
    for o in sub.obls:
        o["rule"] = "C16-R3"
        rep.obls.append(o)
    for k, v in sub.analysed.items():
        rep.count(k, v)
    # a fact is found only if the record the index stores decodes in Db::lookup: the decoders of Constant, Compound,
    # Derived and Rational are the inverses of the encoders that wrote it (seeded C16-16: Derived's identifier read as i32)
    rep.rule("C16-R11", "the decoders Db::lookup runs on a stored record (Constant, Compound, State, Derived, Rational) are the "
                        "inverses of the encoders that wrote it - shared with C17-R2")
    sub = type(rep)(rep.prop, rep.tier)
    c17.r2_impl_pairs(facts, sub)
    for o in sub.obls:
        o["rule"] = "C16-R11"
        rep.obls.append(o)
    for k, v in sub.analysed.items():
        rep.count(k, v)
    r4_distinguishable(facts, rep)
    r5_typability(facts, rep)
    r6_sentence(facts, rep)
    r7_index_options(facts, rep)
    r9_sources(facts, rep)
    # the constant a lookup reports is the constant that was found, whole (value, unit, description, source)
    rep.rule("C16-R10", "the constant reported for a looked-up phrase is the matched constant unchanged (summary of eval::eval on a "
                        "WORD / SENTENCE node with descriptions on, shared with C18-R2)")
    from . import c18
    s10 = type(rep)(rep.prop, rep.tier)
    c18.r1_r2(facts, s10)
    for o in s10.obls:
        if o["rule"] == "C18-R2":
            o["rule"] = "C16-R10"
            rep.obls.append(o)
    rep.rule("C16-R8", "a fact can only be found in an index that was built: every kind of session (in memory, fresh directory, "
                       "re-opened, re-created index) serves a fully built index (shared with C15-R4 and C15-R6)")
    from . import c15
    s8 = type(rep)(rep.prop, rep.tier)
    c15.r6_session(facts, s8, rule="C16-R8")
    c15.r3_invalidate_before_destroy(facts, s8)
    c15.r4_trust_conditions(facts, s8)
    for o in s8.obls:
        if o["rule"] in ("C16-R8", "C15-R4", "C15-R3"):
            o["rule"] = "C16-R8"
            rep.obls.append(o)


def r9_sources(facts, rep, rule="C16-R9"):
    rep.rule(rule, "the source of a constant resolves: Db::get_source(id) looks the id up in the id -> index map and returns "
                       "that element of the source list (effect summary); the map is built when the sources are decoded, one "
                       "entry (source.id -> its index) per source in list order (summary of the Deserialize impl over two "
                       "symbolic sources).  A search that presumes an order of the list (the shipped list is not sorted by id) "
                       "is not recognised and reported")
    from ..absint import core
    from ..absint.core import Agg, Const, Ref, TOP, NONE, some, ok, err, UNIT
    from ..absint.term import EffectDomain, Sym, T
    from ..absint.stdmodels import Seq
    gs = facts.fn("db::Db::get_source")
    if gs is None:
        rep.ob(rule, "anchor:db::Db::get_source", False, "Db::get_source not found")
        return
    sadt = facts.adt("db::Sources")
    dadt = facts.adt("db::Db")
    if sadt is None or dadt is None:
        rep.ob(rule, "anchor:db::Sources", False, "struct Sources / Db not found")
        return
    sf = sadt["variants"][0]["fields"]
    i_vec = [i for i, f in enumerate(sf) if f["ty"].startswith("std::vec::Vec<db::Source")]
    i_map = [i for i, f in enumerate(sf) if "HashMap<u64" in f["ty"] or "BTreeMap<u64" in f["ty"]]
    if not rep.ob(rule, "anchor:Sources-fields", len(i_vec) == 1 and len(i_map) == 1,
                  "Sources holds the list of sources and a map from id to index (%s)" % [f["ty"][:40] for f in sf]):
        return

    def oracle(dom, it, name, args, vals, store):
        m = name.rsplit("::", 1)[-1]
        if ("HashMap" in name or "BTreeMap" in name) and m == "get" and len(vals) == 2:
            key = it.read_ref(store, vals[1]) if isinstance(vals[1], Ref) else vals[1]
            st = dom.with_log(store, ("map-get", vals[0], key))
            return [(some(Sym("index")), st), (NONE, st)]
        if ("HashMap" in name or "BTreeMap" in name) and m == "insert" and len(vals) == 3:
            return [(NONE, dom.with_log(store, ("map-insert", it.read_ref(store, vals[1]) if isinstance(vals[1], Ref) else vals[1], vals[2])))]
        if ("HashMap" in name or "BTreeMap" in name) and m in ("new", "default", "with_capacity"):
            return [(Sym("newmap"), store)]
        if (name.startswith("core::slice::<impl [T]>::get") or name.startswith("std::vec::Vec::<T, A>::get") or m == "get") and len(vals) == 2 and vals[0] == Sym("srcvec"):
            return [(some(T("elem", vals[0], vals[1])), store), (NONE, store)]
        if name.endswith("as std::ops::Deref>::deref") and vals and vals[0] == Sym("srcvec"):
            return [(vals[0], store)]
        return None

    dom = EffectDomain({}, oracle=oracle)
    dom.uninterp = lambda n: facts.fn(n) is None
    it = core.Interp(facts, dom, budget=20000)
    svals = [TOP] * len(sf)
    svals[i_vec[0]] = Sym("srcvec")
    svals[i_map[0]] = Sym("srcmap")
    sources = Agg("adt", "db::Sources", 0, "Sources", tuple(svals))
    dvals = [sources if f["ty"] == "db::Sources" else TOP for f in dadt["variants"][0]["fields"]]
    st, dref = it.fresh_slot({}, Agg("adt", "db::Db", 0, "Db", tuple(dvals)))
    try:
        outs = it.run(gs, [dref, Sym("id")], st)
    except core.Undecided as e:
        rep.ob(rule, "get_source", False, "undecided: %s" % e, gs.site())
        outs = []
    bad = []
    n_some = 0
    for o in outs:
        if o.kind != "ret":
            bad.append("get_source can end in %s" % o.kind)
            continue
        v = o.value
        if isinstance(v, Agg) and v.path == "std::option::Option" and v.vi == 1:
            n_some += 1
            gets = [e for e in dom.log(o.store) if e[0] == "map-get"]
            if not (len(gets) == 1 and gets[0][1] == Sym("srcmap") and gets[0][2] == Sym("id")):
                bad.append("a source is returned without the id having been looked up in the id map (%r)" % (gets,))
            elif v.field(0) != T("elem", Sym("srcvec"), Sym("index")):
                bad.append("the source returned is %r, not the element at the index the map gave" % (v.field(0),))
    if outs:
        rep.ob(rule, "get_source", not bad and n_some >= 1, "; ".join(bad[:2]) if bad else
               "get_source(id) = sources[map[id]] on %d path(s)" % n_some, gs.site())
    # the map is built from the list
    de = [b for b in facts.all if b.promoted < 0 and b.path.startswith("<db::Sources as ") and b.path.endswith("Deserialize<'de>>::deserialize")]
    if not rep.ob(rule, "anchor:Sources-deserialize", len(de) == 1, "the Deserialize impl of Sources found (%d)" % len(de)):
        return
    b = de[0]
    sadt2 = facts.adt("db::Source")
    sidx = [i for i, f in enumerate(sadt2["variants"][0]["fields"]) if f["name"] == "id" or f["ty"] == "u64"][0]

    def src(k):
        fs = [TOP] * len(sadt2["variants"][0]["fields"])
        fs[sidx] = Sym("s%d.id" % k)
        return Agg("adt", "db::Source", 0, "Source", tuple(fs))
    two = Seq((src(0), src(1)))

    def oracle2(dom_, it_, name, args, vals, store):
        if "deserialize" in name and vals and vals[0] == Sym("deserializer") and name != b.path:
            # the derived decoder of the raw list: a struct of the crate whose only field is the Vec<Source>
            raws = [a for (c_, p_), a in facts.adts.items() if not a["is_enum"] and len(a["variants"][0]["fields"]) == 1
                    and a["variants"][0]["fields"][0]["ty"].startswith("std::vec::Vec<db::Source") and p_ in name]
            if len(raws) == 1:
                return [(ok(Agg("adt", raws[0]["path"], 0, raws[0]["variants"][0]["name"], (two,))), store), (err(Sym("decode_error")), store)]
        return oracle(dom_, it_, name, args, vals, store)
    dom2 = EffectDomain({}, oracle=oracle2)
    dom2.uninterp = lambda n: facts.fn(n) is None
    it2 = core.Interp(facts, dom2, budget=40000)
    try:
        outs2 = it2.run(b, [Sym("deserializer")], {})
    except core.Undecided as e:
        rep.ob(rule, "map-built-from-list", False, "undecided: %s" % e, b.site())
        return
    good = 0
    bad2 = []
    for o in outs2:
        if o.kind != "ret" or not (isinstance(o.value, Agg) and o.value.vi == 0 and o.value.path == "std::result::Result"):
            continue
        ins = [(e[1], e[2]) for e in dom2.log(o.store) if e[0] == "map-insert"]
        want = [(Sym("s0.id"), Const(0)), (Sym("s1.id"), Const(1))]
        v = o.value.field(0)
        vec_ok = isinstance(v, Agg) and v.field(i_vec[0]) == two
        if not ins and isinstance(v, Agg):
            # the map collected from an iterator over the list (`iter().enumerate().map(..).collect()`): its pairs in order
            mv = v.field(i_map[0])
            mv = it2.read_ref(o.store, mv) if isinstance(mv, Ref) else mv
            if isinstance(mv, Seq) and all(isinstance(x, Agg) and x.kind == "tuple" and len(x.fields) == 2 for x in mv.items):
                ins = [(x.field(0), x.field(1)) for x in mv.items]
        if ins == want and vec_ok:
            good += 1
        else:
            bad2.append("the map receives %r (specified %r); the list kept is %s" % (ins, want, "the decoded one" if vec_ok else "another one"))
    rep.ob(rule, "map-built-from-list", good >= 1 and not bad2, "; ".join(bad2[:2]) if bad2 else
           "decoding two sources inserts (s0.id -> 0), (s1.id -> 1) and keeps the list", b.site())
