"""C01 - numeric expressions evaluate to the exact rational value."""
import re

from .. import facts as F
from .. import flow, tables
from ..absint import core
from ..absint.core import Agg, Const, TOP, Ref, UNIT
from ..absint.term import TermDomain, EffectDomain, Sym, T, K
from ..callgraph import CallGraph
from ..numnames import classify, OPS, LOSSY
from .common import census, anchor
from . import evalops as E
from . import c12

LEVEL = "other"


# ---- R1: no float / lossy operation reachable from exact arithmetic ----------------------------------------
ROOT_FNS = ["eval::add", "eval::sub", "eval::mul", "eval::div", "eval::pow", "eval::unit",
            "<rational::Rational as std::str::FromStr>::from_str", "compound::Compound::factor", "compound::Compound::mul",
            "compound::Compound::pow", "compound::apply_conversion", "compound::Compound::update", "compound::Compound::update_power",
            "compound::Compound::base_units", "powers::Powers::insert"]


def arithmetic_roots(facts):
    roots = [r for r in ROOT_FNS if facts.fn(r) is not None]
    missing = [r for r in ROOT_FNS if facts.fn(r) is None]
    for b in facts.lib_bodies():
        if b.from_derive():
            continue
        p = b.path
        if re.match(r"^<&?('\w+ )?rational::Rational as std::ops::", p):
            roots.append(p)
        if p.startswith("units::") and "{closure#" in p:
            roots.append(p)
        if p.startswith("compound::Compound::mul::"):
            roots.append(p)
        if p in ("rational::Rational::new", "rational::Rational::pow", "rational::Rational::recip", "rational::Rational::numer",
                 "rational::Rational::denom", "rational::Rational::is_integer", "units::time::time_powers"):
            roots.append(p)
    return roots, missing


def is_lossy(name):
    c = classify(name)
    if c is None:
        if name.startswith("std::f64::") or name.startswith("std::f32::") or "::<impl f64>::" in name or "::<impl f32>::" in name:
            return True
        return False
    ty, m, trait = c
    if ty in ("Ratio", "BigInt", "num") and m in LOSSY:
        return True
    if ty == "Rational" and (m in ("from_f64", "floor", "ceil", "round") or m.startswith("to_")):
        return True
    return False


def r1_effects(facts, rep):
    rep.rule("C01-R1", "exact-arithmetic effect rule: no function reachable (resolved call graph) from the arithmetic roots "
                       "(the five operator functions, the literal reader, the 16 Rational operator impls, unit conversion and "
                       "the unit tables' closures) has a local of type f32/f64, calls a lossy numeric operation "
                       "(to_f64, from_float, trunc, round, floor, ceil, to_integer, to_i*/to_u* ...) or narrows an integer "
                       "with an `as` cast; the NUMBER / PERCENTAGE / OPERATION arms of eval::eval call none either")
    cg = CallGraph(facts)
    roots, missing = arithmetic_roots(facts)
    for m in missing:
        rep.ob("C01-R1", "anchor:" + m, False, "arithmetic root %s not found" % m)
    rep.floor("C01-R1", "arithmetic roots", len(roots), 28)
    stop = {"eval::builtin", "db::Db::lookup", "eval::builtin::sin", "eval::builtin::cos"}
    # the ToPrimitive wrappers of Rational are conversions out of the rationals: calling one is the lossy act
    stop |= {p for p in cg.local if p.startswith("<rational::Rational as num::ToPrimitive>::")}
    reach = cg.reachable(roots, stop=stop)
    local = sorted(p for p in reach if p in cg.local)
    rep.count("functions reachable from arithmetic roots", len(local))
    # the integer power of a unit legitimately converts the exponent to i32 (checked, with an error on failure)
    # (in eval::pow or a helper only it uses; C04-R1 decides what becomes of the converted exponent)
    allowed = {(q, "to_i32") for q in cg.exclusive("eval::pow")}
    for p in local:
        b = cg.local[p]
        floats = [l["id"] for l in b.locals if l["ty"] in ("f32", "f64") or re.search(r"\bf(32|64)\b", l["ty"])]
        rep.ob("C01-R1", "no-float:%s" % p, not floats, "%s has %d float-typed local(s)" % (p, len(floats)), b.site(),
               nontrivial=False)
        for blk, t, sp, name in b.calls():
            if is_lossy(name):
                c = classify(name)
                if c and (p, c[1]) in allowed:
                    # must be checked: the None case leads to an error
                    continue
                rep.ob("C01-R1", "lossy:%s:%s" % (p, name.split("::")[-1]), False,
                       "%s calls the lossy operation %s" % (p, name), b.site(sp))
        for blk, i, s in b.stmts():
            rv = s["rv"]
            if rv["k"] == "cast" and rv["kind"].startswith(("FloatToInt", "IntToFloat", "FloatToFloat")):
                rep.ob("C01-R1", "float-cast:%s" % p, False, "%s casts through a float (%s)" % (p, rv["kind"]), b.site(s["span"]))
            if rv["k"] == "cast" and rv["kind"].startswith("IntToInt") and rv["op"]["k"] in ("copy", "move"):
                src_ty = b.local_ty(rv["op"]["place"]["local"]) if not rv["op"]["place"]["proj"] else None
                if src_ty and _narrows(src_ty, rv["ty"]):
                    rep.ob("C01-R1", "narrowing-cast:%s:%s->%s" % (p, src_ty, rv["ty"]), p.startswith("<unit::Display"),
                           "%s narrows %s to %s with `as`" % (p, src_ty, rv["ty"]), b.site(s["span"]))
    ev = facts.fn("eval::eval")
    if ev is not None:
        bad = [name for blk, t, sp, name in ev.calls() if is_lossy(name)]
        floats = [l["id"] for l in ev.locals if l["ty"] in ("f32", "f64")]
        rep.ob("C01-R1", "eval::eval:direct", not bad and not floats, "eval::eval itself: lossy calls %s, float locals %d" % (bad, len(floats)),
               ev.site())
    # positive control: the same predicates fire on the crate's own float code
    pos = 0
    for p in ("eval::builtin::sin", "rational::Rational::from_f64"):
        b = facts.fn(p)
        if b is not None and (any(is_lossy(n) for _, _, _, n in b.calls()) or any(l["ty"] == "f64" for l in b.locals)):
            pos += 1
    rep.ob("C01-R1", "positive-control", pos >= 1, "the lossy/float detectors fire on %d known float function(s) of the crate" % pos)


def _bits(ty):
    m = re.match(r"^[iu](\d+|size)$", ty)
    if not m:
        return None
    return 64 if m.group(1) == "size" else int(m.group(1))


def _narrows(a, b):
    x, y = _bits(a), _bits(b)
    if x is None or y is None:
        return False
    if y < x:
        return True
    if a[0] == "i" and b[0] == "u":
        return True
    return False


# ---- R2: operator wiring --------------------------------------------------------------------------------------
def lexer_table(facts):
    """{text: token kind name} for the operator characters, from abstract runs of Lexer::next."""
    bodies = c12.lexer_bodies(facts)
    consts, preds, unknown = c12.chars.char_constants(bodies)
    ats = c12.chars.atoms(consts, preds)
    body = facts.fn(c12.NEXT)
    out = {}
    for text in ("+", "-", "*", "**", "/", "^", "%", "(", ")", ","):
        dom = c12.LexDomain(ats, facts=facts)
        it = core.Interp(facts, dom, budget=100000)
        st = dom.setlex({(0, 0): c12.lexer_value(False, facts)}, ord(text[0]), ord(text[1]) if len(text) > 1 else ord(" "))
        kinds = set()
        for o in it.run(body, [Ref(0, 0)], st):
            v = o.value
            tok = v.field(0) if isinstance(v, Agg) and v.vname == "Some" else None
            k = tok.field(1) if isinstance(tok, Agg) else None
            kinds.add(k.vname if isinstance(k, Agg) else None)
        out[text] = kinds
    return out


def op_table(facts):
    """{token kind name: (priority, OP_* name, is_unit)} by running grammar::operation::op for every token kind."""
    body = facts.fn("syntax::grammar::operation::op")
    adt = facts.adt("syntax::parser::Syntax")
    if body is None or adt is None:
        return None
    out = {}
    for vi, v in enumerate(adt["variants"]):
        kind = Agg("adt", "syntax::parser::Syntax", vi, v["name"], ())

        def oracle(dom, it, name, args, vals, store, kind=kind):
            if name == "syntax::parser::Parser::<'a>::count_skip":
                return [(Sym("skip"), store)]
            if name == "syntax::parser::Parser::<'a>::nth":
                return [(kind, store)]
            return None
        dom = TermDomain(oracle=oracle)
        it = core.Interp(facts, dom, budget=20000)
        outs = it.run(body, [Sym("parser")], {})
        res = set()
        for o in outs:
            val = o.value
            if isinstance(val, Agg) and val.vname == "Some":
                t = val.field(0)
                prio, k, u = t.field(0), t.field(1), t.field(2)
                res.add((prio.v if isinstance(prio, Const) else None, k.vname if isinstance(k, Agg) else None,
                         bool(u.v) if isinstance(u, Const) else None, repr(t.field(3))))
            else:
                res.add(None)
        out[v["name"]] = res
    return out


def dispatch_table(facts):
    """{OP_* name: function} from the operator match of eval::eval."""
    body = facts.fn("eval::eval")
    if body is None:
        return None, None
    best = None
    for b, t, sp in body.terms():
        if t["k"] != "switch":
            continue
        m = {}
        for v, x in t["targets"]:
            fn = tables.first_fn_in_block(body, x)
            if fn:
                m[int(v)] = fn
        if len(m) >= 3 and (best is None or len(m) > len(best[0])):
            best = (m, b["id"])
    if best is None:
        return None, None
    return {facts.variant_by_discr("syntax::parser::Syntax", v): fn for v, fn in best[0].items()}, best[1]


WANT_LEX = {"+": "PLUS", "-": "DASH", "*": "STAR", "**": "STARSTAR", "/": "SLASH", "^": "CARET", "%": "PERCENTAGE"}
WANT_OP = {"PLUS": "OP_ADD", "DASH": "OP_SUB", "STAR": "OP_MUL", "SLASH": "OP_DIV", "CARET": "OP_POWER", "STARSTAR": "OP_POWER",
           "TO": "OP_CAST"}
WANT_FN = {"OP_ADD": "eval::add", "OP_SUB": "eval::sub", "OP_MUL": "eval::mul", "OP_IMPLICIT_MUL": "eval::mul",
           "OP_DIV": "eval::div", "OP_POWER": "eval::pow"}


def r2_wiring(facts, rep):
    rep.rule("C01-R2", "operator wiring: the lexer maps + - * ** / ^ % to PLUS DASH STAR STARSTAR SLASH CARET PERCENTAGE "
                       "(abstract runs of Lexer::next); grammar::op maps those tokens to OP_ADD OP_SUB OP_MUL OP_POWER OP_DIV "
                       "OP_POWER (run of op() for every token kind); eval dispatches OP_* to add/sub/mul/div/pow (match table); "
                       "each operator function applies the matching exact operation with its operands in order (path summaries, R4)")
    lt = lexer_table(facts)
    for text, want in WANT_LEX.items():
        rep.ob("C01-R2", "lexer:%s" % text, lt.get(text) == {want}, "the lexer turns '%s' (followed by a blank) into %s" % (text, sorted(map(str, lt.get(text, [])))),
               sample={"text": text, "token": sorted(map(str, lt.get(text, [])))})
    ot = op_table(facts)
    if rep.ob("C01-R2", "anchor:op", ot is not None, "grammar::operation::op analysed"):
        n = 0
        for tok, res in sorted(ot.items()):
            want = WANT_OP.get(tok)
            got = {r[1] if r else None for r in res}
            if want is None:
                rep.ob("C01-R2", "op:%s" % tok, got == {None}, "op() on %s yields %s (not an operator)" % (tok, sorted(map(str, got))), nontrivial=False)
            else:
                n += 1
                rep.ob("C01-R2", "op:%s" % tok, got == {want}, "op() maps %s to %s" % (tok, sorted(map(str, got))),
                       sample={"token": tok, "operator": sorted(map(str, got))})
        rep.floor("C01-R2", "operator tokens", n, 7)
    # which function an operator kind is folded with: from the summary of eval::eval on OPERATION [x op y] (helpers followed)
    from . import evalnode
    for opk, fn in WANT_FN.items():
        try:
            dom, res = evalnode.fold_summary(facts, [opk])
        except core.Undecided as e:
            rep.ob("C01-R2", "dispatch:%s" % opk, False, "undecided: %s" % e)
            continue
        used = {e[1] for o, u, ev in res for e in ev if e[0] in ("operator", "operator-failed")}
        oks = [ev for o, u, ev in res if u and u[0] == "ok"]
        rep.ob("C01-R2", "dispatch:%s" % opk, used == {fn} and len(oks) >= 1, "eval folds %s with %s" % (opk, sorted(used)),
               sample={"op": opk, "fn": sorted(used)})


# ---- R3: forwarding of the Rational operators -------------------------------------------------------------------
def r3_forwarding(facts, rep):
    rep.rule("C01-R3", "forwarding: every `impl ops::X for Rational` computes exactly the same operator of the inner "
                       "BigRational on (self.rational, rhs.rational) in this order; Rational::{new, pow, recip, numer, denom, "
                       "is_integer} and the Zero/One impls forward to the BigRational operation of the same name")
    n = 0
    for b in facts.lib_bodies():
        m = re.match(r"^<(&('\w+ )?)?rational::Rational as std::ops::(\w+)(<.*>)?>::(\w+)$", b.path)
        if not m or b.from_derive():
            continue
        trait, meth = m.group(3), m.group(5)
        if meth not in OPS:
            continue
        n += 1
        op = OPS[meth]
        dom = TermDomain()
        it = core.Interp(facts, dom, budget=20000)
        store = {}
        args = []
        for i in range(1, b.arg_count + 1):
            ty = b.local_ty(i)
            v = Agg("adt", "rational::Rational", 0, "Rational", (Sym("x%d" % i),))
            if ty.startswith("&"):
                store[(0, i)] = v
                args.append(Ref(0, i))
            else:
                args.append(v)
        try:
            outs = it.run(b, args, store)
        except core.Undecided as e:
            rep.ob("C01-R3", b.path, False, "undecided: %s" % e, b.site())
            continue
        want = T(op[0], Sym("x1"), Sym("x2")) if len(args) == 2 else T(op, Sym("x1"))
        good = bool(outs)
        got = []
        for o in outs:
            if o.kind != "ret":
                good = False
                got.append(o.kind)
                continue
            if meth.endswith("_assign"):
                r = it.read_ref(o.store, Ref(0, 1))
            else:
                r = o.value
            val = r.field(0) if isinstance(r, Agg) and r.path == "rational::Rational" else r
            got.append(repr(val))
            if val != want:
                good = False
        rep.ob("C01-R3", b.path, good, "%s computes %s (expected %r)" % (b.path, " | ".join(got), want), b.site(),
               sample={"impl": b.path, "computes": got})
    rep.floor("C01-R3", "operator impls of Rational", n, 16)
    simple = {"rational::Rational::recip": ("recip", 1), "rational::Rational::pow": ("pow", 2),
              "rational::Rational::is_integer": ("is_integer", 1), "rational::Rational::numer": ("numer", 1),
              "rational::Rational::denom": ("denom", 1), "<rational::Rational as num::Zero>::is_zero": ("is_zero", 1),
              "<rational::Rational as num::One>::is_one": ("is_one", 1)}
    for path, (m, ar) in simple.items():
        b = anchor(rep, "C01-R3", facts, path)
        if b is None:
            continue
        cs = [(t, nm) for blk, t, sp, nm in b.calls()]
        cls = [classify(nm) for t, nm in cs]
        fw = [c for c in cls if c and c[0] == "Ratio" and c[1] == m]
        okk = len(cs) == 1 and len(fw) == 1
        if okk:
            okk = flow.field_origins(b, cs[0][0]["args"][-ar if ar == 1 else 0]) == {("rational",)}
        rep.ob("C01-R3", path, okk, "%s calls %s" % (path, [nm for t, nm in cs]), b.site())
    b = anchor(rep, "C01-R3", facts, "rational::Rational::new")
    if b is not None:
        cs = [nm for blk, t, sp, nm in b.calls()]
        news = [blk_t for blk_t in b.calls() if blk_t[3] == "num::rational::Ratio::<T>::new"]
        okk = len(news) == 1
        if okk:
            t = news[0][1]
            s0 = flow.slice_back(b, t["args"][0])
            s1 = flow.slice_back(b, t["args"][1])
            okk = ("param", 1, ()) in s0 and ("param", 2, ()) in s1 and ("param", 2, ()) not in s0 and ("param", 1, ()) not in s1
        rep.ob("C01-R3", "rational::Rational::new", okk, "Rational::new builds BigRational::new(numer.into(), denom.into()): calls %s" % cs, b.site())


# ---- R4: path summaries of the five operator functions ------------------------------------------------------------
def r4_operators(facts, rep):
    rep.rule("C01-R4", "path summaries of eval::{add,sub,mul,div,pow} over symbolic operands (per emptiness class of the "
                       "units): every Ok result is exactly a+b / a-b / a*b / a/b of the (unit-converted) operand values in this "
                       "order, or base^exponent (1 for a zero exponent, the closed form of the recognised counting loop with the "
                       "reciprocal base for a negative exponent); a division is only performed where the divisor was tested "
                       "non-zero; a zero base with a negative exponent yields Err(DivideByZero) only; recip() is only reached "
                       "with a non-zero receiver; no path panics")
    av, bv = Sym("a.value"), Sym("b.value")
    for fn, op in (("add", "+"), ("sub", "-"), ("mul", "*"), ("div", "/")):
        if anchor(rep, "C01-R4", facts, "eval::" + fn) is None:
            continue
        for ea, eb in E.EMPTY_CLASSES:
            cls = "a.unit %s, b.unit %s" % ("empty" if ea else "non-empty", "empty" if eb else "non-empty")
            try:
                dom, it, body, outs = E.run_binop(facts, fn, ea, eb)
            except core.Undecided as e:
                rep.ob("C01-R4", "%s:%s" % (fn, cls), False, "undecided: %s" % e)
                continue
            rep.count("operator paths", len(outs))
            n_ok = 0
            for o in outs:
                if o.kind != "ret":
                    rep.ob("C01-R4", "%s:%s:panic" % (fn, cls), False, "eval::%s can end in %s (%s)" % (fn, o.kind, o.value), o.site)
                    continue
                u = E.unpack(o.value)
                if u[0] != "ok":
                    continue
                n_ok += 1
                val = u[1]
                if fn in ("add", "sub"):
                    wants = [T(op, av, bv)] if (ea or eb) else [T(op, av, T("conv", bv, Sym("b.unit"), Sym("a.unit")))]
                else:
                    n = Const(1 if fn == "mul" else -1)
                    wants = [T(op, T("mul_lhs", av, Sym("a.unit"), Sym("b.unit"), n), T("mul_rhs", bv, Sym("a.unit"), Sym("b.unit"), n))]
                rep.ob("C01-R4", "%s:%s:value" % (fn, cls), val in wants,
                       "eval::%s returns %r, expected %r" % (fn, val, wants[0]), o.site,
                       sample={"fn": fn, "class": cls, "value": repr(val)})
                if fn == "div":
                    rhs = wants[0].args[1]
                    nz = dom.decide(o.store, T("is_zero", rhs)) is False
                    rep.ob("C01-R4", "div:%s:divisor-tested" % cls, nz,
                           "the quotient is computed %s" % ("only where the divisor was tested non-zero" if nz else "WITHOUT a dominating zero test of the divisor"),
                           o.site)
            rep.ob("C01-R4", "%s:%s:has-ok" % (fn, cls), n_ok >= 1, "%d Ok path(s)" % n_ok)
            if fn == "div":
                # the zero divisor yields DivideByZero only
                for o in outs:
                    u = E.unpack(o.value)
                    rhs = T("mul_rhs", bv, Sym("a.unit"), Sym("b.unit"), Const(-1))
                    if dom.decide(o.store, T("is_zero", rhs)) is True:
                        rep.ob("C01-R4", "div:%s:zero-divisor" % cls, u[0] == "err" and u[1] == "DivideByZero",
                               "a zero divisor yields %s" % (u[1] if u[0] == "err" else u[0]), o.site)
    r4_totality(facts, rep, "C01-R4")
    # pow
    if anchor(rep, "C01-R4", facts, "eval::pow") is None:
        return
    try:
        dom, body, outs, info, why = E.run_pow(facts)
    except core.Undecided as e:
        rep.ob("C01-R4", "pow:summary", False, "undecided: %s" % e)
        return
    if not rep.ob("C01-R4", "pow:loop-idiom", outs is not None,
                  "the loop of eval::pow is a counting product: one turn is ACC * X and counter - step, left at counter = 0 (checked inductively); closed form ACC0 * X^|counter|" if outs is not None else why,
                  body.site()):
        return
    pow_piecewise(dom, body, outs, rep)


def r4_totality(facts, rep, rule):
    """No spurious arithmetic errors: +, - and * of commensurable operands always have a value; / fails only for a zero divisor."""
    rep.rule(rule, rep.rules.get(rule, "") + ("  Totality: in the summaries of add / sub / mul an Err(DivideByZero) path exists only under "
             "the impossible condition 'a denominator is zero'; in div only where the divisor (or a denominator) was tested zero; every "
             "other error of the four operators is a unit error that follows a failed or negative verdict of the unit comparison / "
             "conversion"))
    av, bv = Sym("a.value"), Sym("b.value")
    for fn in ("add", "sub", "mul", "div"):
        if facts.fn("eval::" + fn) is None:
            continue
        for ea, eb in E.EMPTY_CLASSES:
            cls = "a.unit %s, b.unit %s" % ("empty" if ea else "non-empty", "empty" if eb else "non-empty")
            try:
                dom, it, body, outs = E.run_binop(facts, fn, ea, eb)
            except core.Undecided as e:
                rep.ob(rule, "%s:%s:total" % (fn, cls), False, "undecided: %s" % e)
                continue
            bad = []
            n_err = 0
            for o in outs:
                if o.kind != "ret":
                    continue
                u = E.unpack(o.value)
                if u[0] != "err":
                    continue
                n_err += 1
                pc = dom.pc(o.store)
                log = dom.log(o.store)
                pcs = "; ".join("%r=%s" % (p, b) for p, b in pc)
                if u[1] == "DivideByZero":
                    denom_zero = any(isinstance(p, T) and p.op == "is_zero" and isinstance(p.args[0], T) and p.args[0].op == "denom" and b is True for p, b in pc)
                    divisor_zero = fn == "div" and any(isinstance(p, T) and p.op == "is_zero" and b is True and (
                        "b.value" in repr(p.args[0]) or "mul_rhs" in repr(p.args[0])) for p, b in pc)
                    if not (denom_zero or divisor_zero):
                        bad.append("Err(DivideByZero) where %s: %s has a value there" % (pcs or "always", {"add": "a + b", "sub": "a - b", "mul": "a * b", "div": "a / b with a non-zero b"}[fn]))
                elif u[1] in ("IllegalOperation", "ConversionNotPossible", "IllegalCast"):
                    verdict = [e_ for e_ in log if e_[0] in ("factor", "unit_mul") and e_[1] in ("incommensurable", "error")]
                    if not verdict:
                        bad.append("Err(%s) without a failed unit comparison / conversion (where %s)" % (u[1], pcs))
                else:
                    bad.append("Err(%s) from eval::%s (where %s)" % (u[1], fn, pcs))
            rep.ob(rule, "%s:%s:total" % (fn, cls), not bad, "; ".join(sorted(set(bad))[:3]) if bad else
                   "eval::%s fails only with a unit error after a failed comparison / conversion%s (%d error path(s))" % (
                       fn, " or for a zero divisor" if fn == "div" else "", n_err), facts.fn("eval::" + fn).site())


def pow_piecewise(dom, body, outs, rep):
    """The summary of eval::pow is a piecewise function: (path condition -> value or error).  It is compared with the
    specification pointwise on a grid of (base, exponent, unit emptiness, i32 fit): every path must be taken by some grid
    point, and at every grid point every path whose condition holds must give the specified result."""
    from ..absint import evalterm
    from fractions import Fraction
    bases = [Fraction(0), Fraction(2), Fraction(-1, 3), Fraction(5, 7), Fraction(-4)]
    exps = [Fraction(-3), Fraction(-2), Fraction(-1), Fraction(0), Fraction(1), Fraction(2), Fraction(3), Fraction(1, 2), Fraction(-3, 2)]
    grid = []
    huge = Fraction(10 ** 10)
    points = [(b, e) for b in bases for e in exps] + [(b, e) for b in (Fraction(0), Fraction(1), Fraction(-1)) for e in (huge, -huge, huge + 1)]
    for b, e in points:
        for be in (True, False):
            for pe in (True, False):
                fits = e.denominator != 1 or abs(e) < 2 ** 31
                env = {"base.value": b, "pow.value": e, "base.unit": "BU", "pow.unit": "PU", "span": "span",
                       "is_empty": (lambda u, be=be, pe=pe: be if u == "BU" else pe)}
                grid.append((env, b, e, be, pe, fits))

    def spec(b, e, be, pe, fits):
        errs = set()
        if not pe:
            errs.add("IllegalPowerUnit")
        if e.denominator != 1:
            errs.add("IllegalPowerNonInteger")
        if not be and not fits:
            errs.add("IllegalPowerTooLarge")
        if b == 0 and e < 0:
            errs.add("DivideByZero")
        val = None
        if not errs:
            val = Fraction(1) if e == 0 else b ** int(e)
        return errs, val

    n_ok = n_err = n_infeasible = 0
    zero_neg_seen = False
    for idx, o in enumerate(outs):
        pc = dom.pc(o.store)
        pcs = "; ".join("%r=%s" % (p, b) for p, b in pc)
        if o.kind != "ret":
            rep.ob("C01-R4", "pow:panic:%s" % E_key(pc), False, "eval::pow can end in %s (%s) where %s" % (o.kind, o.value, pcs), o.site)
            continue
        u = E.unpack(o.value)
        overflow_event = any(e_[0] == "unit_pow" and e_[1] == "overflow" for e_ in dom.log(o.store))
        hits = 0
        bad = None
        try:
            for env, b, e, be, pe, fits in grid:
                if not evalterm.holds(pc, env):
                    continue
                hits += 1
                errs, val = spec(b, e, be, pe, fits)
                if overflow_event and not be:
                    errs = errs | {"IllegalPowerTooLarge"}
                    val = None
                if u[0] == "ok":
                    got = evalterm.ev(u[1], env)
                    if errs and val is None:
                        bad = "returns the number %s for base %s, exponent %s (unit empty: %s); specified an error (%s)" % (got, b, e, be, sorted(errs))
                        break
                    if got != val:
                        bad = "returns %s for base %s, exponent %s; specified %s" % (got, b, e, val)
                        break
                elif u[0] == "err":
                    if u[1] not in errs:
                        bad = "returns Err(%s) for base %s, exponent %s (base unit empty: %s, exponent unit empty: %s, fits i32: %s); specified %s" % (
                            u[1], b, e, be, pe, fits, "the value %s" % val if not errs else "one of %s" % sorted(errs))
                        break
                    if u[1] == "DivideByZero":
                        zero_neg_seen = True
                else:
                    bad = "returns %r" % (o.value,)
                    break
        except evalterm.Unrecognised as ex:
            bad = "the path condition or value uses something the comparison does not know: %s" % ex
        except ZeroDivisionError:
            bad = "the value divides by zero at a grid point that satisfies the path condition (the division is not guarded)"
        if bad is None and hits == 0 and not overflow_event:
            if evalterm.sign_contradiction(pc):
                # an infeasible path of the summary (e.g. sign = Plus in one helper, is_negative in the next): nothing to compare
                n_infeasible += 1
                continue
            bad = "no grid point satisfies the path condition %s: an unreachable or unrecognised case" % pcs
        if u[0] == "ok":
            n_ok += 1
        elif u[0] == "err":
            n_err += 1
        kind = u[0] if u[0] != "err" else "err:" + u[1]
        rep.ob("C01-R4", "pow:path:%s:%s" % (kind, E_key(pc)), bad is None,
               ("eval::pow %s where %s" % (bad, pcs)) if bad else "agrees with base^exponent / the specified error at all %d grid points of this path" % hits,
               o.site, sample={"result": repr(u[1]) if len(u) > 1 else None, "path_condition": pcs, "grid_points": hits})
        if u[0] == "ok" and "recip" in repr(u[1]):
            bz = dom.decide(o.store, T("is_zero", Sym("base.value")))
            rep.ob("C01-R4", "pow:recip-guarded:%s" % E_key(pc), bz is False,
                   "recip(base) is reached %s" % ("only with a base tested non-zero" if bz is False else "WITHOUT a zero test of the base"), o.site)
    # completeness: every grid point is answered by some path
    uncovered = 0
    try:
        for env, b, e, be, pe, fits in grid:
            if not any(evalterm.holds(dom.pc(o.store), env) for o in outs if o.kind == "ret"):
                uncovered += 1
    except evalterm.Unrecognised:
        uncovered = -1
    rep.ob("C01-R4", "pow:total", uncovered == 0 and n_ok >= 3 and n_err >= 3,
           "every one of the %d grid points is answered by a path (%d Ok paths, %d Err paths)" % (len(grid), n_ok, n_err) if uncovered == 0 else
           "%s grid points are answered by no path of the summary" % uncovered, body.site())
    rep.ob("C01-R4", "pow:zero-base-negative-exponent", zero_neg_seen,
           "zero base with a negative exponent is Err(DivideByZero) on its path(s)" if zero_neg_seen else "no path yields Err(DivideByZero)", body.site())


def E_key(pc):
    return "&".join("%s%r" % ("" if b else "!", p) for p, b in pc)[:200]


# ---- R5 / R6: percent and left fold ------------------------------------------------------------------------------
def r5_percent(facts, rep):
    rep.rule("C01-R5", "a percentage is the parsed literal divided by 100: summary of eval::eval on a PERCENTAGE node whose first "
                       "child is a NUMBER (syntree accessors on a scripted tree, helpers followed): the only Ok result is "
                       "parse(text of the NUMBER child) / 100 with the empty unit (compared semantically, so `* 1/100` is the same)")
    from . import evalnode
    from ..absint import evalterm
    from fractions import Fraction
    if anchor(rep, "C01-R5", facts, "eval::eval") is None:
        return
    tree = {0: {"kind": "PERCENTAGE", "children": [1, 2]}, 1: {"kind": "NUMBER", "children": []}, 2: {"kind": "PERCENTAGE", "token": True}}
    try:
        dom, it, outs = evalnode.run_eval(facts, tree)
    except core.Undecided as e:
        rep.ob("C01-R5", "percent", False, "undecided: %s" % e)
        return
    oks = []
    bad = []
    for o in outs:
        if o.kind != "ret":
            bad.append("%s %s" % (o.kind, o.value))
            continue
        u = E.unpack(o.value)
        if u[0] == "ok":
            oks.append(u[1])
    want = T("/", T("parse", T("text", Sym("span1"))), K(100))
    grid = [{"parse": (lambda x, v=v: v), "text": (lambda sp: Fraction(0)), "span1": Fraction(0), "span0": Fraction(0)}
            for v in (Fraction(0), Fraction(1), Fraction(-7, 3), Fraction(250), Fraction(1, 8))]
    for v in oks:
        try:
            eq, w = evalterm.sem_eq(v, want, grid)
        except evalterm.Unrecognised as e:
            eq, w = False, str(e)
        if not eq:
            bad.append("a percentage evaluates to %r; specified parse(text of the NUMBER child) / 100" % (v,))
    rep.ob("C01-R5", "percent", not bad and len(oks) >= 1, "; ".join(bad[:3]) if bad else "percentage = parse(literal) / 100 on the %d Ok path(s)" % len(oks),
           facts.fn("eval::eval").site(), sample={"value": repr(oks[0]) if oks else None})


FOLD_CASES = (["OP_SUB", "OP_DIV"], ["OP_POWER", "OP_ADD"], ["OP_MUL", "OP_MUL", "OP_SUB"], ["OP_CAST", "OP_ADD"], ["OP_ADD", "OP_CAST"],
              ["OP_CAST", "OP_CAST"])


def r6_fold(facts, rep, rule="C01-R6"):
    rep.rule(rule, "left fold: summary of eval::eval on OPERATION nodes with two and three operators (sub-evaluations, the unit "
                   "parser, the operator functions and Compound::factor as effects, helpers followed): on the path where "
                   "everything succeeds every operator is applied, in order, to (result so far, its own right operand); the "
                   "result of the node is the last result; a conversion `to` in the middle of a chain does not end the fold")
    from . import evalnode
    if anchor(rep, rule, facts, "eval::eval") is None:
        return
    for kinds in FOLD_CASES:
        key = "fold:" + ",".join(kinds)
        try:
            dom, res = evalnode.fold_summary(facts, kinds)
        except core.Undecided as e:
            rep.ob(rule, key, False, "undecided: %s" % e)
            continue
        full = [(u, ev) for o, u, ev in res if u and u[0] == "ok"]
        bad = []
        if len(full) != 1:
            bad.append("%d successful paths (one expected)" % len(full))
        for u, ev in full:
            acc = "child1"
            steps = [e for e in ev if e[0] in ("operator", "factor")]
            k = 0
            for n, kd in enumerate(kinds):
                rhs = 2 * n + 3
                if k >= len(steps):
                    bad.append("operator %d (%s) is never applied: the fold ends after %d step(s)" % (n + 1, kd, k))
                    break
                e = steps[k]
                k += 1
                if kd == "OP_CAST":
                    if e[0] != "factor" or e[1] != "commensurable" or e[2] != (acc if "(" in acc else acc + ".value"):
                        bad.append("step %d: expected the conversion of %s, got %r" % (n + 1, acc, e))
                        break
                    acc = "conv(%s, target%d, %s)" % (acc if "(" in acc else acc + ".value", rhs, (acc + ".unit") if "(" not in acc else "?")
                else:
                    want_fn = WANT_FN[kd]
                    accn = acc
                    if e[0] != "operator" or e[1] != want_fn or e[3] != "child%d" % rhs or not (e[2] == accn or (accn.startswith("conv(") and e[2].startswith(accn.split(", ")[0]))):
                        bad.append("step %d: expected %s(%s, child%d), got %r" % (n + 1, want_fn, acc, rhs, e))
                        break
                    acc = e[4]
            else:
                if k != len(steps):
                    bad.append("more operator applications than operators: %r" % (steps[k:],))
                got = repr(u[1])
                if not (got == acc + ".value" or (acc.startswith("conv(") and got.startswith(acc.split(", ")[0]))):
                    bad.append("the node's value is %s; expected the last result %s" % (got, acc))
        rep.ob(rule, key, not bad, "; ".join(bad[:3]) if bad else "operators applied in order, each to (result so far, own right operand)",
               facts.fn("eval::eval").site(), sample={"operators": kinds})


def run(fx, rep, tier):
    rep.assume("num::BigRational / BigInt arithmetic is exact (trusted)")
    for cfg, facts in fx.items():
        sub = rep if cfg == "dev" else type(rep)(rep.prop, rep.tier)
        r1_effects(facts, sub)
        r2_wiring(facts, sub)
        r3_forwarding(facts, sub)
        r4_operators(facts, sub)
        r5_percent(facts, sub)
        r6_fold(facts, sub)
        if cfg == "dev":
            sub.rule("C01-R7", "literals are read exactly: the reader is the decimal-literal transducer (shared with C07-R4)")
            from . import c07
            s7 = type(rep)(rep.prop, rep.tier)
            c07.r4_reader(facts, s7, "quick")
            for o in s7.obls:
                o["rule"] = "C01-R7"
                sub.obls.append(o)
        if cfg == "dev":
            sub.rule("C01-R8", "every operator mix is grouped as the grammar prescribes before it is folded: precedence and left "
                               "associativity of the operator stack (inductive, shared with C06-R6) over the priority levels of C06-R1")
            from . import c06
            s8 = type(rep)(rep.prop, rep.tier)
            pr = c06.r1_table(facts, s8)  # the priority levels themselves: `**` binds like `^`, not like `*`
            if pr is not None:
                c06.r6_stack(facts, s8, pr, "quick")
            for o in s8.obls:
                o["rule"] = "C01-R8"
                sub.obls.append(o)
        if sub is not rep:
            for o in sub.obls:
                o["key"] += "[rel]"
                rep.obls.append(o)
