"""C11 - any input yields values or located errors, never a crash."""
from .. import facts as F
from .. import flow
from ..callgraph import CallGraph
from ..numnames import classify
from .common import census, anchor

LEVEL = "other"

ROOTS = ["query::parse", "query::query", "<query::Query<'_> as std::iter::Iterator>::next",
         "<compound::Compound as std::str::FromStr>::from_str", "<rational::Rational as std::str::FromStr>::from_str"]

# panicking macro expansions that are allowed to exist, each with the rule that discharges it
PANIC_TABLE = {
    "compound::Compound::new": ("canonical", "debug_assert!(all powers non-zero): every map handed to Compound::new is in canonical form (C02-R1) "
                                               "and only Compound::mul / Compound::pow call it"),
    "eval::builtin::round": ("integrality", "debug_assert!(integral result) - discharged by the integrality facts of C10-R6"),
    "eval::builtin::floor": ("integrality", "debug_assert!(integral result) - discharged by C10-R6"),
    "eval::builtin::ceil": ("integrality", "debug_assert!(integral result) - discharged by C10-R6"),
}
# divisions by something that is not a literal non-zero constant, with the reason they cannot divide by zero
DIV_TABLE = {
    ("eval::div", "div"): ("zero-guard", "dominated by the zero test of the divisor (C01-R4)"),
    ("eval::eval", "div"): ("const", "percentage: divisor is Rational::new(100, 1)"),
    ("eval::builtin::round", "div_assign"): ("pow10", "divisor is Rational::new(10, 1).pow(n), a power of a non-zero constant"),
    ("compound::Compound::factor", "div_assign"): ("pow10", "divisor is Rational::new(10, 1).pow(prefix * power)"),
    ("<rational::Rational as std::str::FromStr>::from_str", "div_assign"): ("pow10", "divisor is BigInt::from(10).pow(..)"),
}
ASSERT_EXCEPTIONS = {
    ("prefix::Prefix::find", "BoundsCheck"): "index is the result of binary_search_by over the 21-entry table (Ok(n): n < 21; Err(n): n <= 21 and "
                                              "saturating_sub(1) < 21)",
    ("db::Db::lookup", "MisalignedPointerDereference"): "compiler-inserted check on a fresh Box allocation (vec! expansion)",
    ("db::Db::lookup", "NullPointerDereference"): "compiler-inserted check on a fresh Box allocation (vec! expansion)",
}


def reachable_hand_written(facts):
    cg = CallGraph(facts)
    roots = [r for r in ROOTS if r in cg.local]
    roots += [p for p in cg.local if "std::fmt::Display>::fmt" in p and not cg.local[p].from_derive()]
    reach = cg.reachable(roots)
    hw = [p for p in sorted(reach) if p in cg.local and not cg.local[p].from_derive() and cg.local[p].file.startswith("src/")
          and not cg.local[p].file.startswith("src/generated")]
    return cg, roots, hw


def r1_census(facts, rep, fx):
    rep.rule("C11-R1", "census of panicking constructs in hand-written code reachable (resolved call graph) from parse, query, "
                       "Query::next, the FromStr impls and the Display impls: every panic!/assert!/debug_assert! expansion, unwrap / "
                       "expect, str / slice indexing, recip, division by a non-constant and compiler-inserted assertion is either "
                       "discharged by a rule that is evaluated in this run (canonical form, integrality, zero-guard dominance, span "
                       "provenance, constant divisor) or is a frozen, commented exception; a new site is a violation naming it")
    cg, roots, hw = reachable_hand_written(facts)
    missing = [r for r in ROOTS if r not in cg.local]
    for m in missing:
        rep.ob("C11-R1", "anchor:" + m, False, "entry point %s not found" % m)
    rep.count("hand-written functions reachable from the entry points", len(hw))
    rep.floor("C11-R1", "reachable hand-written functions", len(hw), 60)
    deps = {}
    pow_own = cg.exclusive("eval::pow")
    round_own = cg.exclusive([r for r in ("eval::builtin::round", "eval::builtin::floor", "eval::builtin::ceil") if r in cg.local])
    fmt_own = cg.exclusive("<rational::display::Display<'_> as std::fmt::Display>::fmt")
    from . import c08 as _c08
    gen_code = _c08.generator_code_paths(facts)

    def dep(name):
        if name in deps:
            return deps[name]
        sub = type(rep)(rep.prop, rep.tier)
        if name == "canonical":
            from . import c02
            c02.r1_canonical(facts, sub)
            callers = sorted({b.path for b, bid, t, sp, nm in census(facts, lambda n: n == "compound::Compound::new")})
            sub.ob("x", "callers", set(callers) <= {"compound::Compound::mul", "compound::Compound::pow"}, "Compound::new is called from %s" % callers)
        elif name == "integrality":
            from . import c10
            c10.r2_builtins({"dev": facts}, sub, "quick")
        elif name == "zero-guard":
            from . import c01
            c01.r4_operators(facts, sub)
        bad = [o for o in sub.obls if not o["ok"]]
        deps[name] = (not bad, "; ".join("%s/%s" % (o["rule"], o["key"]) for o in bad[:3]))
        return deps[name]

    n_sites = 0
    overflow = 0
    for p in hw:
        b = cg.local[p]
        for blk, t, sp, name in b.calls():
            kind = None
            if name.startswith("core::panicking") or "begin_panic" in name or name.startswith("std::rt::panic"):
                kind = "panic"
            elif name.endswith("::unwrap") or name.endswith("::expect") or "unwrap_failed" in name or "expect_failed" in name:
                kind = "unwrap"
            elif "Index" in name and name.endswith("::index"):
                kind = "index"
            elif name.endswith("Ratio::<T>::recip"):
                kind = "recip-raw"
            elif name == "rational::Rational::recip":
                kind = "recip"
            else:
                c = classify(name)
                if c and c[1] in ("div", "div_assign", "rem", "rem_assign"):
                    kind = "div:" + c[0] + ":" + c[1]
            if kind is None:
                continue
            n_sites += 1
            site = b.site(sp)
            if kind == "panic":
                macros = "/".join(m.split("::")[-1] for m in sp["macros"])
                ent = PANIC_TABLE.get(p)
                if ent is None and p in round_own:
                    ent = ("integrality", "debug_assert!(integral result) in a helper only the rounding builtins use - discharged by C10-R6")
                if ent is None and p in gen_code:
                    ent = ("frozen", "debug_assert!(digit < 10) in the long-division digit generator (found by role, C08-R1 analyses it): "
                                     "rem < den on entry is the invariant of long division; C08-R1 shows the panic sits only behind the "
                                     "failed digit-range test")
                if ent is None:
                    okk, why = auto_discharge(facts, b, site)
                    rep.ob("C11-R1", "panic:%s" % p, okk, ("%s: %s" % (macros or name, why)) if okk else
                           "%s can panic (%s): not in the discharge table and %s" % (p, macros or name, why), site)
                    continue
                how, why = ent
                if how == "frozen":
                    rep.ob("C11-R1", "panic:%s" % p, True, "frozen exception: %s" % why, site, sample={"site": p, "exception": why})
                else:
                    okk, bad = dep(how)
                    rep.ob("C11-R1", "panic:%s" % p, okk, "%s: %s%s" % (macros, why, "" if okk else " - but the discharging rule fails: " + bad), site)
            elif kind == "unwrap":
                rep.ob("C11-R1", "unwrap:%s" % p, False, "%s calls %s" % (p, name), site)
            elif kind == "index":
                okk, why = index_ok(facts, b, t)
                if not okk and ("for [T; N]>::index" in name):
                    # a range of a fixed-size array (not the source text): inside the array on every path of the interval
                    # exploration of the function
                    from .. import intervals
                    done_, mf_ = b.__dict__.get("_intervals") or intervals.analyse(b)
                    b.__dict__["_intervals"] = (done_, mf_)
                    if done_ and blk["id"] not in mf_:
                        okk, why = True, "array-range: within the fixed-size array on every path of the interval exploration"
                rep.ob("C11-R1", "index:%s#%s" % (p, why.split(":")[0]), okk, "slice of the source text in %s: %s" % (p, why), site, sample={"fn": p, "range": why})
            elif kind == "recip-raw":
                rep.ob("C11-R1", "recip:%s" % p, p == "rational::Rational::recip", "BigRational::recip is called in %s" % p, site, nontrivial=False)
            elif kind == "recip":
                okk, bad = dep("zero-guard")
                rep.ob("C11-R1", "recip:%s" % p, p in pow_own and okk, "recip() in %s is reached only with a base tested non-zero (C01-R4)%s" % (p, "" if okk else ": " + bad), site)
            elif kind.startswith("div:"):
                _, ty, m = kind.split(":")
                if p.startswith("<") and "rational::Rational as std::ops::" in p:
                    rep.ob("C11-R1", "div-wrapper:%s" % p, True, "operator wrapper (its call sites are checked)", site, nontrivial=False)
                    continue
                ent = DIV_TABLE.get((p, m))
                if ent is None and p in fmt_own:
                    # whatever the formatter's functions are called: its divisions are by ten (digit count) and by the
                    # denominator (split, generator), decided by C08-R1/R2/R3
                    ent = ("frozen", "decimal formatter (a function only the formatter uses): divides by ten or by the non-zero denominator (C08-R1/R2/R3)")
                if ent is None:
                    okk, what = divisor_nonzero(facts, b, t)
                    if not okk:
                        okk, what = divisor_term_nonzero(facts, b, site)
                    rep.ob("C11-R1", "div:%s:%s" % (p, m), okk, ("division in %s: the divisor is %s" % (p, what)) if okk else
                           "division (%s) in %s is not in the discharge table and its divisor is %s" % (name, p, what), site)
                    continue
                how, why = ent
                if how == "zero-guard":
                    okk, bad = dep("zero-guard")
                    rep.ob("C11-R1", "div:%s:%s" % (p, m), okk, why + ("" if okk else ": " + bad), site)
                elif how in ("const", "pow10"):
                    okk, what = divisor_nonzero(facts, b, t)
                    rep.ob("C11-R1", "div:%s:%s#%d" % (p, m, sp["line"] % 1000 if False else 0) if False else "div:%s:%s:%s" % (p, m, what), okk,
                           "%s; the divisor is %s" % (why, what), site)
                else:
                    rep.ob("C11-R1", "div:%s:%s" % (p, m), True, "frozen exception: %s" % why, site, nontrivial=False)
        for blk, t, sp in b.terms():
            if t["k"] != "assert":
                continue
            n_sites += 1
            m = t["msg"].split("(")[0].split("{")[0].strip()
            if m.startswith("Overflow"):
                overflow += 1
                continue
            if t["cond"]["k"] == "const":
                continue
            exc = ASSERT_EXCEPTIONS.get((p, m))
            if m in ("DivisionByZero", "RemainderByZero"):
                okk = divisor_is_const(b, blk, t)
                rep.ob("C11-R1", "assert:%s:%s" % (p, m), okk, "%s in %s: divisor is %s" % (m, p, "a non-zero constant" if okk else "NOT a constant"), b.site(sp))
            else:
                if exc is None:
                    # interval exploration of the function's integer locals from its entry, parameters over their whole types
                    from .. import intervals
                    done_, mf_ = b.__dict__.get("_intervals") or intervals.analyse(b)
                    b.__dict__["_intervals"] = (done_, mf_)
                    if done_ and blk["id"] not in mf_:
                        exc = "holds on every path of the interval exploration of %s (parameters over their whole types)" % p
                rep.ob("C11-R1", "assert:%s:%s" % (p, m), exc is not None, "compiler-inserted %s in %s%s" % (m, p, ": " + exc if exc else " is not in the exception table"),
                       b.site(sp), nontrivial=False)
    from . import c11_sub
    n_sites += c11_sub.check(facts, rep, {p: cg.local[p] for p in hw if not cg.local[p].from_derive()})
    rep.count("panicking sites inspected", n_sites)
    rep.count("arithmetic-overflow assertions (listed, not discharged)", overflow)
    rep.floor("C11-R1", "panicking sites", n_sites, 35 if facts.crates["anything"].get("overflow_checks") else 15)


def auto_discharge(facts, body, site):
    """A panicking macro expansion that no table entry explains: explore the function on symbolic arguments with the term
    domain (integrality / sign entailment); it is discharged when no explored path reaches that site."""
    from ..absint import core
    from ..absint.core import Agg
    from ..absint.term import TermDomain, Sym
    from .evalops import numeric
    args = []
    for i in range(1, body.arg_count + 1):
        ty = body.local_ty(i).replace("&mut ", "").replace("&", "").strip()
        if ty.startswith("rational::Rational"):
            args.append(Agg("adt", "rational::Rational", 0, "Rational", (Sym("a%d" % i),)))
        elif ty.startswith("numeric::Numeric"):
            args.append(numeric("a%d" % i))
        else:
            args.append(Sym("a%d" % i))
    dom = TermDomain()
    dom.uninterp = lambda n: facts.fn(n) is None
    it = core.Interp(facts, dom, budget=60000)
    try:
        outs = it.run(body, args, {})
    except core.Undecided as e:
        return False, "the automatic discharge is undecided: %s" % e
    hits = [o for o in outs if o.kind in ("panic", "maypanic") and o.site == site]
    if hits:
        return False, "%d explored path(s) reach it (e.g. where %s)" % (len(hits), "; ".join("%r=%s" % (p_, b_) for p_, b_ in dom.pc(hits[0].store)) or "always")
    if not outs:
        return False, "no path of the function could be explored"
    return True, "no path of %s reaches it: the condition is implied on all %d explored paths (term domain: integrality and sign facts)" % (body.path, len(outs))


def term_nonzero(t):
    """A term that cannot be zero whatever its symbols are: a non-zero constant, a power / product / quotient / negation /
    reciprocal of such terms."""
    from ..absint.term import K, T
    from ..absint.core import Const
    if isinstance(t, K):
        return t.v != 0
    if isinstance(t, Const) and isinstance(t.v, int) and not isinstance(t.v, bool):
        return t.v != 0
    if isinstance(t, T):
        if t.op == "pow":
            return term_nonzero(t.args[0])
        if t.op in ("*", "/", "new"):
            return all(term_nonzero(a) for a in t.args)
        if t.op in ("neg", "recip", "abs"):
            return term_nonzero(t.args[0])
    return False


def divisor_term_nonzero(facts, body, site):
    """Explore the function with the term domain (helpers followed) and look at the divisor of every division reached at
    `site`: discharged when each of them is a term that cannot be zero."""
    from ..absint import core
    from ..absint.core import Agg
    from ..absint.term import TermDomain, Sym, T
    from .evalops import numeric

    class D(TermDomain):
        def __init__(self):
            super().__init__()
            self.uninterp = lambda n: facts.fn(n) is None
            self.divs = []

        def on_assert(self, it, body_, t, sp, st, frame):
            return False

        def num_call(self, it, ty, m, trait, args, vals, store):
            if m in ("div", "div_assign", "rem", "rem_assign") and len(vals) == 2:
                self.divs.append((self.cur_site, vals[1]))
            return super().num_call(it, ty, m, trait, args, vals, store)

        def call(self, it, name, args, store, term, frame):
            self.cur_site = None
            return super().call(it, name, args, store, term, frame)

    args = []
    for i in range(1, body.arg_count + 1):
        ty = body.local_ty(i).replace("&mut ", "").replace("&", "").strip()
        if ty.startswith("rational::Rational"):
            args.append(Agg("adt", "rational::Rational", 0, "Rational", (Sym("a%d" % i),)))
        elif ty.startswith("numeric::Numeric"):
            args.append(numeric("a%d" % i))
        else:
            args.append(Sym("a%d" % i))
    dom = D()
    it = core.Interp(facts, dom, budget=80000)
    # record the site of the division by intercepting at the call terminator level
    orig = it._call

    def _call(body_, frame, t, sp, st, depth):
        prev = getattr(dom, "site_now", None)
        dom.site_now = body_.site(sp)
        n0 = len(dom.divs)
        r = orig(body_, frame, t, sp, st, depth)
        if body_.path == body.path:
            # attribute every division performed below this call of the analysed function to the call's own site
            for k in range(n0, len(dom.divs)):
                dom.divs[k] = (body_.site(sp), dom.divs[k][1])
        dom.site_now = prev
        return r
    it._call = _call
    try:
        outs = it.run(body, args, {})
    except core.Undecided as e:
        return False, "undecided: %s" % e
    mine = [d for s_, d in dom.divs if s_ == site]
    if not mine:
        return False, "not reached by the exploration"
    bad = [d for d in mine if not term_nonzero(d.field(0) if isinstance(d, Agg) and d.path == "rational::Rational" else d)]
    if bad:
        return False, "not provably non-zero: %r" % (bad[0],)
    return True, "a term that cannot be zero on every explored path (%r)" % (mine[0].field(0) if isinstance(mine[0], Agg) and mine[0].path == "rational::Rational" else mine[0],)


def index_ok(facts, body, t):
    """The range used to slice the source text comes from a node's span / range, or is lexer.start..lexer.pos."""
    rng = t["args"][1]
    ls = flow.slice_back(body, rng, through_agg=True)
    calls = {l[1] for l in ls if l[0] == "call"}
    if calls and all(c.startswith("syntree::") and (c.endswith("::range") or c.endswith("::span")) for c in calls):
        return True, "node-span: %s" % sorted(c.split("::")[-1] for c in calls)
    if any(l[0] == "agg" and "Range" in l[1] for l in ls):
        fo = set()
        for blk, i, s in body.stmts():
            if s["rv"]["k"] == "aggregate" and "ops::Range" in s["rv"]["kind"].get("path", ""):
                for o in s["rv"]["ops"]:
                    fo |= flow.field_origins(body, o)
                    for l in flow.slice_back(body, o):
                        if l[0] in ("binop", "call"):
                            fo.add((l[0], l[1]))
        if fo == {("pos",)}:
            return True, "lexer-positions: start..pos (both copies of Lexer.pos, which only step() advances - C12-R1)"
        return False, "computed: range built from %s" % sorted(map(str, fo))
    if not calls and any(l[0] == "param" for l in ls):
        # a span handed in by the caller: the callers are checked by R2
        return True, "caller-span: the range is a Span parameter converted with range()"
    return False, "unknown: %s" % sorted(map(str, ls))[:3]


def divisor_nonzero(facts, body, t):
    div = t["args"][1]
    ls = flow.slice_back(body, div, facts=facts)
    calls = [l for l in ls if l[0] == "call"]
    for l in calls:
        name = l[1]
        ct = body.blocks[l[2]]["term"]["t"]
        if name == "rational::Rational::new":
            consts = [F.const_val(a) if a["k"] == "const" else None for a in ct["args"]]
            if all(isinstance(c, int) and c != 0 for c in consts):
                return True, "Rational::new(%s, %s)" % tuple(consts)
        if name in ("rational::Rational::pow", "num::BigInt::pow"):
            base = flow.slice_back(body, ct["args"][0], facts=facts)
            for l2 in base:
                if l2[0] == "call" and l2[1] == "rational::Rational::new":
                    c2 = body.blocks[l2[2]]["term"]["t"]
                    consts = [F.const_val(a) if a["k"] == "const" else None for a in c2["args"]]
                    if all(isinstance(c, int) and c != 0 for c in consts):
                        return True, "Rational::new(%s, %s).pow(..)" % tuple(consts)
                if l2[0] == "call" and "From<u32> for num::BigInt>::from" in l2[1]:
                    c2 = body.blocks[l2[2]]["term"]["t"]
                    v = F.const_val(c2["args"][0]) if c2["args"][0]["k"] == "const" else None
                    if isinstance(v, int) and v != 0:
                        return True, "BigInt::from(%d).pow(..)" % v
    return False, "not a power of a non-zero constant: %s" % sorted(l[1].split("::")[-1] for l in calls)


def divisor_is_const(body, blk, t):
    # the assertion guards a Div/Rem in the target block; its divisor operand must be a non-zero literal
    tgt = body.blocks[t["target"]]
    for s in tgt["stmts"]:
        if s["k"] == "assign" and s["rv"]["k"] == "binop" and s["rv"]["op"] in ("Div", "Rem"):
            d = s["rv"]["b"]
            return d["k"] == "const" and isinstance(F.const_val(d), int) and F.const_val(d) != 0
    return False


def r2_spans(facts, rep):
    rep.rule("C11-R2", "span provenance: the span of every Error::new (hand-written code) is the span of a node of the tree being "
                       "evaluated (Node::span), a span parameter handed down from such a call, or Span::new(0, len) of the whole "
                       "input; never the result of arithmetic")
    sites = census(facts, lambda n: n == "error::Error::new")
    rep.floor("C11-R2", "Error::new call sites", len(sites), 20)
    for b, bid, t, sp, name in sites:
        ls = flow.slice_back(b, t["args"][0], through_agg=True)
        kinds = set()
        for l in ls:
            if l[0] == "agg" and l[1] == "tuple":
                continue
            if l[0] == "call" and l[1].startswith("syntree::Node::<") and l[1].endswith("::value"):
                continue
            if l[0] == "call" and l[1].startswith("syntree::Node::<") and l[1].endswith("::span"):
                kinds.add("node-span")
            elif l[0] == "call" and l[1] == "syntree::Span::<I>::new":
                ct = b.blocks[l[2]]["term"]["t"]
                a0 = F.const_val(ct["args"][0]) if ct["args"][0]["k"] == "const" else None
                a1 = {x[1] for x in flow.slice_back(b, ct["args"][1]) if x[0] == "call"}
                kinds.add("whole-input" if a0 == 0 and a1 == {"core::str::<impl str>::len"} else "span-new(%s,%s)" % (a0, sorted(a1)))
            elif l[0] == "param" and "Span" in b.local_ty(l[1]):
                kinds.add("span-parameter")
            elif l[0] == "param" and b.kind == "Closure":
                kinds.add("captured")
            else:
                kinds.add("other:%s" % (l[0],))
        okk = bool(kinds) and kinds <= {"node-span", "whole-input", "span-parameter", "captured"}
        rep.ob("C11-R2", "%s#%s" % (b.path, ",".join(sorted(kinds))), okk, "the error span in %s comes from %s" % (b.path, sorted(kinds)), b.site(sp),
               sample={"fn": b.path, "span": sorted(kinds)})
    # span parameters: the operator functions and builtins receive *node.span()
    ev = facts.fn("eval::eval")
    if ev is not None:
        for blk, t, sp in ev.terms():
            if t["k"] == "call" and (F.is_indirect(t) or F.callee(t) in ("eval::add", "eval::sub", "eval::mul", "eval::div", "eval::pow")) and t["args"]:
                ty = None
                a0 = t["args"][0]
                ls = flow.slice_back(ev, a0)
                okk = any(l[0] == "call" and l[1].startswith("syntree::Node::<") and l[1].endswith("::span") for l in ls) and not any(l[0] in ("binop",) for l in ls)
                if any("Span" in ev.local_ty(a0["place"]["local"]) for _ in [0] if a0["k"] in ("copy", "move")):
                    rep.ob("C11-R2", "span-argument:eval::eval#%d" % (sp["col"] % 7), okk, "the span handed to an operator / builtin is a node's span", ev.site(sp))


def run(fx, rep, tier):
    rep.assume("arithmetic on i32 powers / prefixes cannot overflow within the property's bounds (<= 40 tokens, powers <= 2 digits, "
               "prefixes <= 27): stated, not computed; termination is decided for the lexer (R3) and follows for the parser from C12-R5's "
               "finite abstract runs; evaluation recurses on a finite tree; round(x, n) loops |n| times (not bounded here)")
    for cfg, facts in fx.items():
        sub = rep if cfg == "dev" else type(rep)(rep.prop, rep.tier)
        r1_census(facts, sub, fx)
        r2_spans(facts, sub)
        if cfg == "dev":
            sub.rule("C11-R3", "the lexer terminates on every input: every token it returns is non-empty, it returns None only at the "
                               "end of the input, and every loop of the lexer consumes input on each turn (abstract runs over the exact "
                               "character partition, shared with C12-R3/R4/R6); the parser's loops end in the abstract runs of C12-R5")
            from . import c12
            from ..absint import chars as _chars
            s3 = type(rep)(rep.prop, rep.tier)
            c12.r3_progress(facts, s3, "quick")
            consts, preds, unknown = _chars.char_constants(c12.lexer_bodies(facts))
            c12.r6_loops(facts, s3, _chars.atoms(consts, preds))
            for o in s3.obls:
                o["rule"] = "C11-R3"
                sub.obls.append(o)
        if cfg == "dev":
            sub.rule("C11-R4", "error spans are in the caller's coordinates: parse() hands the parser the very text it keeps and "
                               "reports against (shared with C12-R9)")
            from . import c12 as _c12
            s4 = type(rep)(rep.prop, rep.tier)
            _c12.r9_same_text(facts, s4)
            for o in s4.obls:
                o["rule"] = "C11-R4"
                sub.obls.append(o)
        if sub is not rep:
            for o in sub.obls:
                o["key"] += "[rel]"
                rep.obls.append(o)
            for k, v in sub.analysed.items():
                rep.count(k + "[rel]", v)
            for f in sub.floors:
                pass
