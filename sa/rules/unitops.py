"""Path summaries of the unit machinery: apply_conversion, the conversion phase of Compound::factor, Compound::mul
(early return, normalisation loops, reconstruct) and Compound::pow.  Shared by C03, C04, C09 and C13."""
from .. import facts as F
from .. import flow
from ..absint import core
from ..absint.core import Agg, Const, TOP, Ref, UNIT, some, NONE, ok, err, FnV
from ..absint.term import TermDomain, EffectDomain, Sym, T, K, IterV, VecV
from . import evalops as E


def rational(sym):
    return Agg("adt", "rational::Rational", 0, "Rational", (sym if not isinstance(sym, str) else Sym(sym),))


def rat_value(v):
    return v.field(0) if isinstance(v, Agg) and v.path == "rational::Rational" else v


def state(nm):
    return Agg("adt", "compound::State", 0, "State", (Sym(nm + ".power"), Sym(nm + ".prefix")))


def compound_err():
    return err(Agg("adt", "compound::CompoundError", 0, "CompoundError", ()))


class UnitDomain(EffectDomain):
    """EffectDomain that inlines the crate's own functions and models BTreeMap's entry API, Powers and iteration over
    symbolic maps.  Maps are symbolic names; iterating map M yields `n_iter[M]` symbolic entries."""

    def __init__(self, facts, n_iter=None, opaque=(), extra=None):
        super().__init__({}, oracle=self._oracle)
        self.facts = facts
        self.uninterp = lambda n: facts.fn(n) is None
        self.n_iter = n_iter or {}
        self.opaque = set(opaque)
        self.extra = extra

    def entries(self, m):
        name = repr(m)
        n = self.n_iter.get(name, 1)
        out = []
        for i in range(n):
            out.append(Agg("tuple", None, None, None, (Sym("%s.key%d" % (name, i)), state("%s.state%d" % (name, i)))))
        return out

    def _oracle(self, dom, it, name, args, vals, store):
        if self.extra is not None:
            r = self.extra(self, it, name, args, vals, store)
            if r is not None:
                return r
        a = vals[0] if vals else None
        if name.startswith("std::collections::BTreeMap::<K, V") and name.endswith("::is_empty"):
            return self.fork(store, T("is_empty", a))
        if name.startswith("std::collections::BTreeMap::<K, V") and name.endswith("::len"):
            # the moment the size is taken matters where the map is being changed (C09-R3): logged as an event
            return [(T("len", a), self.with_log(store, ("len", a)))]
        if name.startswith("std::collections::BTreeMap::<K, V") and name.endswith("::iter") or \
                (("IntoIterator>::into_iter" in name or name == "std::iter::IntoIterator::into_iter") and isinstance(a, (Sym, T)) and not isinstance(a, IterV)):
            if isinstance(a, (Sym, T)):
                items = self.entries(a)
                # iteration yields (&K, &V): references are transparent for symbolic entries
                return [(IterV(items), self.with_log(store, ("iterate", repr(a))))]
        if name == "std::iter::Iterator::next" and isinstance(a, IterV):
            if a.pos < len(a.items):
                return [(some(a.items[a.pos]), it.write_ref(store, args[0], IterV(a.items, a.pos + 1)))]
            return [(NONE, store)]
        if name == "std::iter::IntoIterator::into_iter" and isinstance(a, IterV):
            return [(a, store)]
        if name.endswith("BTreeMap::<K, V, A>::entry"):
            key = vals[1]
            occ = Agg("entry", "occupied", None, None, (a, key))
            vac = Agg("entry", "vacant", None, None, (a, key))
            e_adt = "std::collections::btree_map::Entry"
            return [(Agg("adt", e_adt, 0, "Vacant", (vac,)), self.with_pc(store, T("contains", a, key), False)),
                    (Agg("adt", e_adt, 1, "Occupied", (occ,)), self.with_pc(store, T("contains", a, key), True))]
        if name.endswith("OccupiedEntry::<'a, K, V, A>::get_mut") or name.endswith("OccupiedEntry::<'a, K, V, A>::get"):
            e = a
            if isinstance(e, Agg) and e.kind == "entry":
                m, key = e.field(0), e.field(1)
                cell = ("cell", repr(m), repr(key))
                idx = store.get(("cells",), ())
                if cell not in idx:
                    idx = idx + (cell,)
                    s2 = dict(store)
                    s2[("cells",)] = idx
                    n = 700 + idx.index(cell)
                    s2[(0, n)] = Agg("adt", "compound::State", 0, "State",
                                     (Sym("stored(%s,%s).power" % (repr(m), repr(key))), Sym("stored(%s,%s).prefix" % (repr(m), repr(key)))))
                    store = s2
                n = 700 + idx.index(cell)
                return [(Ref(0, n), store)]
        if name.endswith("OccupiedEntry::<'a, K, V, A>::remove_entry") or name.endswith("OccupiedEntry::<'a, K, V, A>::remove"):
            e = a
            if isinstance(e, Agg) and e.kind == "entry":
                return [(TOP, self.with_log(store, ("remove", repr(e.field(0)), repr(e.field(1)))))]
        if name.endswith("VacantEntry::<'a, K, V, A>::insert"):
            e = a
            if isinstance(e, Agg) and e.kind == "entry":
                return [(TOP, self.with_log(store, ("insert", repr(e.field(0)), repr(e.field(1)), vals[1])))]
        if name.endswith("BTreeMap::<K, V, A>::insert") and len(vals) == 3:
            return [(TOP, self.with_log(store, ("insert", repr(a), repr(vals[1]), vals[2])))]
        # the same map operations without the entry API
        if (name.endswith("BTreeMap::<K, V, A>::get_mut") or name.endswith("BTreeMap::<K, V, A>::get")) and len(vals) == 2 and isinstance(a, (Sym, T)):
            key = vals[1]
            cell = ("cell", repr(a), repr(key))
            idx = store.get(("cells",), ())
            s2 = dict(store)
            if cell not in idx:
                idx = idx + (cell,)
                s2[("cells",)] = idx
                s2[(0, 700 + idx.index(cell))] = Agg("adt", "compound::State", 0, "State",
                                                      (Sym("stored(%s,%s).power" % (repr(a), repr(key))), Sym("stored(%s,%s).prefix" % (repr(a), repr(key)))))
            n = 700 + idx.index(cell)
            d = self.decide(store, T("contains", a, key))
            outs = []
            if d is not False:
                outs.append((some(Ref(0, n)), s2 if d else self.with_pc(s2, T("contains", a, key), True)))
            if d is not True:
                outs.append((NONE, store if d is False else self.with_pc(store, T("contains", a, key), False)))
            return outs
        if name.endswith("BTreeMap::<K, V, A>::contains_key") and len(vals) == 2 and isinstance(a, (Sym, T)):
            return self.fork(store, T("contains", a, vals[1]))
        if (name.endswith("BTreeMap::<K, V, A>::remove") or name.endswith("BTreeMap::<K, V, A>::remove_entry")) and len(vals) == 2 and isinstance(a, (Sym, T)):
            return [(TOP, self.with_log(store, ("remove", repr(a), repr(vals[1]))))]
        if name.endswith("::extend") and ("BTreeMap" in name) and len(args) == 2 and isinstance(a, (Sym, T)):
            # map.extend(iterator of entries) = one insertion per entry, in order
            from ..absint import stdmodels
            src = stdmodels.to_iter(it, args[1], store)
            if src is not None:
                outs = []
                for items, _, st2 in stdmodels.drive(it, src, store):
                    s3 = st2
                    for e in items:
                        if isinstance(e, Agg) and len(e.fields) == 2:
                            s3 = self.with_log(s3, ("insert", repr(a), repr(e.field(0)), e.field(1)))
                        else:
                            raise core.Undecided("a map is extended by entries of unknown shape: %r" % (e,))
                    outs.append((UNIT, s3))
                return outs
        if name == "std::iter::Iterator::collect" and "BTreeMap" in (getattr(self, "cur_term", None) or {}).get("callee", {}).get("generics", ""):
            # building a map from an iterator of entries = a fresh map + one insertion per entry, in order;
            # collecting into Option<map> / Result<map, E> stops at the first None / Err
            from ..absint import stdmodels
            gen_ = (getattr(self, "cur_term", None) or {}).get("callee", {}).get("generics", "")
            opt_ = "std::option::Option<std::collections::BTreeMap" in gen_
            res_ = "std::result::Result<std::collections::BTreeMap" in gen_
            wrapped = opt_ or res_
            src = stdmodels.to_iter(it, args[0], store)
            if src is not None:
                outs = []
                for items, _, st2 in stdmodels.drive(it, src, store):
                    if wrapped:
                        stop = [e for e in items if isinstance(e, Agg) and ((e.path == "std::option::Option" and e.vi == 0) or (e.path == "std::result::Result" and e.vi == 1))]
                        if stop:
                            outs.append((stop[0], st2))
                            continue
                        items = tuple(e.field(0) for e in items)
                    n = st2.get(("newmaps",), 0)
                    s3 = dict(st2)
                    s3[("newmaps",)] = n + 1
                    m = Sym("newmap%d" % n)
                    if wrapped:
                        m = some(m) if opt_ else ok(m)
                    for e in items:
                        if isinstance(e, Agg) and len(e.fields) == 2:
                            s3 = self.with_log(s3, ("insert", "newmap%d" % n, repr(e.field(0)), e.field(1)))
                        else:
                            raise core.Undecided("a map is collected from entries of unknown shape: %r" % (e,))
                    outs.append((m, s3))
                return outs
        if name == "std::collections::BTreeMap::<K, V>::new":
            n = store.get(("newmaps",), 0)
            s2 = dict(store)
            s2[("newmaps",)] = n + 1
            return [(Sym("newmap%d" % n), s2)]
        if name == "unit::Unit::conversion":
            u = a
            d = self.decide(store, T("has_conversion", u))
            outs = []
            if d is not False:
                outs.append((some(Sym("conversion(%s)" % repr(u))), store if d else self.with_pc(store, T("has_conversion", u), True)))
            if d is not True:
                outs.append((NONE, store if d is False else self.with_pc(store, T("has_conversion", u), False)))
            return outs
        if name == "compound::apply_conversion" and "compound::apply_conversion" in self.opaque:
            ro = ac_roles(self.facts)
            if ro is None:
                raise core.Undecided("the roles of apply_conversion's parameters could not be determined")
            ratio_ref = args[ro["ratio"]]
            v_pow, v_conv, v_sole = vals[ro["power"]], vals[ro["conv"]], vals[ro["sole"]]
            d = vals[ro["direction"]]
            # the direction argument in canonical form: the `inverse` flag it stands for
            v_inv = Const(ro["dirmap"][repr(d)]) if repr(d) in ro["dirmap"] else d
            old = rat_value(it.read_ref(store, ratio_ref))
            new = rational(T("conv", old, v_pow, v_inv, v_conv, v_sole))
            st = self.with_log(it.write_ref(store, ratio_ref, new), ("conv", v_pow, v_inv, v_conv, v_sole))
            return [(ok(UNIT), st), (compound_err(), self.with_log(store, ("fail", "conv")))]
        if name.startswith("core::num::<impl i32>::checked_") and len(vals) == 2:
            op = {"checked_mul": "i*", "checked_add": "i+", "checked_sub": "i-"}.get(name.split("::")[-1])
            if op:
                t = T(op, vals[0], vals[1])
                return [(some(t), self.with_pc(store, T("overflows", t), False)), (NONE, self.with_pc(store, T("overflows", t), True))]
        return None

    def on_indirect(self, it, fval, args, store, term, frame):
        # calls through the function pointers of a ConversionMethods table
        if isinstance(fval, (Sym, T)):
            old = rat_value(it.read_ref(store, args[0])) if args else None
            st = store
            if args:
                st = it.write_ref(store, args[0], rational(T("apply", fval, old)))
            return [(UNIT, self.with_log(st, ("indirect", repr(fval))))]
        return None


def field_named(facts, adt_path, value, field):
    adt = facts.adt(adt_path)
    names = [f["name"] for f in adt["variants"][0]["fields"]]
    return value.field(names.index(field))


# ---- apply_conversion ---------------------------------------------------------------------------------------
def _finite_values(facts, ty):
    """The values of a finite parameter type: bool, or a crate-local enum of unit variants."""
    if ty == "bool":
        return [Const(False), Const(True)]
    adt = facts.adt(ty)
    if adt is not None and adt["is_enum"] and all(not v["fields"] for v in adt["variants"]) and 2 <= len(adt["variants"]) <= 4:
        return [Agg("adt", ty, i, v["name"], ()) for i, v in enumerate(adt["variants"])]
    return None


def ac_roles(facts):
    """Roles of apply_conversion's parameters, found by type and by behaviour (not by position or name):
    power (the i32), ratio (&mut Rational), conv (unit::Conversion), and among the finite parameters (bool or small enum)
    `direction` = the one a Factor conversion's result depends on, `sole` = the other.  Each value of the direction
    parameter is mapped to the canonical 'inverse' flag: False where x becomes x * numer/denom (towards the base units),
    True where it becomes x * denom/numer.  -> dict or None."""
    cached = facts.__dict__.get("_ac_roles", "?")
    if cached != "?":
        return cached
    facts._ac_roles = None
    body = facts.fn("compound::apply_conversion")
    if body is None:
        return None
    from ..absint import evalterm
    from fractions import Fraction
    tys = [body.local_ty(i) for i in range(1, body.arg_count + 1)]
    roles = {"tys": tys}
    fin = []
    for i, ty in enumerate(tys):
        if ty == "i32" and "power" not in roles:
            roles["power"] = i
        elif ty.startswith("&mut rational::Rational"):
            roles["ratio"] = i
        elif ty == "unit::Conversion":
            roles["conv"] = i
        elif _finite_values(facts, ty) is not None:
            fin.append(i)
    if not all(k in roles for k in ("power", "ratio", "conv")) or len(fin) != 2:
        return None
    cadt = facts.adt("unit::Conversion")
    vidx = {v["name"]: i for i, v in enumerate(cadt["variants"])} if cadt else {}
    frac = Agg("adt", "unit::ConversionFraction", 0, "ConversionFraction", (Sym("numer"), Sym("denom")))
    cv = Agg("adt", "unit::Conversion", vidx.get("Factor", 1), "Factor", (frac,))
    env = {"x": Fraction(3), "numer": Fraction(5), "denom": Fraction(7)}

    def factor_result(assign):
        dom = UnitDomain(facts)
        it = core.Interp(facts, dom, budget=50000)
        args = []
        for i, ty in enumerate(tys):
            if i == roles["power"]:
                args.append(Const(1))
            elif i == roles["ratio"]:
                args.append(Ref(0, 0))
            elif i == roles["conv"]:
                args.append(cv)
            else:
                args.append(assign.get(i, TOP))
        outs = it.run(body, args, {(0, 0): rational("x")})
        vals = set()
        for o in outs:
            if o.kind == "ret" and isinstance(o.value, Agg) and o.value.vi == 0:
                vals.add(evalterm.ev(rat_value(it.read_ref(o.store, Ref(0, 0))), env))
        return vals

    try:
        table = {}
        for a in fin:
            b = [x for x in fin if x != a][0]
            res = {}
            for va in _finite_values(facts, tys[a]):
                r = set()
                for vb in _finite_values(facts, tys[b]):
                    r |= factor_result({a: va, b: vb})
                res[repr(va)] = (va, r)
            table[a] = res
    except (core.Undecided, evalterm.Unrecognised, ZeroDivisionError):
        return None
    to_base, from_base = Fraction(15, 7), Fraction(21, 5)
    for a in fin:
        res = table[a]
        if all(len(r) == 1 for _, r in res.values()) and {next(iter(r)) for _, r in res.values()} == {to_base, from_base}:
            roles["direction"] = a
            roles["sole"] = [x for x in fin if x != a][0]
            roles["dirmap"] = {k: (next(iter(r)) == from_base) for k, (v, r) in res.items()}
            roles["dirvals"] = {(next(iter(r)) == from_base): v for k, (v, r) in res.items()}
    if "direction" not in roles or tys[roles["sole"]] != "bool":
        return None
    facts._ac_roles = roles
    return roles


def summarize_apply_conversion(facts):
    """For each conversion kind x inverse x sole: outcomes [(kind, pc, result term or None)]."""
    body = facts.fn("compound::apply_conversion")
    if body is None:
        return None
    frac = Agg("adt", "unit::ConversionFraction", 0, "ConversionFraction", (Sym("numer"), Sym("denom")))
    convs = {
        "Factor": Agg("adt", "unit::Conversion", 1, "Factor", (frac,)),
        "Offset": Agg("adt", "unit::Conversion", 2, "Offset", (frac,)),
        "Methods": Agg("adt", "unit::Conversion", 0, "Methods",
                       (Agg("adt", "unit::ConversionMethods", 0, "ConversionMethods", (Sym("methods.to"), Sym("methods.from"))),)),
    }
    cadt = facts.adt("unit::Conversion")
    vidx = {v["name"]: i for i, v in enumerate(cadt["variants"])} if cadt else {}
    out = {}
    # which parameter is which: by type and by behaviour (ac_roles)
    roles = ac_roles(facts)
    if roles is None:
        return None
    tys = roles["tys"]
    for kind, cv in convs.items():
        cv = Agg("adt", "unit::Conversion", vidx.get(kind, cv.vi), kind, cv.fields)
        for inverse in (False, True):
            for sole in (False, True):
                dom = UnitDomain(facts)
                it = core.Interp(facts, dom, budget=50000)
                store = {(0, 0): rational("x")}
                args = []
                for i, ty in enumerate(tys):
                    if i == roles["power"]:
                        args.append(Sym("power"))
                    elif i == roles["direction"]:
                        args.append(roles["dirvals"][inverse])
                    elif i == roles["sole"]:
                        args.append(Const(sole))
                    elif i == roles["ratio"]:
                        args.append(Ref(0, 0))
                    elif i == roles["conv"]:
                        args.append(cv)
                    else:
                        args.append(TOP)
                try:
                    outs = it.run(body, args, store)
                except core.Undecided as e:
                    out[(kind, inverse, sole)] = [("undecided", str(e), None, None)]
                    continue
                res = []
                for o in outs:
                    if o.kind != "ret":
                        res.append(("panic", dom.pc(o.store), str(o.value), dom))
                        continue
                    v = o.value
                    okk = isinstance(v, Agg) and v.path == "std::result::Result" and v.vi == 0
                    res.append(("ok" if okk else "err", dom.pc(o.store), rat_value(it.read_ref(o.store, Ref(0, 0))), dom, o.store))
                out[(kind, inverse, sole)] = res
    return out, tys


# ---- the conversion phase of factor ----------------------------------------------------------------------------
def factor_conversion_phase(facts, n_self=1, n_other=1):
    """Summary of Compound::factor on the path where the comparison succeeded: the effect sequence on *value."""
    body = facts.fn("compound::Compound::factor")
    if body is None:
        return None

    def extra(dom, it, name, args, vals, store):
        if name == "compound::Compound::base_units":
            nm = E.unit_sym(vals[0])
            return [(Agg("tuple", None, None, None, (Sym("derived(%r)" % nm), Sym("bases(%r)" % nm))), store)]
        if name == "powers::Powers::len":
            return [(Sym("samelen"), store)]
        if name.endswith("IntoIterator>::into_iter") and isinstance(vals[0], Sym) and vals[0].name.startswith("bases("):
            return [(IterV(()), store)]
        return None

    dom = UnitDomain(facts, n_iter={"self.unit": n_self, "other.unit": n_other}, opaque={"compound::apply_conversion"}, extra=extra)
    it = core.Interp(facts, dom, budget=200000)
    store = E.seed_pc({(0, 0): E.compound("self.unit"), (0, 1): E.compound("other.unit"), (0, 2): rational("v")},
                      [(T("is_empty", Sym("self.unit")), False), (T("is_empty", Sym("other.unit")), False)])
    outs = it.run(body, [Ref(0, 0), Ref(0, 1), Ref(0, 2)], store)
    res = []
    for o in outs:
        if o.kind != "ret":
            res.append(("panic", str(o.value), None, None))
            continue
        v = o.value
        payload = v.field(0) if isinstance(v, Agg) and v.path == "std::result::Result" and v.vi == 0 else None
        log = dom.log(o.store)
        res.append(("true" if payload == Const(True) else ("false" if payload == Const(False) else "err"),
                    log, rat_value(it.read_ref(o.store, Ref(0, 2))), dom.pc(o.store)))
    return res


def expected_factor_value(n_self, n_other, conv_self, conv_other):
    """The specified effect of factor on the value: scale by the source's prefixes and conversions in order, then undo the
    target's conversions and prefixes."""
    v = Sym("v")
    ten = K(10)
    for i in range(n_other):
        st = "other.unit.state%d" % i
        v = T("*", v, T("pow", ten, T("i*", Sym(st + ".prefix"), Sym(st + ".power"))))
        if conv_other[i]:
            v = T("conv", v, Sym(st + ".power"), Const(False), Sym("conversion(other.unit.key%d)" % i), T("Eq", T("len", Sym("other.unit")), Const(1)))
    for i in range(n_self):
        st = "self.unit.state%d" % i
        if conv_self[i]:
            v = T("conv", v, Sym(st + ".power"), Const(True), Sym("conversion(self.unit.key%d)" % i), T("Eq", T("len", Sym("self.unit")), Const(1)))
        v = T("/", v, T("pow", ten, T("i*", Sym(st + ".prefix"), Sym(st + ".power"))))
    return v


# ---- Compound::mul ---------------------------------------------------------------------------------------------
def reconstruct_name(facts):
    """The function that re-derives units in a product: by name, else by role - the local function Compound::mul calls that
    itself calls bases_match (it may have been lifted out of mul and given another interface)."""
    if facts.fn("compound::Compound::mul::reconstruct") is not None:
        return "compound::Compound::mul::reconstruct"
    cached = facts.__dict__.get("_reconstruct_name", "?")
    if cached != "?":
        return cached
    facts._reconstruct_name = None
    mul = facts.fn("compound::Compound::mul")
    if mul is not None:
        for blk, t, sp, nm in mul.calls():
            cb = facts.fn(nm)
            if cb is not None and any(n2.endswith("bases_match") for b2, t2, sp2, n2 in cb.calls()):
                facts._reconstruct_name = nm
                break
    return facts._reconstruct_name


def mul_summary(facts, ea, eb):
    """Summary of Compound::mul for an emptiness class.  For (non-empty, non-empty) reconstruct is opaque."""
    body = facts.fn("compound::Compound::mul")
    if body is None:
        return None
    RECON = reconstruct_name(facts)

    def extra(dom, it, name, args, vals, store):
        if name == "compound::Compound::base_units":
            nm = E.unit_sym(vals[0])
            return [(Agg("tuple", None, None, None, (Sym("derived(%r)" % nm), Sym("bases(%r)" % nm))), store)]
        if name == RECON:
            # arguments by what they are, not by position: the units to re-derive (an iterator term over derived(..)), the
            # value they are shed from (a reference to one operand's value), the power with which that value enters the
            # combined result (when the function is told), the map - possibly bundled in a small struct
            flat_a, flat_v = [], []
            for a_, v_ in zip(args, vals):
                if isinstance(v_, Agg) and v_.kind == "adt" and v_.path not in ("compound::Compound",) and len(v_.fields) <= 4 and not isinstance(a_, Ref):
                    flat_a.extend(v_.fields)
                    flat_v.extend(it.read_ref(store, f_) if isinstance(f_, Ref) else f_ for f_ in v_.fields)
                else:
                    flat_a.append(a_)
                    flat_v.append(v_)
            der = next((v for v in flat_v if "derived(" in repr(v)), flat_v[0] if flat_v else None)
            out = None
            for a_ in flat_a:
                if isinstance(a_, Ref) and a_.frame == 0 and a_.local in (2, 3) and not a_.proj:
                    out = "lhs" if a_.local == 2 else "rhs"
            side = next((v for v in flat_v if v == Sym("n") or (isinstance(v, Const) and isinstance(v.v, int) and not isinstance(v.v, bool))), None)
            return [(ok(UNIT), dom.with_log(store, ("reconstruct", der, out, side))),
                    (compound_err(), dom.with_log(store, ("fail", "reconstruct")))]
        if name == "compound::Compound::new":
            return [(Agg("adt", "compound::Compound", 0, "Compound", (vals[0],)), store)]
        if "IntoIterator>::into_iter" in name and isinstance(vals[0], Sym) and vals[0].name.startswith("bases("):
            which = vals[0].name
            items = [Agg("tuple", None, None, None, (Sym("%s.key%d" % (which, i)), Sym("%s.pow%d" % (which, i)))) for i in range(1)]
            return [(IterV(items), dom.with_log(store, ("iterate", which)))]
        if name.endswith("as std::iter::Iterator>::next") and isinstance(vals[0], IterV):
            a = vals[0]
            if a.pos < len(a.items):
                return [(some(a.items[a.pos]), it.write_ref(store, args[0], IterV(a.items, a.pos + 1)))]
            return [(NONE, store)]
        concrete = lambda v: isinstance(v, IterV) or (isinstance(v, Agg) and isinstance(v.kind, str) and v.kind.startswith("it:"))
        if (name.endswith("Iterator::map") or name.endswith("::map") and "iter" in name.lower()) and not concrete(vals[0]):
            return [(T("map", vals[0], vals[1]), store)]
        if (name.endswith("Iterator::collect") or name.endswith("::collect")) and not concrete(vals[0]):
            return [(T("collect", vals[0]), store)]
        if name.endswith("Iterator::chain") or name.endswith("::chain"):
            return [(T("chain", vals[0], vals[1]), store)]
        if name.endswith("BTreeMap::<K, V, A>::iter"):
            return [(T("iter", vals[0]), store)]
        return None

    dom = UnitDomain(facts, n_iter={"self.unit": 1, "other.unit": 1}, opaque={"compound::apply_conversion"}, extra=extra)
    it = core.Interp(facts, dom, budget=300000)
    store = E.seed_pc({(0, 0): E.compound("self.unit"), (0, 1): E.compound("other.unit"), (0, 2): rational("lhs"), (0, 3): rational("rhs")},
                      [(T("is_empty", Sym("self.unit")), ea), (T("is_empty", Sym("other.unit")), eb)])
    outs = it.run(body, [Ref(0, 0), Ref(0, 1), Sym("n"), Ref(0, 2), Ref(0, 3)], store)
    res = []
    for o in outs:
        if o.kind != "ret":
            res.append({"kind": "panic", "value": str(o.value), "site": o.site})
            continue
        v = o.value
        okk = isinstance(v, Agg) and v.path == "std::result::Result" and v.vi == 0
        res.append({"kind": "ok" if okk else "err", "unit": v.field(0) if okk else None, "log": dom.log(o.store), "pc": dom.pc(o.store),
                    "lhs": rat_value(it.read_ref(o.store, Ref(0, 2))), "rhs": rat_value(it.read_ref(o.store, Ref(0, 3))), "site": o.site,
                    "dom": dom, "store": o.store})
    return res


def closure_summary(facts, path, env_fields, arg):
    """Run a closure body with a symbolic environment and one argument; returns the list of returned values."""
    body = facts.fn(path)
    if body is None:
        return None
    dom = UnitDomain(facts)
    it = core.Interp(facts, dom, budget=20000)
    env = Agg("closure", path, None, None, env_fields)
    store = {(0, 0): env}
    first = Ref(0, 0) if body.local_ty(1).startswith("&") else env
    outs = it.run(body, [first, arg], store)
    return [o.value for o in outs if o.kind == "ret"]


def reconstruct_summary(facts, n_items=1):
    body = facts.fn(reconstruct_name(facts) or "compound::Compound::mul::reconstruct")
    if body is None:
        return None
    # the arity of the items of `der`: (unit, power, n) triples, or (unit, power) pairs when the operand's side is handed over
    # separately
    import re as _re
    arity = 3
    for i_ in range(1, body.arg_count + 1):
        m_ = _re.search(r"\((unit::Unit(?:,\s*i32)+)\)", body.local_ty(i_))
        if m_:
            arity = m_.group(1).count(",") + 1

    def extra(dom, it, name, args, vals, store):
        if (name == "std::iter::IntoIterator::into_iter" or name.endswith("IntoIterator>::into_iter") or
                ("IntoIterator for " in name and name.endswith("::into_iter"))) and isinstance(vals[0], Sym) and vals[0].name == "der":
            if n_items == 1:
                items = [Agg("tuple", None, None, None, (Sym("unit"), Sym("power"), Sym("n"))[:arity])]
            else:
                items = [Agg("tuple", None, None, None, (Sym("unit%d" % i), Sym("power%d" % i), Sym("n%d" % i))[:arity]) for i in range(n_items)]
            return [(IterV(items), store)]
        if name == "<powers::Powers as std::default::Default>::default":
            return [(Sym("powers"), dom.with_log(store, ("scratch-fresh",)) if n_items > 1 else store)]
        if name == "powers::Powers::clear":
            return [(UNIT, dom.with_log(store, ("scratch-clear",)) if n_items > 1 else store)]
        if name == "unit::Unit::powers":
            return [(Const(True), dom.with_log(store, ("unit.powers", repr(vals[0]), vals[2]))), (Const(False), store)]
        if name == "compound::Compound::mul::bases_match":
            return [(some(Sym("mod_power")), dom.with_log(store, ("bases_match", vals[0]))), (NONE, store)]
        if "IntoIterator>::into_iter" in name and vals and vals[0] == Sym("powers"):
            item = Agg("tuple", None, None, None, (Sym("base"), Sym("s")))
            return [(IterV([item]), store)]
        if name.endswith("as std::iter::Iterator>::next") and isinstance(vals[0], IterV):
            a = vals[0]
            if a.pos < len(a.items):
                return [(some(a.items[a.pos]), it.write_ref(store, args[0], IterV(a.items, a.pos + 1)))]
            return [(NONE, store)]
        return None

    dom = UnitDomain(facts, opaque={"compound::apply_conversion"}, extra=extra)
    it = core.Interp(facts, dom, budget=200000)
    store = {(0, 0): rational("out"), (0, 1): Sym("names")}
    argv = []
    for i_ in range(1, body.arg_count + 1):
        ty_ = body.local_ty(i_)
        if "Rational" in ty_:
            argv.append(Ref(0, 0))
        elif "BTreeMap" in ty_:
            argv.append(Ref(0, 1))
        elif ty_ in ("i32", "i64", "isize"):
            argv.append(Sym("side"))  # the power with which `out` enters the combined value
        elif facts.adt(ty_.split("<")[0]) is not None and not ty_.startswith("std::"):
            # a small struct bundling the value and its side
            ad_ = facts.adt(ty_.split("<")[0])
            fs_ = []
            for f_ in ad_["variants"][0]["fields"]:
                fs_.append(Ref(0, 0) if "Rational" in f_["ty"] else (Sym("side") if f_["ty"] in ("i32", "i64", "isize") else Sym("operand." + f_["name"])))
            argv.append(Agg("adt", ad_["path"], 0, ad_["variants"][0]["name"], tuple(fs_)))
        else:
            argv.append(Sym("der"))
    outs = it.run(body, argv, store)
    res = []
    for o in outs:
        if o.kind != "ret":
            res.append({"kind": "panic", "value": str(o.value), "site": o.site})
            continue
        v = o.value
        okk = isinstance(v, Agg) and v.path == "std::result::Result" and v.vi == 0
        cells = {k: val for k, val in o.store.items() if isinstance(k, tuple) and len(k) == 2 and k[0] == 0 and isinstance(k[1], int) and k[1] >= 700}
        res.append({"kind": "ok" if okk else "err", "log": dom.log(o.store), "pc": dom.pc(o.store), "cells": cells,
                    "cellnames": o.store.get(("cells",), ()), "out": rat_value(it.read_ref(o.store, Ref(0, 0))), "site": o.site, "dom": dom, "store": o.store})
    return res


def compound_pow_summary(facts):
    body = facts.fn("compound::Compound::pow")
    if body is None:
        return None

    def extra(dom, it, name, args, vals, store):
        if name == "compound::Compound::new":
            return [(Agg("adt", "compound::Compound", 0, "Compound", (vals[0],)), store)]
        return None
    dom = UnitDomain(facts, n_iter={"self.unit": 1}, extra=extra)
    it = core.Interp(facts, dom, budget=50000)
    outs = it.run(body, [Ref(0, 0), Sym("n")], {(0, 0): E.compound("self.unit")})
    res = []
    for o in outs:
        if o.kind != "ret":
            res.append({"kind": "panic", "value": str(o.value), "site": o.site})
            continue
        res.append({"kind": "ret", "value": o.value, "log": dom.log(o.store), "pc": dom.pc(o.store), "dom": dom, "store": o.store, "site": o.site})
    return res


def from_iter_summary(facts):
    """Summary of `impl FromIterator<(Unit, S)> for Compound` over two symbolic entries: [{kind, log, pc, value}]."""
    fi = None
    for b in facts.lib_bodies():
        if "FromIterator" in b.path and "compound::Compound" in b.path and b.path.endswith("::from_iter"):
            fi = b
    if fi is None:
        return None, None
    from ..absint.stdmodels import it_list

    def extra(dom, it, name, args, vals, store):
        if name in ("std::collections::BTreeMap::<K, V>::new", "<std::collections::BTreeMap<K, V> as std::default::Default>::default"):
            return [(Sym("names"), store)]
        if (name.endswith("IntoIterator>::into_iter") or name == "std::iter::IntoIterator::into_iter") and vals and vals[0] == Sym("input"):
            items = [Agg("tuple", None, None, None, (Sym("u%d" % i), Sym("s%d" % i))) for i in range(2)]
            return [(it_list(items), store)]
        if name.endswith("::from") and len(vals) == 1 and isinstance(vals[0], Sym) and vals[0].name.startswith("s"):
            k = vals[0].name[1:]
            return [(Agg("adt", "compound::State", 0, "State", (Sym("p%s" % k), Sym("x%s" % k))), store)]
        return None
    dom = UnitDomain(facts, extra=extra)
    it = core.Interp(facts, dom, budget=60000)
    outs = it.run(fi, [Sym("input")], {})
    res = []
    for o in outs:
        res.append({"kind": o.kind, "log": dom.log(o.store), "pc": dom.pc(o.store), "value": o.value, "site": o.site})
    return fi, res


def update_summary(facts):
    """Summary of Compound::update(self, unit, power, prefix): [{kind, value, log, pc, cells}]."""
    body = facts.fn("compound::Compound::update")
    if body is None:
        return None, None
    dom = UnitDomain(facts)
    it = core.Interp(facts, dom, budget=60000)
    selfv = Agg("adt", "compound::Compound", 0, "Compound", (Sym("names"),))
    st = {(0, 0): selfv}
    outs = it.run(body, [Ref(0, 0), Sym("unit"), Sym("power"), Sym("prefix")], st)
    res = []
    for o in outs:
        cells = {k: v for k, v in o.store.items() if isinstance(k, tuple) and len(k) == 2 and k[0] == 0 and isinstance(k[1], int) and k[1] >= 700}
        res.append({"kind": o.kind, "value": o.value, "log": dom.log(o.store), "pc": dom.pc(o.store), "cells": cells, "site": o.site})
    return body, res

