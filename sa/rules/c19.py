"""C19 - the command line prints exactly what the library computed."""
from .. import facts as F
from ..absint import core
from ..absint.core import Const, Agg, TOP, NONE, some, ok, err, UNIT
from ..absint.term import TermDomain, Sym, T, VecV
from .common import anchor

LEVEL = "other"


class MainDomain(TermDomain):
    def __init__(self, facts, results, ndesc=2, io_fail=True):
        # helpers of the binary itself are followed; everything else (the library, std) is an uninterpreted term
        super().__init__(uninterp=lambda n: facts.fn(n, "any") is None)
        self.facts = facts
        self.results = results  # how many results the query iterator may yield
        self.ndesc = ndesc
        self.io_fail = io_fail

    def on_assert(self, it, body, t, sp, st, frame):
        m = t["msg"]
        return not ("Misaligned" in m or "NullPointer" in m or "verflow" in m)

    def call(self, it, name, args, store, term, frame):
        vals = [it.read_ref(store, a) for a in args]
        if name == "structopt::StructOpt::from_args":
            adt = self.facts.adt("Opts", "any")
            fs = [Sym("opts." + f["name"]) if f["ty"] == "bool" else TOP for f in adt["variants"][0]["fields"]]
            return [(Agg("adt", "Opts", 0, "Opts", fs), store)]
        if name in ("anything::Db::open", "anything::parse") or name.endswith("codespan_reporting::files::Files<'a>>::source"):
            nm = name.split("::")[-1]
            return [(ok(Sym(nm + "_value")), store), (err(Sym(nm + "_error")), self.with_log(store, ("fail", nm)))]
        if name == "anything::query":
            ds = []
            for i in range(self.ndesc):
                c = Agg("adt", "anything::Constant", 0, "Constant",
                        (Sym("c%d.source" % i), TOP, Sym("c%d.description" % i), TOP, TOP))
                ds.append(Agg("adt", "anything::Description", 0, "Constant", (Sym("phrase%d" % i), c)))
            st = it.write_ref(store, args[3], VecV(ds))
            s2 = dict(st)
            s2[("qn",)] = 0
            return [(Sym("query"), s2)]
        if name == "<anything::Query<'_> as std::iter::Iterator>::next":
            n = store.get(("qn",), 0)
            if n >= self.results:
                return [(NONE, store)]
            s2 = dict(store)
            s2[("qn",)] = n + 1
            num = Agg("adt", "anything::Numeric", 0, "Numeric", (Sym("v%d" % n), Sym("u%d" % n)))
            return [(some(ok(num)), self.with_log(s2, ("result", "ok", n))),
                    (some(err(Sym("e%d" % n))), self.with_log(s2, ("result", "err", n))),
                    (NONE, store)]
        if name == "std::io::Write::write_fmt":
            st = self.with_log(store, ("write", vals[1]))
            if not self.io_fail:
                return [(ok(UNIT), st)]
            return [(ok(UNIT), st), (err(Sym("io_error")), self.with_log(st, ("fail", "write")))]
        if name == "codespan_reporting::term::emit":
            st = self.with_log(store, ("emit", vals[3]))
            if not self.io_fail:
                return [(ok(UNIT), st)]
            return [(ok(UNIT), st), (err(Sym("emit_error")), self.with_log(st, ("fail", "emit")))]
        if name.startswith("anything::query::Parsed::") and name.endswith("::emit"):
            # --syntax: the tree dump is written to stdout; its failure is an I/O failure like any other write
            st = self.with_log(store, ("emit-syntax",))
            if not self.io_fail:
                return [(ok(UNIT), st)]
            return [(ok(UNIT), st), (err(Sym("emit_error")), self.with_log(st, ("fail", "emit")))]
        if name in ("std::process::exit", "std::process::abort"):
            return [("panic", self.with_log(store, ("exit",)))]
        if name == "<I as std::iter::IntoIterator>::into_iter" and vals and isinstance(vals[0], Sym):
            return [(vals[0], store)]
        return super().call(it, name, args, store, term, frame)


def fmt_of(ev):
    """('write', T('fmt', Const(template), args...)) -> (template tuple, args)"""
    if ev[0] != "write" or not isinstance(ev[1], T) or ev[1].op != "fmt":
        return None
    tpl = ev[1].args[0]
    return (tpl.v if isinstance(tpl, Const) else None), ev[1].args[1:]


def call_name(t):
    return t.op[5:] if isinstance(t, T) and t.op.startswith("call:") else None


def spec_fields(facts, v):
    """DisplaySpec value -> {field name: value} using the library's field order."""
    adt = facts.adt("rational::display::DisplaySpec")
    names = [f["name"] for f in adt["variants"][0]["fields"]] if adt else []
    out = {}
    if isinstance(v, Agg):
        for i, f in enumerate(v.fields):
            if i < len(names) and f is not TOP:
                out[names[i]] = f
    return out


def _flat_arg(x, out):
    """Atoms of one formatted argument: a string built beforehand (`to_string()`, `format!(..)`) is what it was built from."""
    if isinstance(x, T) and x.op == "display" and len(x.args) == 1:
        x = x.args[0]
    while call_name(x) in ("std::hint::must_use",) and len(x.args) == 1:
        x = x.args[0]
    if call_name(x) in ("<T as std::string::ToString>::to_string", "std::string::ToString::to_string") and len(x.args) == 1:
        return _flat_arg(x.args[0], out)
    if call_name(x) == "std::fmt::format" and len(x.args) == 1 and isinstance(x.args[0], T) and x.args[0].op == "fmt" \
            and isinstance(x.args[0].args[0], Const):
        return _flat_tpl(x.args[0].args[0].v, list(x.args[0].args[1:]), out)
    if isinstance(x, Const) and isinstance(x.v, str):
        if x.v:
            out.append(("lit", x.v))
        return True
    out.append(("val", x))
    return True


def _flat_tpl(tpl, args, out):
    if tpl is None:
        return False
    args = list(args)
    for piece in tpl:
        if piece is None:
            if not args:
                return False
            _flat_arg(args.pop(0), out)
        elif piece:
            out.append(("lit", piece))
    return True


def line_atoms(writes):
    """The text of a line as a flat list of atoms ('lit', text) / ('val', term), however it was put together: several
    writes, one write of pre-rendered strings, format!() ..."""
    out = []
    for w in writes:
        f = fmt_of(w)
        if f is None or not _flat_tpl(f[0], f[1], out):
            return None
    merged = []
    for a in out:
        if a[0] == "lit" and merged and merged[-1][0] == "lit":
            merged[-1] = ("lit", merged[-1][1] + a[1])
        else:
            merged.append(a)
    return merged


def check_line(facts, dom, store, writes, n):
    """Is what the write events print what C19 prescribes for result n on this path?  Returns (ok, text)."""
    v, u = Sym("v%d" % n), Sym("u%d" % n)
    exact = dom.decide(store, Sym("opts.exact"))
    if exact is None:
        return False, "the path never looks at --exact"
    got = line_atoms(writes)
    if got is None:
        return False, "unrecognised write %r" % (writes,)
    numer = T("call:anything::Rational::numer", v)
    denom = T("call:anything::Rational::denom", v)
    want = []
    if exact:
        one = dom.decide(store, T("is_one", denom))
        if one is None:
            return False, "exact mode does not test whether the denominator is one"
        want = [("val", numer)] if one else [("val", numer), ("lit", "/"), ("val", denom)]
        what = "exact mode with denominator %s one" % ("==" if one else "!=")
    else:
        what = "decimal mode"
        d = got[0][1] if got and got[0][0] == "val" else None
        if call_name(d) != "anything::Rational::display" or d.args[0] != v:
            return False, "decimal mode does not print value.display(spec): writes %r" % (got[:2],)
        sf = spec_fields(facts, d.args[1])
        wantspec = {"limit": Const(12), "exponent_limit": Const(12), "show_continuation": Const(True)}
        gs = {k: sf.get(k) for k in wantspec}
        gs["show_continuation"] = Const(bool(gs["show_continuation"].v)) if isinstance(gs["show_continuation"], Const) else gs["show_continuation"]
        if gs != wantspec:
            return False, "decimal renderer configured with %r, expected 12/12/true" % (gs,)
        want = [("val", d)]
    hn = dom.decide(store, T("call:anything::Compound::has_numerator", u))
    if hn is None:
        return False, "the separator does not depend on unit.has_numerator()"
    plural = T("Not", T("call:<anything::Rational as num::One>::is_one", v))
    unit = T("call:anything::Compound::display", u, plural)
    want = want + ([("lit", " ")] if hn else []) + [("val", unit), ("lit", "\n")]
    wm = []
    for a in want:
        if a[0] == "lit" and wm and wm[-1][0] == "lit":
            wm[-1] = ("lit", wm[-1][1] + a[1])
        else:
            wm.append(a)
    if got != wm:
        return False, "%s writes %r; specified %r" % (what, got, wm)
    return True, "exact=%s has_numerator=%s: the line is as specified" % (exact, hn)


def run_main(facts, results, ndesc=2, io_fail=True):
    body = facts.fn("main", "any")
    dom = MainDomain(facts, results, ndesc, io_fail)
    it = core.Interp(facts, dom, budget=400000)
    outs = it.run(body, [], {})
    return dom, it, body, outs


def split_log(log):
    """-> (prefix events, [ (kind, n, events) per result ], tail events after the last result)."""
    pre, res = [], []
    cur = None
    for ev in log:
        if ev[0] == "result":
            cur = [ev[1], ev[2], []]
            res.append(cur)
        elif cur is None:
            pre.append(ev)
        else:
            cur[2].append(ev)
    return pre, res


def run(fx, rep, tier, shares=True):
    rep.rule("C19-R1", "path summary of any::main with 0..2 symbolic query results: an Err result is rendered by "
                       "term::emit and the loop goes on to the next result; the only early exits are I/O failures of "
                       "emit / write (and start-up failures before the loop); no exit/abort/panic")
    rep.rule("C19-R2", "for an Ok result the writes are exactly: exact mode -> \"{}\" of numer when the denominator is one, "
                       "\"{}/{}\" of numer, denom otherwise; decimal mode -> \"{}\" of value.display(spec) with "
                       "spec.limit = 12, exponent_limit = 12, show_continuation = true")
    rep.rule("C19-R3", "then a single space iff unit.has_numerator(), then writeln \"{}\" of unit.display(!value.is_one()); "
                       "nothing else is written for the result")
    rep.rule("C19-R4", "descriptions are printed in the order the library recorded them (phrase, constant.description)")
    rep.assume("the Display impls of BigInt, rational::Display and compound::Display render their values (C08 territory)")
    for cfg, facts in fx.items():
        tag = "" if cfg == "dev" else "[rel]"
        if anchor(rep, "C19-R1", facts, "main", "any") is None:
            continue
        try:
            dom, it, body, outs = run_main(facts, 1, ndesc=0)
            dom2, it2, body2, outs2 = run_main(facts, 2, ndesc=0, io_fail=False)
            dom3, it3, body3, outs3 = run_main(facts, 0, ndesc=2, io_fail=False)
        except core.Undecided as e:
            rep.ob("C19-R1", "main" + tag, False, "undecided: %s" % e)
            continue
        rep.count("paths(1 result)" + tag, len(outs))
        rep.count("paths(2 results)" + tag, len(outs2))
        n_ok_lines = 0
        seen = set()
        for o in outs:
            log = dom.log(o.store)
            pcs = "; ".join("%r=%s" % (p, b) for p, b in dom.pc(o.store)) or "true"
            if o.kind != "ret":
                rep.ob("C19-R1", "main:panic:%s%s" % (o.site, tag), False, "main can end in %s (%s) where %s" % (o.kind, o.value, pcs), o.site)
                continue
            pre, res = split_log(log)
            fails = [e for e in log if e[0] == "fail"]
            for kind, n, evs in res:
                evs_nofail = [e for e in evs if e[0] not in ("fail",)]
                if kind == "ok":
                    # the line of this result: writes up to (and including) the one ending in a newline, unless a write failed
                    if any(e[0] == "fail" for e in evs):
                        continue
                    line = []
                    rest = []
                    done = False
                    for e in evs_nofail:
                        if not done:
                            line.append(e)
                            f = fmt_of(e) if e[0] == "write" else None
                            if f and f[0] and isinstance(f[0][-1], str) and f[0][-1].endswith("\n"):
                                done = True
                        else:
                            rest.append(e)
                    okk, txt = check_line(facts, dom, o.store, line, n)
                    ex = dom.decide(o.store, Sym("opts.exact"))
                    one = dom.decide(o.store, T("is_one", T("call:anything::Rational::denom", Sym("v%d" % n))))
                    hn = dom.decide(o.store, T("call:anything::Compound::has_numerator", Sym("u%d" % n)))
                    key = "ok-line:exact=%s:denom_one=%s:has_numerator=%s%s" % (ex, one, hn, tag)
                    if key in seen:
                        continue
                    seen.add(key)
                    n_ok_lines += 1
                    rep.ob("C19-R2" if "mode" in txt or "renderer" in txt or "exact" in txt.split(":")[0] and not okk else "C19-R3"
                           if not okk else "C19-R2", key, okk, txt, body.site(),
                           sample={"path_condition": pcs, "writes": [repr(e[1]) for e in line]})
                else:
                    emits = [e for e in evs_nofail if e[0] == "emit"]
                    writes = [e for e in evs_nofail if e[0] == "write"]
                    # descriptions header etc. come after the loop; an Err result itself must be exactly one emit
                    okk = len(emits) == 1
                    key = "err-rendered%s" % tag
                    if key not in seen or not okk:
                        seen.add(key)
                        rep.ob("C19-R1", key, okk, "an Err result is rendered by %d term::emit call(s)" % len(emits), body.site())
            # early exit discipline
            v = o.value
            is_err = isinstance(v, Agg) and v.path == "std::result::Result" and v.vi == 1
            if is_err:
                allowed = {"write", "emit", "open", "parse", "source"}
                okk = bool(fails) and fails[-1][1] in allowed
                key = "early-exit:%s%s" % (fails[-1][1] if fails else "unknown", tag)
                if key not in seen or not okk:
                    seen.add(key)
                    rep.ob("C19-R1", key, okk, "main returns Err after %s%s" % (fails[-1:] or "no recorded failure", "" if okk else " (value %s)" % repr(v)[:200]), o.site)
        rep.floor("C19-R2", "distinct Ok-line classes", n_ok_lines, 6)
        # two results: after an Err (or Ok) result without I/O failure the iterator is asked again
        cont = {"ok": [0, 0], "err": [0, 0]}
        for o in outs2:
            if o.kind != "ret":
                continue
            log = dom2.log(o.store)
            if any(e[0] == "fail" for e in log):
                continue
            pre, res = split_log(log)
            if res:
                first = res[0][0]
                cont[first][0] += 1
                # the run either saw a second result or the iterator said None: both mean next() was called again.
                # a path that stops after the first result without failure has qn == 1 and never reached the end of main:
                # it would not be a 'ret' with Ok(()) -- check the return value
                v = o.value
                if isinstance(v, Agg) and v.path == "std::result::Result" and v.vi == 0:
                    cont[first][1] += 1
        for k, (tot, good) in cont.items():
            rep.ob("C19-R1", "loop-continues-after-%s%s" % (k, tag), tot > 0 and tot == good,
                   "after a first %s result %d of %d failure-free path(s) run on to the end of main" % (k, good, tot), body.site())
        # second result after an error is still printed
        after_err = 0
        for o in outs2:
            pre, res = split_log(dom2.log(o.store))
            if len(res) == 2 and res[0][0] == "err" and res[1][0] == "ok" and not any(e[0] == "fail" for e in dom2.log(o.store)):
                after_err += 1
        rep.ob("C19-R1", "ok-after-err-printed" + tag, after_err > 0,
               "%d failure-free path(s) print an Ok result that follows an Err result" % after_err, body.site())
        # R4: description order
        order_ok = None
        rep.count("paths(descriptions)" + tag, len(outs3))
        for o in outs3:
            if o.kind != "ret" or not (isinstance(o.value, Agg) and o.value.path == "std::result::Result" and o.value.vi == 0):
                continue
            log = dom3.log(o.store)
            if any(e[0] == "fail" for e in log):
                continue
            ph = []
            for e in log:
                f = fmt_of(e) if e[0] == "write" else None
                if f and f[0] and " => " in [x for x in f[0] if isinstance(x, str)]:
                    a = f[1]
                    ph.append((repr(a[0]), repr(a[1])))
            want = [("debug(phrase%d)" % i, "display(c%d.description)" % i) for i in range(2)]
            good = ph == want
            order_ok = good if order_ok is None else (order_ok and good)
        rep.ob("C19-R4", "description-order" + tag, bool(order_ok),
               "descriptions are written in recorded order with their own constant's text" if order_ok else
               "descriptions are not written as (phrase_i, constant_i.description) in recorded order", body.site())
    if not shares:
        return
    # what the binary prints for a fact comes out of the database session it opened (on disk), and its decimal text out of
    # the library's formatter: both are part of "prints what the library computed" as an independent observer sees it
    facts = fx["dev"]
    rep.rule("C19-R5", "the binary's on-disk database session answers like the library's in-memory one: the tokenizer is "
                       "registered before any use on every path and every kind of session serves a fully built index "
                       "(shared with C14-R2 and C14-R5 / C15-R6)")
    from . import c14, c15, c08
    sub = type(rep)(rep.prop, rep.tier)
    c14.r2_tokenizer(facts, sub)
    c15.r6_session(facts, sub, rule="C19-R5")
    for o in sub.obls:
        o["rule"] = "C19-R5"
        rep.obls.append(o)
    rep.rule("C19-R6", "the decimal rendering with twelve digits is the faithful one: the formatter rules of C08 (generator, "
                       "split, dispatch, the three forms, the mark) hold (shared with C08-R1..R7)")
    sub = type(rep)(rep.prop, rep.tier)
    c08.run({"dev": facts}, sub, "quick")
    for o in sub.obls:
        o["key"] = o["rule"] + ":" + o["key"]
        o["rule"] = "C19-R6"
        rep.obls.append(o)
    r7_unit_exponent(facts, rep)
    r8_compound_display(facts, rep)
    r9_unit_display(facts, rep)
    r10_unit_names(facts, rep)


# ---- the exponent of a displayed unit ----------------------------------------------------------------------------------
SUPER = "⁰¹²³⁴⁵⁶⁷⁸⁹"


def _unit_display_body(facts):
    hits = [b for b in facts.all if b.promoted < 0 and b.path.startswith("<unit::Display") and b.path.endswith(" as std::fmt::Display>::fmt")]
    return hits[0] if len(hits) == 1 else None


def _udisp_run(facts, body, power, stops=(), start=None, skip=(), helper=False):
    from ..absint.term import EffectDomain
    def oracle(dom, it, name, args, vals, store):
        if name in skip:
            # a helper that carries the digit loop itself: looked at on its own (with its parameters arbitrary)
            return [(ok(UNIT), dom.with_log(store, ("helper", name)))]
        if name == "prefix::Prefix::find":
            return [(Agg("tuple", None, None, None, (Sym("prefix"), Sym("extra"))), store)]
        if name == "unit::Unit::format_suffix":
            return [(ok(UNIT), dom.with_log(store, ("suffix",)))]
        if name.endswith("::write_fmt"):
            return [(ok(UNIT), dom.with_log(store, ("write",)))]
        if name == "<char as std::fmt::Display>::fmt":
            return [(ok(UNIT), dom.with_log(store, ("char", vals[0])))]
        if name == "unit::Unit::prefix_bias":
            return [(Sym("bias"), store)]
        b = facts.fn(name)
        if b is not None and b.arg_count == 1 and b.local_ty(1) == "u32" and b.local_ty(0) == "char" and not isinstance(vals[0], Const):
            # the digit -> superscript function on a symbolic argument: recorded with the path condition, result opaque
            return [(T("superscript", vals[0]), dom.with_log(store, ("digit", vals[0], tuple(dom.pc(store)))))]
        return None
    dom = EffectDomain({}, oracle=oracle)
    dom.uninterp = lambda n: facts.fn(n) is None
    it = core.Interp(facts, dom, budget=60000)
    if start is not None:
        return dom, it, it.run(body, [], {}, start=start, stop=set(stops))
    if helper:
        return dom, it, it.run(body, [Sym("arg%d" % i) for i in range(body.arg_count)], {}, stop=set(stops))
    st = {}
    st, dref = it.fresh_slot(st, Agg("adt", "compound::State", 0, "State", (power, Sym("pfx"))))
    st, uref = it.fresh_slot(st, Sym("unit"))
    adt = facts.adt("unit::Display")
    names = [f["name"] for f in adt["variants"][0]["fields"]]
    vals = {"unit": uref, "data": dref, "pluralize": Sym("pluralize"), "n": Const(1)}
    st, sref = it.fresh_slot(st, Agg("adt", "unit::Display", 0, "Display", tuple(vals.get(n, Sym("d." + n)) for n in names)))
    return dom, it, it.run(body, [sref, Sym("f")], st, stop=set(stops))


def _le9(arg, pc):
    """Is arg <= 9 entailed: a remainder modulo ten, or a comparison on the path."""
    if isinstance(arg, T) and arg.op == "irem" and arg.args[1] in (Const(10),):
        return True
    for p, b in pc:
        if not isinstance(p, T) or len(p.args) != 2:
            continue
        x, y = p.args
        if x == arg and isinstance(y, Const) and isinstance(y.v, int):
            if (p.op == "Lt" and b and y.v <= 10) or (p.op == "Le" and b and y.v <= 9) or (p.op == "Ge" and not b and y.v <= 10) or (p.op == "Gt" and not b and y.v <= 9):
                return True
        if y == arg and isinstance(x, Const) and isinstance(x.v, int):
            if (p.op == "Gt" and b and x.v <= 10) or (p.op == "Ge" and b and x.v <= 9) or (p.op == "Le" and not b and x.v <= 10) or (p.op == "Lt" and not b and x.v <= 9):
                return True
    return False


def r7_unit_exponent(facts, rep, rule="C19-R7"):
    rep.rule(rule, "the exponent of a displayed unit is its decimal digits in superscript: (a) the digit function maps 0..9 to "
                   "⁰..⁹ (all ten arguments); (b) on every path of unit::Display::fmt, from the entry and from each loop head "
                   "with the loop state arbitrary, the digit function is only applied to a value proved <= 9 (a comparison on "
                   "the path or a remainder modulo ten); (c) for exponents with 1, 2, 3 and 10 digits the characters written "
                   "are the superscript digits in order, nothing for 1")
    from .. import loops as L
    from ..absint.stdmodels import Seq
    body = _unit_display_body(facts)
    if body is None or facts.adt("unit::Display") is None:
        rep.ob(rule, "anchor:unit::Display::fmt", False, "the Display impl of unit::Display was not found")
        return
    # (a) the digit table
    def is_digit_fn(n):
        fb_ = facts.fn(n)
        return fb_ is not None and fb_.arg_count == 1 and fb_.local_ty(1) == "u32" and fb_.local_ty(0) == "char"
    # the functions that apply the digit function: Display::fmt itself and helpers only it uses (a split-off `fmt_power`)
    from ..callgraph import CallGraph
    own = CallGraph(facts).exclusive(body.path)
    carriers = [body] + [facts.fn(p) for p in sorted(own) if facts.fn(p) is not None and p != body.path and not is_digit_fn(p)
                         and any(is_digit_fn(n) for b_, t_, sp_, n in facts.fn(p).calls())]
    digit_fns = sorted({n for c_ in carriers for b, t, sp, n in c_.calls() if is_digit_fn(n)})
    for fn in digit_fns:
        fb = facts.fn(fn)
        for d in range(10):
            dom = TermDomain(uninterp=lambda n: True)
            it = core.Interp(facts, dom, budget=2000)
            try:
                outs = it.run(fb, [Const(d)], {})
            except core.Undecided as e:
                rep.ob(rule, "digit-table:%s:%d" % (fn, d), False, "undecided: %s" % e, fb.site())
                continue
            got = [o.value.v for o in outs if o.kind == "ret" and isinstance(o.value, Const)]
            rep.ob(rule, "digit-table:%s:%d" % (fn, d), got == [ord(SUPER[d])],
                   "%s(%d) = %s (expected %r)" % (fn, d, [chr(g) if isinstance(g, int) else g for g in got], SUPER[d]), fb.site())
    # (b) call-site domain
    segs = []
    skip = tuple(c_.path for c_ in carriers[1:])
    try:
        for c_ in carriers:
            heads = L.loop_heads(c_)
            tagp = "" if c_ is body else c_.path + ":"
            dom, it, outs = _udisp_run(facts, c_, Sym("power"), stops=heads, skip=[p for p in skip if p != c_.path], helper=c_ is not body)
            segs.append((tagp + "entry", dom, outs))
            for o in list(outs):
                if o.kind != "stop":
                    continue
                st = dict(o.store)
                for l in L.variant_locals(c_, o.value):
                    ty = c_.local_ty(l)
                    st = it.write_ref(st, core.Ref(1, l), Sym("L%d" % l) if ty in ("u32", "i32", "usize") else TOP)
                dom2, it2, outs2 = _udisp_run(facts, c_, None, stops=heads, start=(o.value, st), skip=[p for p in skip if p != c_.path])
                segs.append((tagp + "loop@%d" % o.value, dom2, outs2))
    except core.Undecided as e:
        rep.ob(rule, "call-sites", False, "undecided: %s" % e, body.site())
        segs = []
    n_sites = 0
    bad = []
    for tag, d_, outs_ in segs:
        for o in outs_:
            for e in d_.log(o.store):
                if e[0] == "digit":
                    n_sites += 1
                    if not _le9(e[1], list(e[2]) + list(d_.pc(o.store))):
                        bad.append("%s: applied to %r where only %s is known" % (tag, e[1], "; ".join("%r=%s" % x for x in e[2]) or "nothing"))
    if digit_fns:
        rep.ob(rule, "digit-argument-below-ten", not bad and n_sites >= 2,
               bad[0] if bad else "%d application(s) of the digit function on the explored paths, each to a value proved <= 9" % n_sites, body.site())
    # (c) composition on boundary values
    for p in (1, 2, 9, 10, 11, 19, 20, 99, 100, 101, 999, 1000, 4294967295):
        try:
            dom, it, outs = _udisp_run(facts, body, Const(p))
        except core.Undecided as e:
            rep.ob(rule, "exponent:%d" % p, False, "undecided: %s" % e, body.site())
            continue
        want = [] if p == 1 else [ord(SUPER[int(c)]) for c in str(p)]
        gots = set()
        for o in outs:
            if o.kind != "ret" or not (isinstance(o.value, Agg) and o.value.vi == 0):
                continue
            gots.add(tuple(e[1].v if isinstance(e[1], Const) else repr(e[1]) for e in dom.log(o.store) if e[0] == "char"))
        rep.ob(rule, "exponent:%d" % p, gots == {tuple(want)},
               "power %d is written as %s (expected %r)" % (p, ["".join(chr(c) if isinstance(c, int) else "?" for c in g) for g in gots], "".join(chr(c) for c in want)), body.site())


# ---- the text of a compound unit ----------------------------------------------------------------------------------------
def _compound_display_run(facts, body, signs, plural):
    """Summary of compound::Display::fmt over a unit map with len(signs) entries whose powers have the given signs."""
    from ..absint.term import EffectDomain
    from ..absint.stdmodels import Seq, it_list
    entries = []
    for i, sg in enumerate(signs):
        st_ = Agg("adt", "compound::State", 0, "State", (Const(2 * sg), Sym("prefix%d" % i)))
        entries.append(Agg("tuple", None, None, None, (Sym("unit%d" % i), st_)))
    names = Seq(tuple(entries))

    def oracle(dom, it, name, args, vals, store):
        m = name.rsplit("::", 1)[-1]
        v0 = vals[0] if vals else None
        if isinstance(v0, Seq) and ("BTreeMap" in name or "btree_map" in name or "btree::map" in name):
            if m in ("iter", "into_iter"):
                return [(it_list(v0.items), store)]
            if m == "values":
                return [(it_list(tuple(e.field(1) for e in v0.items)), store)]
            if m == "keys":
                return [(it_list(tuple(e.field(0) for e in v0.items)), store)]
            if m == "len":
                return [(Const(len(v0.items)), store)]
            if m == "is_empty":
                return [(Const(not v0.items), store)]
        if name == "unit::Unit::display" and len(vals) == 4:
            return [(T("unit-display", vals[0], vals[1], vals[2], vals[3]), store)]
        if name.endswith(" as std::fmt::Display>::fmt") and len(vals) == 2 and isinstance(vals[0], T) and vals[0].op == "unit-display":
            return [(ok(UNIT), dom.with_log(store, ("unit",) + tuple(vals[0].args))), (err(Sym("fmt_error")), dom.with_log(store, ("fail",)))]
        if name.endswith("::write_char") and len(vals) == 2:
            c = vals[1]
            return [(ok(UNIT), dom.with_log(store, ("lit", chr(c.v) if isinstance(c, Const) and isinstance(c.v, int) else repr(c)))),
                    (err(Sym("fmt_error")), dom.with_log(store, ("fail",)))]
        if name.endswith("::write_str") and len(vals) == 2:
            return [(ok(UNIT), dom.with_log(store, ("lit", vals[1].v if isinstance(vals[1], Const) else repr(vals[1])))),
                    (err(Sym("fmt_error")), dom.with_log(store, ("fail",)))]
        if name.endswith("::write_fmt") and len(vals) == 2:
            f = vals[1]
            tpl = f.args[0].v if isinstance(f, T) and f.op == "fmt" and isinstance(f.args[0], Const) else None
            if tpl is not None and all(isinstance(x, str) for x in tpl):
                return [(ok(UNIT), dom.with_log(store, ("lit", "".join(tpl)))), (err(Sym("fmt_error")), dom.with_log(store, ("fail",)))]
        return None
    dom = EffectDomain({}, oracle=oracle)
    dom.uninterp = lambda n: facts.fn(n) is None
    it = core.Interp(facts, dom, budget=120000)
    cadt = facts.adt("compound::Compound")
    dadt = facts.adt("compound::Display")
    comp = Agg("adt", "compound::Compound", 0, "Compound", tuple(names if "BTreeMap" in f["ty"] else TOP for f in cadt["variants"][0]["fields"]))
    st, cref = it.fresh_slot({}, comp)
    dvals = tuple(cref if "compound::Compound" in f["ty"] else (Const(plural) if f["ty"] == "bool" else TOP) for f in dadt["variants"][0]["fields"])
    st, dref = it.fresh_slot(st, Agg("adt", "compound::Display", 0, "Display", dvals))
    return dom, it.run(body, [dref, Sym("f")], st)


def r8_compound_display(facts, rep, rule="C19-R8"):
    rep.rule(rule, "the text of a compound unit (summary of compound::Display::fmt over unit maps with 0..3 entries of every sign "
                   "pattern, pluralize on and off): the units with a non-negative power in map order, each through "
                   "Unit::display(state, plural, 1) and joined by '⋅' - plural only for a sole such unit and only if asked; then, "
                   "iff a power is negative, '/' and those units in map order through Unit::display(state, false, -1), joined by '⋅'")
    hits = [b for b in facts.all if b.promoted < 0 and b.path.startswith("<compound::Display") and b.path.endswith(" as std::fmt::Display>::fmt")]
    if len(hits) != 1 or facts.adt("compound::Display") is None:
        rep.ob(rule, "anchor:compound::Display::fmt", False, "the Display impl of compound::Display was not found")
        return
    body = hits[0]
    import itertools
    n = 0
    for k in range(0, 4):
        for signs in itertools.product((1, -1), repeat=k):
            for plural in (True, False):
                key = "units:%s:plural=%s" % ("".join("+" if s_ > 0 else "-" for s_ in signs) or "none", plural)
                try:
                    dom, outs = _compound_display_run(facts, body, signs, plural)
                except core.Undecided as e:
                    rep.ob(rule, key, False, "undecided: %s" % e, body.site())
                    continue
                pos = [i for i, s_ in enumerate(signs) if s_ > 0]
                neg = [i for i, s_ in enumerate(signs) if s_ < 0]
                want = []
                for j, i in enumerate(pos):
                    want.append(("unit", "unit%d" % i, bool(plural and len(pos) == 1 and j == 0), 1))
                    if j + 1 < len(pos):
                        want.append(("lit", "⋅"))
                if neg:
                    want.append(("lit", "/"))
                    for j, i in enumerate(neg):
                        want.append(("unit", "unit%d" % i, False, -1))
                        if j + 1 < len(neg):
                            want.append(("lit", "⋅"))
                bad = []
                n_ok = 0
                for o in outs:
                    if o.kind != "ret":
                        bad.append("%s %s" % (o.kind, str(o.value)[:60]))
                        continue
                    log = dom.log(o.store)
                    if any(e[0] == "fail" for e in log):
                        continue
                    if not (isinstance(o.value, Agg) and o.value.vi == 0):
                        continue
                    n_ok += 1
                    got = []
                    for e in log:
                        if e[0] == "unit":
                            u_, st_, pl_, n_ = e[1], e[2], e[3], e[4]
                            st_ok = isinstance(st_, Agg) and repr(st_.field(1)) == "prefix" + repr(u_)[4:]
                            got.append(("unit", repr(u_), bool(pl_.v) if isinstance(pl_, Const) else repr(pl_), n_.v if isinstance(n_, Const) else repr(n_)) if st_ok else ("unit", repr(u_) + " with another unit's state", None, None))
                        elif e[0] == "lit":
                            got.append(("lit", e[1]))
                    if got != want:
                        bad.append("prints %s; specified %s" % (got, want))
                n += 1
                rep.ob(rule, key, not bad and n_ok >= 1, "; ".join(sorted(set(bad))[:2]) if bad else "as specified (%d path(s))" % n_ok, body.site())
    rep.floor(rule, "sign patterns x pluralize", n, 30)


def _unit_display_run(facts, body, power, n, plural):
    """Summary of unit::Display::fmt for one unit with a symbolic identity and prefix, a concrete power and sign."""
    from ..absint.term import EffectDomain

    def oracle(dom, it, name, args, vals, store):
        if name == "prefix::Prefix::find":
            return [(Agg("tuple", None, None, None, (Sym("found_prefix"), Sym("found_extra"))), dom.with_log(store, ("find", vals[0])))]
        if name == "unit::Unit::prefix_bias":
            return [(T("bias", vals[0]), store)]
        if name == "unit::Unit::format_suffix" and len(vals) == 3:
            return [(ok(UNIT), dom.with_log(store, ("suffix", vals[0], vals[2]))), (err(Sym("fmt_error")), dom.with_log(store, ("fail",)))]
        if name.endswith("::write_char") and len(vals) == 2:
            c = vals[1]
            return [(ok(UNIT), dom.with_log(store, ("lit", chr(c.v) if isinstance(c, Const) and isinstance(c.v, int) else repr(c)))),
                    (err(Sym("fmt_error")), dom.with_log(store, ("fail",)))]
        if name.endswith("::write_str") and len(vals) == 2:
            return [(ok(UNIT), dom.with_log(store, ("lit", vals[1].v if isinstance(vals[1], Const) else repr(vals[1])))),
                    (err(Sym("fmt_error")), dom.with_log(store, ("fail",)))]
        if name.endswith("::write_fmt") and len(vals) == 2:
            f = vals[1]
            if isinstance(f, T) and f.op == "fmt" and isinstance(f.args[0], Const):
                st, k = store, 1
                for x in f.args[0].v:
                    if isinstance(x, str):
                        if x:
                            st = dom.with_log(st, ("lit", x))
                    else:
                        st = dom.with_log(st, ("arg", repr(f.args[k]) if k < len(f.args) else "?"))
                        k += 1
                return [(ok(UNIT), st), (err(Sym("fmt_error")), dom.with_log(st, ("fail",)))]
        if name.endswith(" as std::fmt::Display>::fmt") and len(vals) == 2:
            v = vals[0]
            if isinstance(v, Const):
                return [(ok(UNIT), dom.with_log(store, ("lit", chr(v.v) if isinstance(v.v, int) else v.v))), (err(Sym("fmt_error")), dom.with_log(store, ("fail",)))]
            if isinstance(v, Sym):
                return [(ok(UNIT), dom.with_log(store, ("arg", "display(%s)" % v.name))), (err(Sym("fmt_error")), dom.with_log(store, ("fail",)))]
        return None
    dom = EffectDomain({}, oracle=oracle)
    dom.uninterp = lambda n_: facts.fn(n_) is None
    it = core.Interp(facts, dom, budget=100000)
    sadt = facts.adt("compound::State")
    dadt = facts.adt("unit::Display")
    stv = Agg("adt", "compound::State", 0, "State", tuple(Const(power) if f["name"] == "power" else Sym("pfx") for f in sadt["variants"][0]["fields"]))
    st, sref = it.fresh_slot({}, stv)
    st, uref = it.fresh_slot(st, Sym("unit"))
    vals = []
    for f in dadt["variants"][0]["fields"]:
        ty = f["ty"]
        vals.append(uref if "unit::Unit" in ty else sref if "State" in ty else Const(plural) if ty == "bool" else Const(n))
    st, dref = it.fresh_slot(st, Agg("adt", "unit::Display", 0, "Display", tuple(vals)))
    return dom, it.run(body, [dref, Sym("f")], st)


SUPER = "⁰¹²³⁴⁵⁶⁷⁸⁹"


def r9_unit_display(facts, rep, rule="C19-R9"):
    rep.rule(rule, "the text of one unit (summary of unit::Display::fmt over a symbolic unit and prefix, powers 1, 2, 3, 12 and "
                   "their negatives under n = -1, pluralize on and off): Prefix::find is asked for the stored prefix plus the "
                   "unit's bias; the prefix it returns is written first (behind 'e<extra>' iff extra is not zero), then the "
                   "unit's own name with the pluralize flag passed on unchanged, then the power times n in superscript digits "
                   "unless it is one - nothing else")
    hits = [b for b in facts.all if b.promoted < 0 and b.path.startswith("<unit::Display") and b.path.endswith(" as std::fmt::Display>::fmt")]
    sadt = facts.adt("compound::State")
    dadt = facts.adt("unit::Display")
    if len(hits) != 1 or sadt is None or dadt is None or "power" not in [f["name"] for f in sadt["variants"][0]["fields"]]:
        rep.ob(rule, "anchor:unit::Display::fmt", False, "the Display impl of unit::Display (or the State it reads) was not found")
        return
    body = hits[0]
    n_cases = 0
    for power, n in ((1, 1), (2, 1), (3, 1), (12, 1), (-1, -1), (-2, -1), (-12, -1)):
        for plural in (True, False):
            key = "power=%d:n=%d:plural=%s" % (power, n, plural)
            try:
                dom, outs = _unit_display_run(facts, body, power, n, plural)
            except core.Undecided as e:
                rep.ob(rule, key, False, "undecided: %s" % e, body.site())
                continue
            shown = power * n
            digits = [("lit", SUPER[int(c)]) for c in str(shown)] if shown != 1 else []
            bad = []
            seen_extra = set()
            n_ok = 0
            for o in outs:
                if o.kind != "ret":
                    bad.append("%s %s" % (o.kind, str(o.value)[:60]))
                    continue
                log = dom.log(o.store)
                if any(e[0] == "fail" for e in log) or not (isinstance(o.value, Agg) and o.value.vi == 0):
                    continue
                n_ok += 1
                zero = None
                for p_, b_ in dom.pc(o.store):
                    r_ = repr(p_)
                    if "found_extra" in r_ and "Const(0)" in r_:
                        zero = b_ if r_.startswith("Eq(") else (not b_ if r_.startswith("Ne(") else None)
                seen_extra.add(zero)
                got = [(e[0],) + tuple(repr(x) if not isinstance(x, str) else x for x in e[1:]) for e in log]
                find_ok = got and got[0][0] == "find" and got[0][1] in ("i+(pfx, bias(unit))", "i+(bias(unit), pfx)")
                rest = [g for g in got[1:]]
                # literals may come char by char or joined
                flat = []
                for g in rest:
                    if g[0] == "lit":
                        flat.extend(("lit", c) for c in g[1])
                    else:
                        flat.append(g)
                pre = [("arg", "display(found_prefix)")] if zero is True else [("lit", "e"), ("arg", "display(found_extra)"), ("arg", "display(found_prefix)")]
                want = pre + [("suffix", "unit", "Const(%s)" % plural)] + digits
                if not find_ok or flat != want or zero is None:
                    bad.append("writes %s%s; specified find(prefix + bias), %s" % (got[:1] if not find_ok else "", flat, want))
            n_cases += 1
            rep.ob(rule, key, not bad and n_ok >= 1 and seen_extra == {True, False},
                   "; ".join(sorted(set(bad))[:2]) if bad else ("as specified (%d path(s))" % n_ok if seen_extra == {True, False} else
                                                              "the extra returned by Prefix::find is not distinguished from zero"), body.site())
    rep.floor(rule, "power x pluralize cases", n_cases, 14)


BASE_SYMBOLS = {"Second": "s", "KiloGram": "g", "Meter": "m", "Ampere": "A", "Kelvin": "K", "Mole": "mol", "Candela": "cd", "Byte": "B"}


def r10_unit_names(facts, rep, rule="C19-R10"):
    rep.rule(rule, "the name a unit is printed with (summary of Unit::format_suffix per variant): a base unit writes its SI symbol "
                   "(the kilogram writes `g`: its prefix bias supplies the kilo), a derived unit calls its own table's format "
                   "function with the formatter and the pluralize flag unchanged, and nothing else is written")
    from ..absint.term import EffectDomain
    body = facts.fn("unit::Unit::format_suffix")
    uadt = facts.adt("unit::Unit")
    dadt = facts.adt("unit::Derived")
    vadt = facts.adt("unit::DerivedVtable")
    if body is None or uadt is None or dadt is None or vadt is None:
        rep.ob(rule, "anchor:unit::Unit::format_suffix", False, "Unit::format_suffix / Unit / Derived / DerivedVtable not found")
        return

    class Dom(EffectDomain):
        def on_indirect(self, it, fval, args, store, term, frame):
            if isinstance(fval, Sym):
                vals = [it.read_ref(store, a) for a in args]
                return [(ok(UNIT), self.with_log(store, ("indirect", fval.name) + tuple(vals))), (err(Sym("fmt_error")), self.with_log(store, ("fail",)))]
            return None

    def oracle(dom, it, name, args, vals, store):
        if name.endswith("::write_char") and len(vals) == 2 and isinstance(vals[1], Const):
            return [(ok(UNIT), dom.with_log(store, ("lit", chr(vals[1].v)))), (err(Sym("fmt_error")), dom.with_log(store, ("fail",)))]
        if name.endswith("::write_str") and len(vals) == 2 and isinstance(vals[1], Const):
            return [(ok(UNIT), dom.with_log(store, ("lit", vals[1].v))), (err(Sym("fmt_error")), dom.with_log(store, ("fail",)))]
        if name.endswith("::write_fmt") and len(vals) == 2:
            f = vals[1]
            tpl = f.args[0].v if isinstance(f, T) and f.op == "fmt" and isinstance(f.args[0], Const) else None
            if tpl is not None and all(isinstance(x, str) for x in tpl):
                return [(ok(UNIT), dom.with_log(store, ("lit", "".join(tpl)))), (err(Sym("fmt_error")), dom.with_log(store, ("fail",)))]
        if name.endswith(" as std::fmt::Display>::fmt") and len(vals) == 2 and isinstance(vals[0], Const):
            v = vals[0].v
            return [(ok(UNIT), dom.with_log(store, ("lit", chr(v) if isinstance(v, int) else v))), (err(Sym("fmt_error")), dom.with_log(store, ("fail",)))]
        return None
    n = 0
    for vi, var in enumerate(uadt["variants"]):
        for plural in (True, False):
            key = "%s:plural=%s" % (var["name"], plural)
            dom = Dom({}, oracle=oracle)
            dom.uninterp = lambda n_: facts.fn(n_) is None
            it = core.Interp(facts, dom, budget=40000)
            st = {}
            if var["fields"]:
                vt = Agg("adt", "unit::DerivedVtable", 0, "DerivedVtable",
                         tuple(Sym("vtable." + f["name"]) for f in vadt["variants"][0]["fields"]))
                st, vref = it.fresh_slot(st, vt)
                dv = Agg("adt", "unit::Derived", 0, "Derived", tuple(vref if "DerivedVtable" in f["ty"] else Sym("derived." + f["name"])
                                                                       for f in dadt["variants"][0]["fields"]))
                uv = Agg("adt", "unit::Unit", vi, var["name"], (dv,))
            else:
                uv = Agg("adt", "unit::Unit", vi, var["name"], ())
            st, uref = it.fresh_slot(st, uv)
            try:
                outs = it.run(body, [uref, Sym("f"), Const(plural)], st)
            except core.Undecided as e:
                rep.ob(rule, key, False, "undecided: %s" % e, body.site())
                continue
            bad = []
            n_ok = 0
            for o in outs:
                if o.kind != "ret":
                    bad.append("%s %s" % (o.kind, str(o.value)[:60]))
                    continue
                log = dom.log(o.store)
                if any(e[0] == "fail" for e in log) or not (isinstance(o.value, Agg) and o.value.vi == 0):
                    continue
                n_ok += 1
                if var["fields"]:
                    want = [("indirect", "vtable.format", Sym("f"), Const(plural))]
                    got = [tuple(e) for e in log]
                else:
                    if var["name"] not in BASE_SYMBOLS:
                        bad.append("a base unit %s the symbol table does not know" % var["name"])
                        continue
                    want = BASE_SYMBOLS[var["name"]]
                    got = "".join(e[1] for e in log if e[0] == "lit") if all(e[0] == "lit" for e in log) else [tuple(e) for e in log]
                if got != want:
                    bad.append("writes %r; specified %r" % (got, want))
            n += 1
            rep.ob(rule, key, not bad and n_ok >= 1, "; ".join(sorted(set(bad))[:2]) if bad else "as specified", body.site())
    rep.floor(rule, "unit variants x pluralize", n, 18)
