"""C18 - describing a query does not change its answer and reports exactly the facts used."""
from .. import facts as F
from .. import flow
from ..callgraph import CallGraph
from .common import census, anchor

LEVEL = "other"


def describe_reads(facts):
    out = []
    for b in facts.lib_bodies():
        if b.from_derive():
            continue
        for blk, i, s in b.stmts():
            rv = s["rv"]
            ops = []
            if rv["k"] in ("use", "cast"):
                ops = [rv["op"]]
            elif rv["k"] in ("binop",):
                ops = [rv["a"], rv["b"]]
            elif rv["k"] == "unop":
                ops = [rv["a"]]
            elif rv["k"] == "aggregate":
                ops = rv["ops"]
            elif rv["k"] in ("ref", "rawptr"):
                ops = [{"k": "copy", "place": rv["place"]}]
            for o in ops:
                if o["k"] in ("copy", "move") and F.place_fields(o["place"])[-1:] == ["describe"]:
                    out.append((b, blk, s))
        for blk, t, sp in b.terms():
            if t["k"] == "switch" and t["discr"]["k"] in ("copy", "move") and F.place_fields(t["discr"]["place"])[-1:] == ["describe"]:
                out.append((b, blk, {"span": sp, "place": None}))
    return out


def r1_r2(facts, rep):
    rep.rule("C18-R1", "the field Options.describe is read at exactly one place of the crate outside derive expansions")
    rep.rule("C18-R2", "non-interference: what is control-dependent on that read is exactly one Vec::push onto "
                       "q.descriptions of Description::Constant(the phrase given to Db::lookup, a clone of the matched "
                       "constant); the push happens on every path of the describe side; no local defined there is used "
                       "afterwards; both sides continue into the same construction of the result")
    reads = describe_reads(facts)
    for b, blk, s in reads:
        rep.ob("C18-R1", "read-in:%s" % b.path, b.path == "eval::eval", "Options.describe is read in %s" % b.path, b.site(s["span"]))
    rep.ob("C18-R1", "exactly-one-read", len(reads) == 1, "%d read(s) of Options.describe" % len(reads))
    rep.floor("C18-R1", "reads of Options.describe", len(reads), 1)
    body = anchor(rep, "C18-R2", facts, "eval::eval")
    if body is None or not reads:
        return
    cfg = body.cfg
    for b, blk, s in reads:
        if b.path != "eval::eval":
            continue
        # the switch on the value read
        if s.get("place") is None:
            sw = blk["id"]
        else:
            d = s["place"]["local"]
            sw = None
            for x, t, sp in body.terms():
                if t["k"] == "switch" and F.op_local(t["discr"]) == d:
                    sw = x["id"]
        if not rep.ob("C18-R2", "switch-on-describe", sw is not None, "the value read is switched on", body.site(s["span"])):
            continue
        m, other = cfg.switch_targets(sw)
        f_t, t_t = m.get(0), other
        only_true = cfg.blocks_only_via_edge(sw, t_t)
        only_false = cfg.blocks_only_via_edge(sw, f_t) if f_t is not None else set()
        # calls in the describe-only region
        pushes = []
        others = []
        for x in sorted(only_true):
            t = body.blocks[x]["term"]["t"]
            if t["k"] == "call":
                nm = F.callee(t)
                if nm == "std::vec::Vec::<T, A>::push":
                    pushes.append((x, t))
                elif nm.endswith("as std::convert::Into<U>>::into") or nm.endswith("as std::clone::Clone>::clone") or \
                        nm.endswith("::from") or nm.endswith("::to_owned") or nm.endswith("::to_string"):
                    pass
                else:
                    others.append(nm)
        rep.ob("C18-R2", "describe-side:one-push", len(pushes) == 1, "%d push call(s) on the describe side" % len(pushes),
               body.site(s["span"]))
        rep.ob("C18-R2", "describe-side:no-other-effect", not others,
               "other calls on the describe side: %s" % sorted(set(others)), body.site(s["span"]))
        for x, t in pushes:
            recv = flow.field_origins(body, t["args"][0])
            rep.ob("C18-R2", "push:receiver", recv == {("descriptions",)}, "push receiver is %s" % sorted(recv),
                   body.site(body.blocks[x]["term"]["span"]))
            # unconditional on the describe side: every path from the true edge to a return passes the push
            good = cfg.every_path_passes(t_t, set(cfg.returns), {x})
            rep.ob("C18-R2", "push:unconditional", good,
                   "the push is %sexecuted on every path of the describe side" % ("" if good else "NOT "),
                   body.site(body.blocks[x]["term"]["span"]))
            # what is pushed
            ls = flow.slice_back(body, t["args"][1], through_agg=True)
            aggs = {l[1] for l in ls if l[0] == "agg"}
            calls = {l[1] for l in ls if l[0] == "call"}
            rep.ob("C18-R2", "push:value-shape", "query::Description::Constant" in aggs,
                   "pushed value is built from %s" % sorted(aggs), body.site(body.blocks[x]["term"]["span"]))
            # the phrase: same Query::source call that feeds Db::lookup
            lookups = [(bid, tt) for bid, tt, sp, nm in flow.calls_named(body, lambda n: n == "db::Db::lookup")
                       if cfg.dominates(bid, sw)]
            phrase_src = {l[2] for l in ls if l[0] == "call" and l[1] == "query::Query::<'a>::source"}
            lk_src = set()
            for bid, tt in lookups:
                lk_src |= {l[2] for l in flow.slice_back(body, tt["args"][1]) if l[0] == "call" and l[1] == "query::Query::<'a>::source"}
            rep.ob("C18-R2", "push:phrase-is-looked-up-text", bool(phrase_src) and phrase_src == lk_src,
                   "the described phrase comes from the same q.source(span) call as the text given to Db::lookup",
                   body.site(body.blocks[x]["term"]["span"]))
            # the constant: clone of the matched constant (payload of the lookup result)
            lk_blocks = {bid for bid, tt in lookups}
            const_src = {l for l in ls if l[0] == "call" and l[1] == "db::Db::lookup"}
            rep.ob("C18-R2", "push:constant-is-match", bool(const_src) and {l[2] for l in const_src} <= lk_blocks,
                   "the described constant is the payload of the Db::lookup result", body.site(body.blocks[x]["term"]["span"]))
        # no local defined on the describe side is used outside it
        defined = set()
        for x in only_true:
            for st in body.blocks[x]["stmts"]:
                if st["k"] == "assign" and not st["place"]["proj"]:
                    defined.add(st["place"]["local"])
            t = body.blocks[x]["term"]["t"]
            if t["k"] == "call" and not t["dest"]["proj"]:
                defined.add(t["dest"]["local"])
        # locals also defined elsewhere (e.g. the unit value of the if-expression, drop flags) are not describe-only
        defs = flow.Defs(body)
        only_defined = {l for l in defined if all(d[1] in only_true for d in defs.of(l))}
        leaked = set()
        from ..cfg import liveness
        live_in, addr = liveness(body)
        for x in cfg.reach0 - only_true:
            leaked |= (live_in[x] & only_defined)
        rep.ob("C18-R2", "describe-side:no-leak", not leaked,
               "locals defined only on the describe side and live outside it: %s" % sorted(leaked), body.site(s["span"]))
        # both sides join before the result is built
        joins = cfg.reachable_from(t_t) & cfg.reachable_from(f_t) if f_t is not None else set()
        res = [bid for bid, tt, sp, nm in flow.calls_named(body, lambda n: n == "numeric::Numeric::new") if bid in joins
               and cfg.dominates(sw, bid)]
        rep.ob("C18-R2", "result-built-after-join", len(res) >= 1 and all(r not in only_true and r not in only_false for r in res),
               "the result is built in a block common to both sides (%d candidate(s))" % len(res), body.site(s["span"]))


def r3_writers(facts, rep):
    rep.rule("C18-R3", "who-writes: the only call that receives q.descriptions mutably is the Vec::push in eval::eval; "
                       "the field is assigned only when the Query is constructed")
    n = 0
    for b in facts.lib_bodies():
        if b.from_derive():
            continue
        for blk, t, sp, name in b.calls():
            for a in t["args"]:
                if a["k"] in ("copy", "move") and ("descriptions",) in flow.field_origins(b, a) \
                        and flow.is_mut_borrow(b, a):
                    n += 1
                    okk = b.path == "eval::eval" and name == "std::vec::Vec::<T, A>::push"
                    rep.ob("C18-R3", "use:%s:%s" % (b.path, name.split("::")[-1]), okk,
                           "q.descriptions is passed to %s in %s" % (name, b.path), b.site(sp))
        for blk, i, s in b.stmts():
            if F.place_fields(s["place"])[-1:] == ["descriptions"]:
                rep.ob("C18-R3", "assign:%s" % b.path, False, "the descriptions field is assigned in %s" % b.path, b.site(s["span"]))
            rv = s["rv"]
            if rv["k"] == "aggregate" and rv["kind"].get("path") == "query::Query":
                rep.ob("C18-R3", "construct:%s" % b.path, b.path == "query::query", "a Query is constructed in %s" % b.path,
                       b.site(s["span"]))
    rep.floor("C18-R3", "uses of q.descriptions", n, 1)


def r4_no_index_mutation(facts, rep):
    rep.rule("C18-R4", "evaluation cannot reach any index-mutating or file-system call (call-graph reachability from "
                       "eval::eval and Query::next); query() takes &Db and Db::lookup takes &self; Db has no interior "
                       "mutability of its own")
    cg = CallGraph(facts)
    roots = ["eval::eval", "<query::Query<'_> as std::iter::Iterator>::next"]
    for r in roots:
        if r not in cg.local:
            rep.ob("C18-R4", "anchor:" + r, False, "anchor %s not found" % r)
    bad = lambda n: (n.startswith("tantivy::IndexWriter::") or n.startswith("tantivy::Index::writer") or
                     n == "tantivy::IndexReader::reload" or n.startswith("std::fs::") or n.startswith("tantivy::Index::create")
                     or n == "db::Db::open_inner" or n == "db::Db::load_bytes" or n == "config::Config::write_meta")
    chain = cg.path_to(roots, bad)
    reach = cg.reachable(roots)
    rep.count("functions reachable from evaluation", len([x for x in reach if x in cg.local]))
    rep.ob("C18-R4", "no-mutation-reachable", chain is None,
           "evaluation reaches no index / file-system mutation" if chain is None else "call chain: " + " -> ".join(chain),
           sample={"reachable_local_functions": len([x for x in reach if x in cg.local])})
    q = facts.fn("query::query")
    if q is not None:
        tys = [q.local_ty(i) for i in range(1, q.arg_count + 1)]
        dbty = [t for t in tys if "db::Db" in t]
        rep.ob("C18-R4", "query:&Db", bool(dbty) and all(t.startswith("&") and "mut" not in t.split("db::Db")[0] for t in dbty),
               "query() receives the database as %s" % dbty, q.site())
    lk = facts.fn("db::Db::lookup")
    if lk is not None:
        t = lk.local_ty(1)
        rep.ob("C18-R4", "lookup:&self", t.startswith("&") and "mut" not in t.split("db::Db")[0], "Db::lookup takes self as %s" % t, lk.site())
    adt = facts.adt("db::Db")
    if adt is not None:
        tys = [f["ty"] for f in adt["variants"][0]["fields"]]
        inter = [t for t in tys if any(w in t for w in ("Cell<", "RefCell<", "Mutex<", "RwLock<", "Atomic", "UnsafeCell"))]
        rep.ob("C18-R4", "Db:no-interior-mutability", not inter, "Db fields with interior mutability: %s" % inter)
    qadt = facts.adt("query::Query")
    if qadt is not None:
        tys = {f["name"]: f["ty"] for f in qadt["variants"][0]["fields"]}
        t = tys.get("db", "")
        rep.ob("C18-R4", "Query.db:&Db", t.startswith("&") and "mut" not in t.split("db::Db")[0], "Query.db has type %s" % t)


def run(fx, rep, tier):
    for cfg, facts in fx.items():
        sub = rep if cfg == "dev" else type(rep)(rep.prop, rep.tier)
        r1_r2(facts, sub)
        r3_writers(facts, sub)
        r4_no_index_mutation(facts, sub)
        if sub is not rep:
            for o in sub.obls:
                o["key"] += "[rel]"
                rep.obls.append(o)
