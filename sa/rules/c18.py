"""C18 - describing a query does not change its answer and reports exactly the facts used."""
import re
from .. import facts as F
from .. import flow
from ..callgraph import CallGraph
from .common import census, anchor

LEVEL = "other"


def describe_reads(facts):
    out = []
    for b in facts.lib_bodies():
        if b.from_derive():
            continue
        for blk, i, s in b.stmts():
            rv = s["rv"]
            ops = []
            if rv["k"] in ("use", "cast"):
                ops = [rv["op"]]
            elif rv["k"] in ("binop",):
                ops = [rv["a"], rv["b"]]
            elif rv["k"] == "unop":
                ops = [rv["a"]]
            elif rv["k"] == "aggregate":
                ops = rv["ops"]
            elif rv["k"] in ("ref", "rawptr"):
                ops = [{"k": "copy", "place": rv["place"]}]
            for o in ops:
                if o["k"] in ("copy", "move") and F.place_fields(o["place"])[-1:] == ["describe"]:
                    out.append((b, blk, s))
        for blk, t, sp in b.terms():
            if t["k"] == "switch" and t["discr"]["k"] in ("copy", "move") and F.place_fields(t["discr"]["place"])[-1:] == ["describe"]:
                out.append((b, blk, {"span": sp, "place": None}))
    return out


def r1_r2(facts, rep):
    rep.rule("C18-R1", "the field Options.describe is read only by the evaluator (module eval), outside derive expansions")
    rep.rule("C18-R2", "non-interference, by the summary of eval::eval on a WORD / SENTENCE node with a symbolic describe flag "
                       "(scripted tree, Db::lookup as an effect, the description list as a sequence, helpers followed): the paths "
                       "with describe = true and describe = false return the same results; with describe = true exactly one "
                       "Description::Constant(the text given to Db::lookup, the matched constant) is appended on a hit and "
                       "nothing on a miss or an error; with describe = false the list is untouched")
    from ..absint import core
    from ..absint.core import Agg
    from ..absint.term import Sym, T
    from ..absint.stdmodels import Seq
    from . import evalnode, evalops
    reads = describe_reads(facts)
    # the evaluator, or the constructor of the query (which may turn the flag into "is there a sink at all") and its helpers
    cgq = CallGraph(facts)
    ctor_own = cgq.exclusive("query::query") if "query::query" in cgq.local else set()
    # ... or a function only the evaluator uses (a `describe_constant` helper next to the query type)
    ev_own1 = cgq.exclusive("eval::eval") if "eval::eval" in cgq.local else set()
    for b, blk, s in reads:
        top = b.path.split("::{closure")[0]
        rep.ob("C18-R1", "read-in:%s" % top, (b.path.startswith("eval::") and not b.path.startswith("eval::builtin")) or top in ctor_own or top in ev_own1,
               "Options.describe is read in %s" % b.path, b.site(s["span"]))
    rep.floor("C18-R1", "reads of Options.describe", len(reads), 1)
    if anchor(rep, "C18-R2", facts, "eval::eval") is None:
        return
    for kind, prior in (("WORD", ()), ("SENTENCE", ()), ("WORD", (evalnode.prior_description(facts, 0),)),
                        ("WORD", (evalnode.prior_description(facts, 0), evalnode.prior_description(facts, 1)))):
        tree = {0: {"kind": kind, "children": []}}
        label = "%s:after-%d-earlier" % (kind, len(prior))
        try:
            dom, it, outs, dref = evalnode.run_eval(facts, tree, extra=evalnode.lookup_oracle(facts), with_query=True, prior=prior)
        except core.Undecided as e:
            rep.ob("C18-R2", "summary:%s" % label, False, "undecided: %s" % e)
            continue
        by = {True: [], False: [], None: []}
        bad = []
        for o in outs:
            if o.kind != "ret":
                bad.append("%s %s" % (o.kind, o.value))
                continue
            d = dom.decide(o.store, Sym("describe"))
            lst = it.read_ref(o.store, dref)
            log = tuple(e for e in dom.log(o.store))
            u = evalops.unpack(o.value)
            res = (u[0], repr(u[1]) if len(u) > 1 else None, repr(u[2]) if len(u) > 2 and u[0] == "ok" else None, log)
            by[d].append((res, lst))
            hit = u[0] == "ok"
            if not isinstance(lst, Seq):
                bad.append("the description list becomes %r" % (lst,))
                continue
            if tuple(lst.items[:len(prior)]) != tuple(prior):
                bad.append("earlier descriptions are changed: %s" % (list(lst.items),))
                continue
            new_items = lst.items[len(prior):]
            # a path that never consults the flag is taken with describe = true as well
            if d is not False and hit:
                want_c = evalnode.constant_value(facts)
                okp = len(new_items) == 1 and isinstance(new_items[0], Agg) and new_items[0].path == "query::Description" \
                    and new_items[0].field(0) == T("text", Sym("span0")) and new_items[0].field(1) == want_c
                lk = [e for e in log if e[0] == "lookup"]
                if not okp or len(lk) != 1 or lk[0][1] != T("text", Sym("span0")):
                    bad.append("with describe = true%s and %d earlier description(s) a hit appends %s after %s; specified one lookup and exactly one Description::Constant(the looked-up text, the matched constant)%s" % (
                        "" if d is True else " (the flag is not even consulted on this path)", len(prior), list(new_items), [e[0] for e in log],
                        "" if not dom.pc(o.store) else " (path: %s)" % "; ".join("%r=%s" % (p_, b_) for p_, b_ in dom.pc(o.store))[:300]))
            elif new_items:
                bad.append("describe = %s, %s: the description list gains %s" % (d, "hit" if hit else "miss / error", list(new_items)))
        # the same results on both sides
        rt = sorted(r for r, _ in by[True])
        rf = sorted(r for r, _ in by[False])
        both = sorted(r for r, _ in by[None])
        if rt != rf:
            bad.append("results with describe = true %s differ from those with describe = false %s" % (rt[:2], rf[:2]))
        hits_t = [r for r in rt if r[0] == "ok"]
        rep.ob("C18-R2", "summary:%s" % label, not bad and len(hits_t) >= 1 and len(rf) >= 1, "; ".join(sorted(set(bad))[:3]) if bad else
               "%s: describe does not change any of the %d result paths; one description (looked-up text, matched constant) appended on a hit, none otherwise" % (label, len(rt) + len(both)),
               facts.fn("eval::eval").site(), sample={"node": kind, "paths_true": len(rt), "paths_false": len(rf)})


def r2b_operation(facts, rep):
    """The flag must not steer anything but the description list: on an OPERATION node (two operands, one operator) the
    sequence of sub-evaluations and the results are the same on both sides of the flag."""
    from ..absint import core
    from ..absint.term import Sym
    from . import evalnode, evalops
    for opk in ("OP_ADD", "OP_MUL"):
        tree = {0: {"kind": "OPERATION", "children": [1, 2, 3]}, 1: {"kind": "NUMBER", "children": []},
                2: {"kind": opk, "children": []}, 3: {"kind": "NUMBER", "children": []}}
        lk = evalnode.lookup_oracle(facts)

        def extra(dom, it, nm, args, vals, store, lk=lk):
            # the operator functions are summarised elsewhere (C01-R4); here they are effects
            if nm in ("eval::add", "eval::sub", "eval::mul", "eval::div", "eval::pow") and len(vals) == 3:
                st = dom.with_log(store, ("operator", nm))
                return [(core.ok(evalops.numeric("result")), st), (core.err(Sym("operator_error")), dom.with_log(st, ("operator-failed", nm)))]
            return lk(dom, it, nm, args, vals, store)
        try:
            dom, it, outs, dref = evalnode.run_eval(facts, tree, extra=extra, with_query=True, budget=60000)
        except core.Undecided as e:
            rep.ob("C18-R2", "operation:%s" % opk, False, "undecided: %s" % e)
            continue
        sides = {True: set(), False: set(), None: set()}
        for o in outs:
            if o.kind != "ret":
                continue
            d = dom.decide(o.store, Sym("describe"))
            u = evalops.unpack(o.value)
            evs = tuple((e[0], e[1]) for e in dom.log(o.store) if e[0] in ("eval-child", "child-failed", "operator", "operator-failed"))
            sides[d].add((u[0], repr(u[1]) if len(u) > 1 else None, evs))
        t_, f_ = sides[True] | sides[None], sides[False] | sides[None]
        okk = t_ == f_ and len(t_) >= 2
        diff = sorted(t_ ^ f_)[:2]
        rep.ob("C18-R2", "operation:%s" % opk, okk,
               "an operation evaluates its operands in the same order with the same results on both sides of the flag (%d distinct paths)" % len(t_) if okk else
               "the evaluation of an operation depends on the describe flag: %s" % diff, facts.fn("eval::eval").site())


def r3_writers(facts, rep):
    rep.rule("C18-R3", "who-writes: the only thing ever done to a Vec<Description> by the library is Vec::push, from the evaluator "
                       "(module eval) or from a function only the evaluator uses (census of every call that takes such a vector "
                       "mutably, by type - wherever the query keeps it); a Query is constructed only by query::query")
    cg = CallGraph(facts)
    ev_own = cg.exclusive("eval::eval") if "eval::eval" in cg.local else set()
    n = 0
    READERS = ("::len", "::iter", "::is_empty", "::as_slice", "::deref", "::as_deref", "::as_ref", "::first", "::last", "::get", "::clone", "::fmt", "::eq")
    for b in facts.lib_bodies():
        if b.from_derive():
            continue
        for blk, t, sp, name in b.calls():
            g = t["callee"].get("generics", "") if t["callee"]["k"] == "direct" else ""
            if not t["args"] or name in cg.local:
                continue
            a0 = t["args"][0]
            ty0 = b.local_ty(a0["place"]["local"]) if a0["k"] in ("copy", "move") and not a0["place"]["proj"] else ""
            ty0 = ty0.replace("& mut", "&mut")
            # by type: the receiver is a mutable reference to a vector or slice of descriptions (sort_by through DerefMut,
            # iter_mut, last_mut ...), or a Vec / slice / Extend method instantiated at Description
            core_ty = re.sub(r"'[a-z_{}]+ ", "", ty0[4:].strip()) if ty0.startswith("&mut") else ""
            mut_recv = (core_ty.startswith("std::vec::Vec<query::Description") or core_ty.startswith("[query::Description")
                        or core_ty.startswith("&mut std::vec::Vec<query::Description") or core_ty.startswith("&mut [query::Description"))
            on_vec = (name.startswith("std::vec::Vec::<") or name.startswith("core::slice::<impl [T]>::") or
                      name.startswith("std::slice::<impl [T]>::") or "Extend" in name) and "query::Description" in g
            if not (on_vec or mut_recv):
                continue
            m = "::" + name.rsplit("::", 1)[-1]
            if (m in READERS or m.startswith("::iter")) and not m.startswith("::iter_mut"):
                continue
            if m in ("::deref_mut", "::as_mut_slice", "::as_mut", "::borrow_mut"):
                # only hands out the slice: what is done with it is looked at where it is done (by the receiver's type)
                continue
            # does it take the vector mutably?
            if not mut_recv and m not in ("::push", "::clear", "::pop", "::insert", "::remove", "::truncate", "::extend", "::drain", "::retain", "::swap_remove", "::append", "::sort", "::reverse", "::dedup"):
                continue
            n += 1
            top = b.path.split("::{closure")[0]
            okk = name.startswith("std::vec::Vec::<T, A>::push") and ((top.startswith("eval::") and not top.startswith("eval::builtin")) or top in ev_own)
            rep.ob("C18-R3", "use:%s:%s" % ("eval" if top.startswith("eval::") else top, name.split("::")[-1]), okk,
                   "a Vec<Description> is passed mutably to %s in %s" % (name, b.path), b.site(sp))
        for blk, i, s in b.stmts():
            rv = s["rv"]
            if rv["k"] == "aggregate" and rv["kind"].get("path") == "query::Query":
                rep.ob("C18-R3", "construct:%s" % b.path, b.path == "query::query", "a Query is constructed in %s" % b.path,
                       b.site(s["span"]))
    rep.floor("C18-R3", "mutating uses of a Vec<Description>", n, 1)


def r4_no_index_mutation(facts, rep):
    rep.rule("C18-R4", "evaluation cannot reach any index-mutating or file-system call (call-graph reachability from "
                       "eval::eval and Query::next); query() takes &Db and Db::lookup takes &self; Db has no interior "
                       "mutability of its own")
    cg = CallGraph(facts)
    roots = ["eval::eval", "<query::Query<'_> as std::iter::Iterator>::next"]
    for r in roots:
        if r not in cg.local:
            rep.ob("C18-R4", "anchor:" + r, False, "anchor %s not found" % r)
    bad = lambda n: (n.startswith("tantivy::IndexWriter::") or n.startswith("tantivy::Index::writer") or
                     n == "tantivy::IndexReader::reload" or n.startswith("std::fs::") or n.startswith("tantivy::Index::create")
                     or n == "db::Db::open_inner" or n == "db::Db::load_bytes" or n == "config::Config::write_meta")
    chain = cg.path_to(roots, bad)
    reach = cg.reachable(roots)
    rep.count("functions reachable from evaluation", len([x for x in reach if x in cg.local]))
    rep.ob("C18-R4", "no-mutation-reachable", chain is None,
           "evaluation reaches no index / file-system mutation" if chain is None else "call chain: " + " -> ".join(chain),
           sample={"reachable_local_functions": len([x for x in reach if x in cg.local])})
    q = facts.fn("query::query")
    if q is not None:
        tys = [q.local_ty(i) for i in range(1, q.arg_count + 1)]
        dbty = [t for t in tys if "db::Db" in t]
        rep.ob("C18-R4", "query:&Db", bool(dbty) and all(t.startswith("&") and "mut" not in t.split("db::Db")[0] for t in dbty),
               "query() receives the database as %s" % dbty, q.site())
    lk = facts.fn("db::Db::lookup")
    if lk is not None:
        t = lk.local_ty(1)
        rep.ob("C18-R4", "lookup:&self", t.startswith("&") and "mut" not in t.split("db::Db")[0], "Db::lookup takes self as %s" % t, lk.site())
    adt = facts.adt("db::Db")
    if adt is not None:
        tys = [f["ty"] for f in adt["variants"][0]["fields"]]
        inter = [t for t in tys if any(w in t for w in ("Cell<", "RefCell<", "Mutex<", "RwLock<", "Atomic", "UnsafeCell"))]
        rep.ob("C18-R4", "Db:no-interior-mutability", not inter, "Db fields with interior mutability: %s" % inter)
    qadt = facts.adt("query::Query")
    if qadt is not None:
        tys = {f["name"]: f["ty"] for f in qadt["variants"][0]["fields"]}
        t = tys.get("db", "")
        rep.ob("C18-R4", "Query.db:&Db", t.startswith("&") and "mut" not in t.split("db::Db")[0], "Query.db has type %s" % t)


def run(fx, rep, tier):
    for cfg, facts in fx.items():
        sub = rep if cfg == "dev" else type(rep)(rep.prop, rep.tier)
        r1_r2(facts, sub)
        r2b_operation(facts, sub)
        r3_writers(facts, sub)
        r4_no_index_mutation(facts, sub)
        if cfg == "dev":
            sub.rule("C18-R5", "the descriptions reach the user in evaluation order, each with its own constant: the command line prints "
                               "them in recorded order (shared with C19-R4)")
            from . import c19
            s5 = type(rep)(rep.prop, rep.tier)
            c19.run({"dev": facts}, s5, "quick", shares=False)
            for o in s5.obls:
                # ... and every result is reported: an evaluation error does not end the run before the report is written
                if o["rule"] == "C19-R4" or (o["rule"] == "C19-R1" and (o["key"].startswith("early-exit") or o["key"].startswith("loop-continues"))):
                    o["rule"] = "C18-R5"
                    sub.obls.append(o)
            # a looked-up fact can only be reported by a session whose index was built, committed and reloaded before the
            # first lookup (a reader that reloads "some time after the commit" answers the first queries from an empty index)
            sub.rule("C18-R6", "each query is answered from the complete index: every session builds, commits and reloads before "
                               "it hands out the database (shared with C15-R6)")
            from . import c15
            s6 = type(rep)(rep.prop, rep.tier)
            c15.r6_session(facts, s6, rule="C18-R6")
            for o in s6.obls:
                sub.obls.append(o)
        if sub is not rep:
            for o in sub.obls:
                o["key"] += "[rel]"
                rep.obls.append(o)
