"""C10 - rounding functions return the mathematically defined integer or decimal."""
from ..absint import core, classes
from ..absint.core import Ref, Agg, TOP

LEVEL = "other"


def spec_form(fn, cls):
    """Independent specification of floor / ceil / round-half-away-from-zero as a form over the class."""
    (lo, hi), f = cls
    nonneg = lo is not None and lo >= 0
    Q = classes.Q
    if fn == "floor":
        return Q("fl", 0)
    if fn == "ceil":
        return Q("fl", 0) if f == "0" else Q("fl", 1)
    if fn == "round":
        if f in ("0", "lo"):
            return Q("fl", 0)
        if f == "hi":
            return Q("fl", 1)
        return Q("fl", 1) if nonneg else Q("fl", 0)  # exact half: away from zero
    raise KeyError(fn)


def r1_classes(fx, rep, tier):
    rep.rule("C10-R1", "class-table abstract interpretation of Rational::{floor,ceil,round}: for each class (N,f) of "
                       "a finite partition of Q the MIR path is followed with exact transfer functions for the num "
                       "calls and the resulting form must equal floor(x) / ceil(x) / round-half-away(x) on that class")
    for cfg, facts in fx.items():
        part = classes.partition(fine=(tier == "thorough"))
        for fn in ("floor", "ceil", "round"):
            body = facts.fn("rational::Rational::" + fn)
            if body is None:
                rep.ob("C10-R1", "anchor:rational::Rational::%s[%s]" % (fn, cfg), False,
                       "anchor function rational::Rational::%s not found" % fn)
                continue
            rep.count("functions")
            for cls in part:
                key = "%s:class=%s%s" % (fn, classes.class_name(cls), "" if cfg == "dev" else "[rel]")
                dom = classes.ClassDomain(cls)
                it = core.Interp(facts, dom)
                store = {(0, 0): classes.rational_of(classes.Q("x", 0))}
                try:
                    outs = it.run(body, [Ref(0, 0)], store)
                except core.Undecided as e:
                    rep.ob("C10-R1", key, False, "undecided: %s" % e, body.site())
                    continue
                want = dom.canon(spec_form(fn, cls))
                got = []
                okk = bool(outs)
                for o in outs:
                    if o.kind != "ret":
                        okk = False
                        got.append("%s at %s" % (o.kind, o.site))
                        continue
                    v = o.value
                    q = v.field(0) if isinstance(v, Agg) and v.path == "rational::Rational" else TOP
                    q = dom.canon(q) if isinstance(q, (classes.Q, classes.QC)) else q
                    got.append(repr(q))
                    if q != want:
                        okk = False
                rep.ob("C10-R1", key, okk,
                       "Rational::%s on class %s returns %s, specification %r%s" % (
                           fn, classes.class_name(cls), " | ".join(got) or "nothing", want,
                           "" if okk else "  (x = any rational with floor(x) in N and fractional part f)"),
                       body.site(), sample={"fn": fn, "class": classes.class_name(cls), "result": got, "spec": repr(want)})
    rep.floor("C10-R1", "rounding functions", rep.analysed.get("functions", 0), 3)


def run(fx, rep, tier):
    rep.assume("num::BigRational's trunc/floor/ceil/round/denom behave as documented (transfer functions are written "
               "from num-rational's documentation, not from this repository)")
    r1_classes(fx, rep, tier)
