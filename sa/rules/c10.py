"""C10 - rounding functions return the mathematically defined integer or decimal."""
from ..absint import core, classes
from ..absint.core import Ref, Agg, TOP

LEVEL = "other"


def spec_form(fn, cls):
    """Independent specification of floor / ceil / round-half-away-from-zero as a form over the class."""
    (lo, hi), f = cls
    nonneg = lo is not None and lo >= 0
    Q = classes.Q
    if fn == "floor":
        return Q("fl", 0)
    if fn == "ceil":
        return Q("fl", 0) if f == "0" else Q("fl", 1)
    if fn == "round":
        if f in ("0", "lo"):
            return Q("fl", 0)
        if f == "hi":
            return Q("fl", 1)
        return Q("fl", 1) if nonneg else Q("fl", 0)  # exact half: away from zero
    raise KeyError(fn)


def r1_classes(fx, rep, tier):
    rep.rule("C10-R1", "class-table abstract interpretation of Rational::{floor,ceil,round}: for each class (N,f) of "
                       "a finite partition of Q the MIR path is followed with exact transfer functions for the num "
                       "calls and the resulting form must equal floor(x) / ceil(x) / round-half-away(x) on that class")
    for cfg, facts in fx.items():
        part = classes.partition(fine=(tier == "thorough"))
        for fn in ("floor", "ceil", "round"):
            body = facts.fn("rational::Rational::" + fn)
            if body is None:
                rep.ob("C10-R1", "anchor:rational::Rational::%s[%s]" % (fn, cfg), False,
                       "anchor function rational::Rational::%s not found" % fn)
                continue
            rep.count("functions")
            for cls in part:
                key = "%s:class=%s%s" % (fn, classes.class_name(cls), "" if cfg == "dev" else "[rel]")
                dom = classes.ClassDomain(cls)
                it = core.Interp(facts, dom)
                store = {(0, 0): classes.rational_of(classes.Q("x", 0))}
                try:
                    outs = it.run(body, [Ref(0, 0)], store)
                except core.Undecided as e:
                    rep.ob("C10-R1", key, False, "undecided: %s" % e, body.site())
                    continue
                want = dom.canon(spec_form(fn, cls))
                got = []
                okk = bool(outs)
                for o in outs:
                    if o.kind != "ret":
                        okk = False
                        got.append("%s at %s" % (o.kind, o.site))
                        continue
                    v = o.value
                    q = v.field(0) if isinstance(v, Agg) and v.path == "rational::Rational" else TOP
                    q = dom.canon(q) if isinstance(q, (classes.Q, classes.QC)) else q
                    got.append(repr(q))
                    if q != want:
                        okk = False
                rep.ob("C10-R1", key, okk,
                       "Rational::%s on class %s returns %s, specification %r%s" % (
                           fn, classes.class_name(cls), " | ".join(got) or "nothing", want,
                           "" if okk else "  (x = any rational with floor(x) in N and fractional part f)"),
                       body.site(), sample={"fn": fn, "class": classes.class_name(cls), "result": got, "spec": repr(want)})
    rep.floor("C10-R1", "rounding functions", rep.analysed.get("functions", 0), 3)


def run(fx, rep, tier):
    rep.assume("num::BigRational's trunc/floor/ceil/round/denom behave as documented (transfer functions are written "
               "from num-rational's documentation, not from this repository)")
    r1_classes(fx, rep, tier)


# ---- R2..R6: path summaries of the builtin functions -------------------------------------------------------
from ..absint import term as TM  # noqa: E402
from ..absint.term import Sym, T, K, VecV, TermDomain  # noqa: E402
from ..absint.core import Const  # noqa: E402


def numeric(i):
    return Agg("adt", "numeric::Numeric", 0, "Numeric",
               (Agg("adt", "rational::Rational", 0, "Rational", (Sym("x%d" % i),)), Sym("u%d" % i)))


def unpack_result(v):
    """-> ('ok', value term, unit) | ('err', kind name, fields) | ('?', v)"""
    if isinstance(v, Agg) and v.path == "std::result::Result":
        p = v.field(0)
        if v.vi == 0 and isinstance(p, Agg) and p.path == "numeric::Numeric":
            val = p.field(0)
            if isinstance(val, Agg) and val.path == "rational::Rational":
                val = val.field(0)
            return ("ok", val, p.field(1))
        if v.vi == 1 and isinstance(p, Agg) and p.path == "error::Error":
            k = p.field(1)
            if isinstance(k, Agg):
                return ("err", k.vname, k.fields, p.field(0))
            return ("err", "?", (), p.field(0))
    return ("?", v)


def summarize(facts, path, nargs, oracle=None):
    dom = TermDomain(oracle=oracle)
    it = core.Interp(facts, dom)
    body = facts.fn(path)
    outs = it.run(body, [Sym("span"), VecV([numeric(i) for i in range(nargs)])], {})
    return dom, it, body, outs


def value_ok(dom, store, fn, got, n_term=None):
    """Is `got` the specified value of fn(x0[, n]) on this path?  Accepted idioms are enumerated here."""
    x = Sym("x0")
    if fn in ("floor", "ceil"):
        if got == T(fn, x):
            return True
        return got == x and dom.entails(store, T("is_integer", x))
    if fn == "round" and n_term is None:
        if got == T("round", x):
            return True
        return got == x and dom.entails(store, T("is_integer", x))
    if fn == "round":
        n = n_term
        # round(x, n) = round(x * 10^n) / 10^n
        p10 = T("pow", K(10), n)
        if got in (T("/", T("round", T("*", x, p10)), p10), T("/", T("round", T("*", p10, x)), p10)):
            return True
        # equivalently scale by 10^-n the other way round
        m10 = T("pow", K(10), T("Neg", n))
        if got in (T("*", T("round", T("/", x, m10)), m10),):
            return True
        # lemma: an integer is a multiple of 10^-n for n >= 0
        if got == x and dom.entails(store, T("is_integer", x)) and dom.entails(store, T("Ge", n, Const(0))):
            return True
        # lemma: 10^0 = 1
        if got == T("round", x) and dom.entails(store, T("Eq", n, Const(0))):
            return True
        return False
    return False


def r2_builtins(fx, rep, tier):
    rep.rule("C10-R2", "path summary (symbolic terms + path conditions) of builtin::{floor,ceil,round} for 0..3 "
                       "arguments: on every explored path with the right number of arguments the result value is the "
                       "specified term (floor(x0), ceil(x0), round(x0), round(x0*10^n)/10^n, or an enumerated lemma "
                       "instance), nothing else")
    rep.rule("C10-R4", "the unit of every Ok result is the first argument's unit")
    rep.rule("C10-R5", "a wrong number of arguments reaches only Err(ArgumentMismatch); the right number never does")
    rep.rule("C10-R6", "no explored path of a rounding builtin ends in a panic (debug assertions included): every "
                       "debug_assert!(value.denom().is_one()) is discharged by the integrality facts on its path")
    arities = {"floor": (1,), "ceil": (1,), "round": (1, 2)}
    maxn = 4 if tier == "thorough" else 3
    for cfg, facts in fx.items():
        tag = "" if cfg == "dev" else "[rel]"
        for fn, good in arities.items():
            path = "eval::builtin::" + fn
            if facts.fn(path) is None:
                rep.ob("C10-R2", "anchor:%s%s" % (path, tag), False, "anchor function %s not found" % path)
                continue
            rep.count("builtin functions")
            for k in range(0, maxn + 1):
                try:
                    dom, it, body, outs = summarize(facts, path, k)
                except core.Undecided as e:
                    rep.ob("C10-R2", "%s/%d%s" % (fn, k, tag), False, "undecided: %s" % e)
                    continue
                rep.count("paths", len(outs))
                n_ok = n_err = 0
                for o in outs:
                    pc = dom.pc(o.store)
                    pcs = "; ".join("%r=%s" % (p, b) for p, b in pc) or "true"
                    if o.kind != "ret":
                        rep.ob("C10-R6", "%s/%d:panic:%s%s" % (fn, k, _pc_key(pc), tag), False,
                               "builtin %s with %d argument(s) can panic (%s) on the path where %s" % (fn, k, o.value, pcs),
                               o.site, excerpt={"pc": pcs})
                        continue
                    u = unpack_result(o.value)
                    if u[0] == "ok":
                        n_ok += 1
                        _, val, unit = u
                        rep.ob("C10-R5", "%s/%d:ok:%s%s" % (fn, k, _pc_key(pc), tag), k in good,
                               "builtin %s returns Ok with %d argument(s)" % (fn, k), o.site)
                        if k not in good:
                            continue
                        nterm = None
                        if k == 2:
                            nterm = T("to_i32", Sym("x1"))
                        okv = value_ok(dom, o.store, fn, val, nterm)
                        rep.ob("C10-R2", "%s/%d:value:%s%s" % (fn, k, _pc_key(pc), tag), okv,
                               "builtin %s(%s) returns %r on the path where %s" % (
                                   fn, ", ".join("x%d" % i for i in range(k)), val, pcs), o.site,
                               sample={"fn": fn, "args": k, "path_condition": pcs, "value": repr(val)})
                        rep.ob("C10-R4", "%s/%d:unit:%s%s" % (fn, k, _pc_key(pc), tag), unit == Sym("u0"),
                               "unit of the result is %r, expected the first argument's unit u0" % (unit,), o.site)
                    elif u[0] == "err":
                        n_err += 1
                        kind = u[1]
                        if k in good:
                            # only a conversion failure of the digits argument may be an error
                            okk = (kind == "BadArgument" and k == 2 and
                                   dom.decide(o.store, T("fits_i32", Sym("x1"))) is False)
                            rep.ob("C10-R5", "%s/%d:err:%s:%s%s" % (fn, k, kind, _pc_key(pc), tag), okk,
                                   "builtin %s with %d argument(s) returns Err(%s) on the path where %s" % (fn, k, kind, pcs),
                                   o.site)
                        else:
                            rep.ob("C10-R5", "%s/%d:err:%s%s" % (fn, k, kind, tag), kind == "ArgumentMismatch",
                                   "builtin %s with %d argument(s) returns Err(%s)" % (fn, k, kind), o.site)
                    else:
                        rep.ob("C10-R2", "%s/%d:shape%s" % (fn, k, tag), False,
                               "unrecognised result shape %r" % (o.value,), o.site)
                if k in good:
                    rep.ob("C10-R5", "%s/%d:some-ok%s" % (fn, k, tag), n_ok > 0,
                           "builtin %s with %d argument(s) has %d Ok path(s)" % (fn, k, n_ok), body.site())
                else:
                    rep.ob("C10-R5", "%s/%d:all-err%s" % (fn, k, tag), n_ok == 0 and n_err > 0,
                           "builtin %s with %d argument(s): %d Ok, %d Err path(s)" % (fn, k, n_ok, n_err), body.site())
    rep.floor("C10-R2", "builtin rounding functions", rep.analysed.get("builtin functions", 0), 3)


def _pc_key(pc):
    return "&".join("%s%r" % ("" if b else "!", p) for p, b in pc) or "true"


def r7_dispatch(fx, rep, tier):
    rep.rule("C10-R7", "the name table eval::builtin() maps \"floor\", \"ceil\", \"round\" to the functions of the same name")
    facts = fx["dev"]
    from .. import tables
    tbl = tables.builtin_table(facts)
    for nm in ("floor", "ceil", "round"):
        got = tbl.get(nm)
        rep.ob("C10-R7", "name:" + nm, got == "eval::builtin::" + nm,
               "builtin(\"%s\") resolves to %s" % (nm, got), facts.fn("eval::builtin").site() if facts.fn("eval::builtin") else "")


_run1 = run


def run(fx, rep, tier):  # noqa: F811
    _run1(fx, rep, tier)
    r2_builtins(fx, rep, tier)
    r7_dispatch(fx, rep, tier)
    # round(x, n) with a negative n is written `round(x, -2)`: the sign belongs to the literal in every argument position
    from . import c12
    c12.r10_forward_only(fx["dev"], rep, "C10-R8")
