"""C08 - printed decimals are faithful and never silently truncated.

The formatter is checked as a transducer, inductively, on its MIR: the digit generator step (long division), the
splitting of the value, the dispatch between the three forms, and for each form the prologue, one arbitrary turn of
every loop from an arbitrary loop state, and the epilogue.  What is printed is compared as a sequence of atoms (literal
text / printed value terms); value terms are compared semantically (absint.evalterm)."""
from fractions import Fraction

from .. import facts as F
from ..absint import core
from ..absint.core import Agg, Const, TOP, Ref, UNIT, some, NONE
from ..absint.term import TermDomain, Sym, T, K
from ..absint import evalterm
from ..numnames import classify
from .common import anchor

LEVEL = "other"

FMT = "<rational::display::Display<'_> as std::fmt::Display>::fmt"
EMIT_HINT = "emit"

WRITE_CHAR = ("<std::fmt::Formatter<'_> as std::fmt::Write>::write_char",)
WRITE_STR = ("std::fmt::Formatter::<'a>::write_str", "<std::fmt::Formatter<'_> as std::fmt::Write>::write_str")
WRITE_FMT = ("std::fmt::Formatter::<'a>::write_fmt", "<std::fmt::Formatter<'_> as std::fmt::Write>::write_fmt")

FSYM = Sym("f")


def is_display_fmt(name):
    # `std::fmt::Display::fmt` unresolved: the call in a helper that is generic over the digit type (`I::Item: Display`)
    return (name.endswith(" as std::fmt::Display>::fmt") and not name.startswith("<rational::")) \
        or name == "std::fmt::Display::fmt" \
        or (name.startswith("core::fmt::num::") and name.endswith(">::fmt") and "Display for" in name)


def gen(clos):
    return Agg("gen", None, None, None, (clos,))


def take(inner, n):
    return Agg("take", None, None, None, (inner, n))


def peekv(k):
    return Agg("peek", None, None, None, (Const(k),))


# digit generators written as a struct of the crate with its own Iterator impl (instead of iter::from_fn over a closure):
# {adt path: {"next": path of its next(), "rem": index of the &mut BigInt field, "den": index of the other}}
GEN_ADTS = {}


def _as_int(v):
    """A concrete integer value (K constant or machine constant), else None."""
    if isinstance(v, K) and v.v.denominator == 1:
        return int(v.v)
    if isinstance(v, Const) and isinstance(v.v, int) and not isinstance(v.v, bool):
        return v.v
    return None


def kind(v):
    if isinstance(v, Agg) and v.kind == "adt" and v.path in GEN_ADTS:
        return "gen"
    return v.kind if isinstance(v, Agg) else None


def clos_view(v):
    """The generator's (code, remainder ref, denominator ref) as a closure-like value: fields (rem, den), path = its code."""
    if v.kind == "gen":
        return v.field(0)
    g = GEN_ADTS[v.path]
    return Agg("closure", g["next"], None, None, (v.field(g["rem"]), v.field(g["den"])))


class PrinterDomain(TermDomain):
    """Term domain + an output log + models of the iterator adaptors the formatter uses."""

    def __init__(self, facts, no_inline=()):
        super().__init__(no_inline=no_inline)
        self.facts = facts
        self.uninterp = lambda n: facts.fn(n) is None or n in self.no_inline
        self.any_closures = []

    def on_assert(self, it, body, t, sp, st, frame):
        return False  # overflow assertions of the counters: C11's subject, not the text

    # ---- output log: atoms ('lit', text) / ('val', term) -------------------------------------------------------
    @staticmethod
    def out(store):
        return store.get(("out",), ())

    @staticmethod
    def emit_atom(store, atom):
        s = dict(store)
        o = list(store.get(("out",), ()))
        if atom[0] == "lit" and o and o[-1][0] == "lit":
            o[-1] = ("lit", o[-1][1] + atom[1])
        else:
            o.append(atom)
        if len(o) > 40:
            raise core.Undecided("more than 40 output atoms on one path")
        s[("out",)] = tuple(o)
        return s

    def write_value(self, store, v):
        if isinstance(v, Const) and isinstance(v.v, int) and not isinstance(v.v, bool):
            return self.emit_atom(store, ("val", v))
        if isinstance(v, Const) and isinstance(v.v, str):
            return self.emit_atom(store, ("lit", v.v))
        return self.emit_atom(store, ("val", v))

    # ---- calls ---------------------------------------------------------------------------------------------------
    def call(self, it, name, args, store, term, frame):
        vals = [it.read_ref(store, a) for a in args]
        okv = core.ok(UNIT)
        if name in WRITE_CHAR and len(vals) == 2:
            c = vals[1]
            if isinstance(c, Const) and isinstance(c.v, int):
                return [(okv, self.emit_atom(store, ("lit", chr(c.v))))]
            return [(okv, self.emit_atom(store, ("val", c)))]
        if name in WRITE_STR and len(vals) == 2:
            s = vals[1]
            if isinstance(s, Const) and isinstance(s.v, str):
                return [(okv, self.emit_atom(store, ("lit", s.v)))]
            if isinstance(s, Const) and isinstance(s.v, bytes):
                return [(okv, self.emit_atom(store, ("lit", s.v.decode("utf-8", "replace"))))]
            return [(okv, self.emit_atom(store, ("val", s)))]
        if name in WRITE_FMT and len(vals) == 2:
            a = vals[1]
            if isinstance(a, T) and a.op == "fmt" and isinstance(a.args[0], Const):
                st = store
                rest = list(a.args[1:])
                for piece in a.args[0].v:
                    if piece is None:
                        if not rest:
                            raise core.Undecided("format template with more holes than arguments")
                        x = rest.pop(0)
                        if isinstance(x, T) and x.op in ("display",) and len(x.args) == 1:
                            x = x.args[0]
                        elif isinstance(x, T) and x.op not in ("display",) and x.op in ("debug", "lower_exp", "upper_exp", "lower_hex"):
                            raise core.Undecided("a value is printed with a non-Display format")
                        st = self.write_value(st, x)
                    else:
                        st = self.emit_atom(st, ("lit", piece))
                return [(okv, st)]
            raise core.Undecided("write_fmt with an unrecognised template")
        if is_display_fmt(name) and len(vals) == 2:
            return [(okv, self.write_value(store, vals[0]))]
        # ---- iterator adaptors ------------------------------------------------------------------------------------
        if name == "std::iter::from_fn" and len(vals) == 1:
            return [(gen(vals[0]), store)]
        def own(v_):
            """One of this domain's iterator values (generator, Take over one, scripted digit string, integer range)?"""
            for _ in range(4):
                if isinstance(v_, Ref):
                    v_ = it.read_ref(store, v_)
            return kind(v_) in ("gen", "take", "peek", "chars") or (isinstance(v_, Agg) and v_.path == "std::ops::Range")
        if name == "std::iter::Iterator::take" and len(args) == 2 and own(vals[0]):
            inner = args[0] if isinstance(args[0], Ref) else vals[0]
            return [(take(inner, vals[1]), store)]
        if name == "std::iter::Iterator::by_ref" and len(args) == 1 and own(vals[0]):
            return [(args[0], store)]
        if (name.endswith("IntoIterator>::into_iter") or name == "std::iter::IntoIterator::into_iter") and len(vals) == 1 \
                and (kind(vals[0]) in ("gen", "take", "peek") or (isinstance(vals[0], Agg) and vals[0].path == "std::ops::Range")):
            # `for x in &mut it`: the loop drives the iterator it borrows
            return [(args[0] if isinstance(args[0], Ref) else vals[0], store)]
        if name in ("std::mem::drop",):
            return [(UNIT, store)]
        if getattr(self, "_own_next", None) == name:
            # the generator struct's own next(), entered from iter_next: analyse its body
            self._own_next = None
            return None
        if name.endswith("as std::iter::Iterator>::next") or name == "std::iter::Iterator::next" \
                or name == "std::iter::range::<impl std::iter::Iterator for std::ops::Range<A>>::next":
            r = self.iter_next(it, args[0], store) if own(args[0]) else None
            if r is not None:
                return r
        if name == "std::iter::Peekable::<I>::peek" and kind(vals[0]) == "peek":
            item = self.script_item(store, vals[0])
            if item == "EOF":
                return [(NONE, store)]
            return [(some(item), store)]
        if name.endswith("as std::iter::Iterator>::count") and kind(vals[0]) == "peek_any":
            return [(T("rest_after_any", Sym("pos%d" % vals[0].field(0).v)), store)]
        if name.endswith("as std::iter::Iterator>::count") and kind(vals[0]) == "peek":
            if self.script_item(store, vals[0]) == "EOF":
                return [(Const(0), store)]
            return [(T("rest_len", Sym("pos%d" % vals[0].field(0).v)), store)]
        if name in ("std::iter::Iterator::any",) or name.endswith("as std::iter::Iterator>::any"):
            target = it.read_ref(store, vals[0]) if isinstance(vals[0], Ref) else vals[0]
            if kind(target) == "peek":
                c = Sym("anychar")
                res = it.apply_closure(vals[1], [c], store, getattr(it, "_cur_depth", 0))
                preds = sorted({repr(v) for k_, v, s_ in (res or [])})
                self.any_closures.append(preds)
                # `any` drives the iterator it is called on: whatever is looked at afterwards (count, peek) is what is left
                # after the scan - harmless on a clone, not on the iterator the exponent is counted from
                st_any = store
                if isinstance(vals[0], Ref):
                    st_any = it.write_ref(store, vals[0], Agg("peek_any", None, None, None, (target.field(0),)))
                return self.fork(st_any, T("rest_nonzero", Sym("pos%d" % target.field(0).v)))
        if name == "std::option::Option::<T>::is_some" and isinstance(vals[0], Agg) and vals[0].path == "std::option::Option":
            return [(Const(vals[0].vi == 1), store)]
        if name == "std::option::Option::<T>::is_none" and isinstance(vals[0], Agg) and vals[0].path == "std::option::Option":
            return [(Const(vals[0].vi == 0), store)]
        if name.endswith("as std::string::ToString>::to_string") and len(vals) == 1:
            n_ = store.get(("digits_n",))
            if n_ is not None:
                # bounded mode: the decimal string of the whole part has n symbolic digit characters
                from ..absint.stdmodels import Seq
                s2 = dict(store)
                s2[("digits_of",)] = vals[0]
                return [(Seq(tuple(Sym("c%d" % i) for i in range(n_))), s2)]
            return [(T("decimal", vals[0]), store)]
        if type(vals[0]).__name__ == "Seq" if vals else False:
            # a string of symbolic digits (bounded mode): the generic sequence / iterator models apply
            from ..absint.stdmodels import Seq, it_list
            m_ = name.rsplit("::", 1)[-1]
            if name.startswith("core::str::<impl str>::") or name.startswith("std::string::String::"):
                if m_ == "len":
                    return [(Const(len(vals[0].items)), store)]
                if m_ == "is_empty":
                    return [(Const(not vals[0].items), store)]
                if m_ == "chars":
                    return [(it_list(vals[0].items), store)]
                if m_ == "split_at" and len(vals) == 2 and isinstance(vals[1], Const):
                    k_ = vals[1].v
                    if k_ > len(vals[0].items):
                        return [("panic", store)]
                    return [(Agg("tuple", None, None, None, (Seq(vals[0].items[:k_]), Seq(vals[0].items[k_:]))), store)]
                if m_ in ("as_str", "as_ref", "deref"):
                    return [(vals[0], store)]
            if name == "<std::string::String as std::ops::Deref>::deref":
                return [(vals[0], store)]
            return None
        if name in ("<std::string::String as std::ops::Deref>::deref", "std::string::String::as_str") and len(vals) == 1:
            return [(vals[0], store)]
        if name == "core::str::<impl str>::chars" and len(vals) == 1:
            return [(Agg("chars", None, None, None, (vals[0],)), store)]
        if name == "std::iter::Iterator::peekable" and kind(vals[0]) == "chars":
            s = dict(store)
            s[("peek_of",)] = vals[0].field(0)
            return [(peekv(0), s)]
        if name == "<u8 as num::Zero>::is_zero" and len(vals) == 1:
            if isinstance(vals[0], Const):
                return [(Const(vals[0].v == 0), store)]
            return self.fork(store, T("is_zero", vals[0]))
        c = classify(name)
        if c is not None and c[0] == "BigInt" and c[1] in ("div", "div_assign", "rem", "rem_assign") and len(vals) == 2:
            op = "idiv" if c[1].startswith("div") else "irem"
            r = T(op, vals[0], vals[1])
            ka, kb = _as_int(vals[0]), _as_int(vals[1])
            if ka is not None and kb not in (None, 0):
                q = abs(ka) // abs(kb) * (1 if (ka >= 0) == (kb >= 0) else -1)
                r = K(q if op == "idiv" else ka - q * kb)
            if c[1].endswith("_assign"):
                return [(UNIT, it.write_ref(store, args[0], r))]
            return [(r, store)]
        if c is not None and c[0] == "BigInt" and c[1] == "abs" and len(vals) == 1:
            return [(T("abs", vals[0]), store)]
        if c is not None and c[0] == "BigInt" and c[1] in ("div_rem", "div_mod_floor") and len(vals) == 2:
            return [(Agg("tuple", None, None, None, (T("idiv", vals[0], vals[1]), T("irem", vals[0], vals[1]))), store)]
        if c is not None and c[0] == "BigInt" and c[1] in ("div_floor", "mod_floor") and len(vals) == 2:
            return [(T("idiv" if c[1] == "div_floor" else "irem", vals[0], vals[1]), store)]
        return super().call(it, name, args, store, term, frame)

    # ---- iterators -------------------------------------------------------------------------------------------------
    def script_item(self, store, pk):
        s = store.get(("script",), None)
        k = pk.field(0).v
        if s is None or k >= len(s):
            raise core.Undecided("the formatter looks further into the digit string than one step allows")
        return s[k]

    def iter_next(self, it, ref, store):
        """next() on the iterator stored at `ref` -> list of (value, store) / ('panic', ..) outcomes, or None."""
        v = it.read_ref(store, ref) if isinstance(ref, Ref) else ref
        if isinstance(v, Ref):
            return self.iter_next(it, v, store)
        k = kind(v)
        if k == "gen":
            cap = store.get(("lead_cap",))
            if cap is not None:
                # bounded mode of the small-fraction form: at most `cap` + 1 leading zero digits are followed (a path that
                # asks for one more is beyond the bound and ends here), and never more than cap + 12 pulls
                pulled_ = store.get(("pulled",), ())
                if len(pulled_) > cap and all(zero_known(store, d_) is True for d_ in pulled_):
                    return []
                if len(pulled_) > cap + 12:
                    return []
            cv = clos_view(v)
            if v.kind == "gen":
                r = it.apply_closure(v.field(0), [], store, getattr(it, "_cur_depth", 0))
            else:
                # a generator struct: its own Iterator::next on the place that holds it
                st0 = store
                rr = ref
                if not isinstance(rr, Ref):
                    st0, rr = it.fresh_slot(store, v)
                self._own_next = cv.path
                try:
                    r = it.call_named(cv.path, [rr], st0, getattr(it, "_cur_depth", 0), skip_std=True)
                finally:
                    self._own_next = None
            if r is None:
                raise core.Undecided("generator closure without a body")
            outs = []
            for k_, val, s2 in it._norm(r):
                # ghosts: the remainder after this pull, and the digits pulled so far
                s3 = dict(s2)
                s3[("rem_now",)] = it.read_ref(s2, cv.field(0)) if isinstance(cv, Agg) else TOP
                if k_ == "ret" and isinstance(val, Agg) and val.vi == 1:
                    s3[("rems",)] = s2.get(("rems",), ()) + (s3[("rem_now",)],)
                if k_ == "ret" and isinstance(val, Agg) and val.vi == 1:
                    s3[("pulled",)] = s2.get(("pulled",), ()) + (val.field(0),)
                outs.append((k_, val, s3))
            return outs
        if k == "take":
            inner, n = v.field(0), v.field(1)
            outs = []
            if isinstance(n, Const):
                branches = [(n.v == 0, store)]
            else:
                branches = [(b.v, s) for b, s in self.fork(store, T("Eq", n, Const(0)))]
            for zero, st in branches:
                if zero:
                    outs.append((NONE, st))
                    continue
                n2 = Const(n.v - 1) if isinstance(n, Const) else T("i-", n, Const(1))
                iref = inner if isinstance(inner, Ref) else (Ref(ref.frame, ref.local, ref.proj + (0,)) if isinstance(ref, Ref) else None)
                if iref is None:
                    raise core.Undecided("Take over an iterator that is not addressable")
                for o in it._norm(self.iter_next(it, iref, st) or []):
                    kind_, val, st2 = o
                    if kind_ == "panic":
                        outs.append(o)
                        continue
                    # std: the budget is decremented before the inner iterator is asked
                    cur = it.read_ref(st2, ref)
                    st3 = it.write_ref(st2, ref, take(cur.field(0), n2))
                    outs.append(("ret", val, st3))
            return outs
        if k == "peek":
            item = self.script_item(store, v)
            if item == "EOF":
                return [(NONE, store)]
            st = it.write_ref(store, ref, peekv(v.field(0).v + 1))
            return [(some(item), st)]
        if isinstance(v, Agg) and v.path == "std::ops::Range":
            lo, hi = v.field(0), v.field(1)
            if isinstance(lo, Const) and isinstance(hi, Const):
                branches = [(lo.v < hi.v, store)]
            else:
                branches = [(b.v, s) for b, s in self.fork(store, T("Lt", lo, hi))]
            outs = []
            for lt, st in branches:
                if not lt:
                    outs.append((NONE, st))
                else:
                    lo2 = Const(lo.v + 1) if isinstance(lo, Const) else T("i+", lo, Const(1))
                    outs.append((some(lo), it.write_ref(st, ref, Agg(v.kind, v.path, v.vi, v.vname, (lo2, hi)))))
            return outs
        return None


# ---- helpers --------------------------------------------------------------------------------------------------------
def loop_heads(body):
    """Targets of back edges, outermost first."""
    cfg = body.cfg
    hs = set()
    for b in cfg.reach0:
        for s in cfg.succ[b]:
            if cfg.dominates(s, b):
                hs.add(s)
    return sorted(hs, key=lambda h: len(cfg.dom[h]))


def loop_blocks(body, head):
    cfg = body.cfg
    fw = cfg.reachable_from(head)
    return {b for b in fw if head in cfg.reachable_after(b) and cfg.dominates(head, b)}


def display_self(st, rational=Sym("x")):
    """A Display value with symbolic spec in frame 0; returns (store, ref to it)."""
    st = dict(st)
    st[(0, 801)] = Agg("adt", "rational::display::DisplaySpec", 0, "DisplaySpec", (Sym("L"), Sym("X"), Sym("show")))
    st[(0, 800)] = Agg("adt", "rational::display::Display", 0, "Display", (rational, Ref(0, 801)))
    return st, Ref(0, 800)


def pc_of(store):
    return store.get(("pc",), ())


def pc_dict(store):
    return {repr(p): b for p, b in pc_of(store)}


def describe_out(o):
    return " ".join(("'%s'" % a[1]) if a[0] == "lit" else "<%r>" % (a[1],) for a in o) or "(nothing)"


# Grid for semantic comparison of value terms: remainders 0 <= R < D, wholes, budgets.
def grid_rd():
    pts = []
    for D in (1, 2, 3, 7, 8, 10, 11, 13, 40, 97, 1000):
        for R in sorted({0, 1, 2, D // 3, D // 2, D - 2, D - 1}):
            if 0 <= R < D:
                pts.append({"R": Fraction(R), "D": Fraction(D)})
    return pts


GRID_RD = grid_rd()


# ---- R1: the digit generator -----------------------------------------------------------------------------------------
def r1_generator(facts, rep, names):
    rep.rule("C08-R1", "the digit generator is long division: one call on remainder R (0 <= R < D) returns None and leaves R "
                       "unchanged iff R = 0; otherwise it returns the digit floor(10 R / D) and leaves 10 R - D floor(10 R / D); the "
                       "generator is built from (remainder, denominator) in that order.  By induction the digits pulled are the "
                       "decimal expansion of R/D and the remainder is zero exactly when the expansion has ended")
    emit = names.get("emit")
    body = anchor(rep, "C08-R1", facts, emit) if emit else None
    if body is None:
        if not emit:
            rep.ob("C08-R1", "anchor:generator", False, "no function building the digit generator (std::iter::from_fn) was found from the formatter")
        return
    dom = PrinterDomain(facts)
    it = core.Interp(facts, dom, budget=20000)
    st = {(0, 700): Sym("R"), (0, 701): Sym("D")}
    try:
        outs = it.run(body, [Ref(0, 700), Ref(0, 701)], st)
    except core.Undecided as e:
        rep.ob("C08-R1", "generator:build", False, "undecided: %s" % e, body.site())
        return
    g = outs[0].value if len(outs) == 1 and outs[0].kind == "ret" else None
    if not rep.ob("C08-R1", "generator:build", kind(g) == "gen" and isinstance(clos_view(g), Agg) and clos_view(g).kind == "closure",
                  "%s returns the digit generator (iter::from_fn over a closure, or a struct with its own Iterator impl)" % emit, body.site()):
        return
    clos = clos_view(g)
    st1 = dict(outs[0].store)
    st1[(0, 702)] = g
    try:
        res = it._norm(dom.iter_next(it, Ref(0, 702), st1))
    except core.Undecided as e:
        rep.ob("C08-R1", "generator:step", False, "undecided: %s" % e, body.site())
        return
    R, D = Sym("R"), Sym("D")
    q = T("idiv", T("*", R, K(10)), D)
    want_rem = T("-", T("*", R, K(10)), T("*", D, q))
    seen = {"none": 0, "some": 0}
    bad = []
    cb = facts.fn(clos.path)
    for k_, val, s2 in res:
        pc = pc_dict(s2)
        zero = pc.get("is_zero(R)")
        rem2 = it.read_ref(s2, Ref(0, 700))
        den2 = it.read_ref(s2, Ref(0, 701))
        if den2 != D:
            bad.append("the denominator is modified (%r)" % (den2,))
        excused = any(("fits_u8" in p and b is False) or (p.startswith("Le(") and b is False) for p, b in pc.items())
        if k_ == "panic":
            if not excused:
                bad.append("a panic without a failed digit-range test: %s" % (val,))
            continue
        if isinstance(val, Agg) and val.path == "std::option::Option" and val.vi == 0:
            if zero is True:
                seen["none"] += 1
                if rem2 != R:
                    bad.append("the remainder changes although no digit is produced (%r)" % (rem2,))
            elif not excused:
                bad.append("None is returned although the remainder is not zero (path %s)" % pc)
            continue
        if isinstance(val, Agg) and val.path == "std::option::Option" and val.vi == 1:
            if zero is not False:
                bad.append("a digit is produced without the remainder having been tested non-zero")
                continue
            seen["some"] += 1
            try:
                e1, w1 = evalterm.sem_eq(val.field(0), q, [p for p in GRID_RD if p["R"] != 0])
                e2, w2 = evalterm.sem_eq(rem2, want_rem, [p for p in GRID_RD if p["R"] != 0])
            except evalterm.Unrecognised as e:
                bad.append("unrecognised term: %s (digit %r, remainder %r)" % (e, val.field(0), rem2))
                continue
            if not e1:
                bad.append("the digit is %r; specified floor(10 R / D); differs at %s" % (val.field(0), w1))
            if not e2:
                bad.append("the remainder becomes %r; specified 10 R - D floor(10 R / D); differs at %s" % (rem2, w2))
            continue
        bad.append("unexpected result %r" % (val,))
    if seen["none"] != 1 or seen["some"] != 1:
        bad.append("expected exactly one empty and one digit-producing path, found %s" % seen)
    rep.ob("C08-R1", "generator:step", not bad, "; ".join(bad[:4]) if bad else
           "None iff R = 0 (R unchanged); else digit floor(10R/D), remainder 10R - D floor(10R/D); other paths only behind a failed digit-range test (excluded by 0 <= R < D)",
           cb.site() if cb else body.site(), sample={"paths": len(res)})



# ---- segments: exploration between stop points ----------------------------------------------------------------------
class Seg:
    __slots__ = ("end", "value", "out", "pc", "store", "pulled", "kind", "site", "frame", "body", "iseg")

    def __init__(self, iseg):
        self.iseg = iseg
        self.kind = iseg.kind
        self.end = iseg.loop if iseg.kind == "stop" else iseg.kind
        self.value = iseg.value
        self.store = iseg.store
        self.out = iseg.store.get(("out",), ())
        self.pc = pc_dict(iseg.store)
        self.pulled = iseg.store.get(("pulled",), ())
        self.site = iseg.site
        self.frame = iseg.frame
        self.body = iseg.body

    def __repr__(self):
        return "<seg ->%s out=%s pc=%s>" % (self.end, describe_out(self.out), self.pc)


class Harness:
    """Exploration between loop heads (absint/induct.py): the loops may sit in the analysed function or in helpers it calls.
    A loop is identified by (function path, block); `heads` lists those of the analysed function first."""

    def __init__(self, facts, body, no_inline=()):
        from ..absint import induct
        self.facts, self.body = facts, body
        self.no_inline = set(no_inline)
        self.ind = induct.Induct(facts, body, lambda: PrinterDomain(facts, no_inline=self.no_inline), budget=80000, exclude=self.no_inline)
        own = [(body.path, h_) for h_ in loop_heads(body)]
        self.heads = own + [l for l in self.ind.all_loops() if l not in own]
        self.arrivals = {}
        self.dom = None
        self.it = None
        self.any_closures = []

    def _wrap(self, isegs):
        self.dom, self.it = self.ind.dom, self.ind.it
        self.any_closures.extend(self.dom.any_closures)
        out = []
        for g in isegs:
            sg = Seg(g)
            if sg.kind == "stop" and sg.end not in self.arrivals:
                self.arrivals[sg.end] = g
            out.append(sg)
        return out

    def run(self, args=None, start=None, extra=None):
        if start is None:
            return self._wrap(self.ind.from_entry(args, dict(extra or {})))
        H, st0 = start
        st = dict(st0)
        st[("pc",)] = tuple((extra or {}).get("pc", ()))
        st[("out",)] = ()
        st[("pulled",)] = ()
        st[("rems",)] = ()
        st[("rem_now",)] = R
        for k, v in (extra or {}).items():
            if k != "pc":
                st[k] = v
        return self._wrap(self.ind.turn(self.arrivals[H], st))

    def frame(self, H):
        return self.arrivals[H].frame

    def body_of(self, H):
        return self.arrivals[H].body

    def local(self, seg_or_store, l, frame=None):
        st = seg_or_store.store if isinstance(seg_or_store, Seg) else seg_or_store
        if frame is None:
            frame = seg_or_store.frame if isinstance(seg_or_store, Seg) and seg_or_store.kind == "stop" else 1
        return self.it.read_ref(st, Ref(frame, l))

    def live_at(self, H):
        from .. import cfg as _cfg
        b = self.body_of(H)
        live = getattr(b, "_live", None) or _cfg.liveness(b)
        b._live = live
        return set(live[0][H[1]]) | set(live[1])

    def strict_live(self, H):
        """Locals that are read before being written on some path from the head (address-taken locals not added)."""
        from .. import cfg as _cfg
        b = self.body_of(H)
        live = getattr(b, "_live", None) or _cfg.liveness(b)
        b._live = live
        return set(live[0][H[1]])

    def variant_locals(self, H):
        """Locals of the loop's own frame that the loop can change and that are live at its head."""
        from .. import loops as L_
        return L_.variant_locals(self.body_of(H), H[1])

    def ty(self, H, l):
        return self.body_of(H).local_ty(l)


def find_iters(it, st, frame=1, live=None):
    """Iterator values held in (live) locals of the frame: [(local, value)]."""
    out = []
    for key, v in st.items():
        if len(key) != 2:
            continue
        fr, l = key
        if live is not None and l not in live:
            continue
        if fr == frame and isinstance(v, Agg) and (kind(v) in ("gen", "take", "peek") or v.path == "std::ops::Range"):
            out.append((l, v))
    return sorted(out, key=lambda x: x[0])


def gen_of(v, it, st):
    """The generator closure inside an iterator value (through Take / by-ref), or None."""
    while True:
        if isinstance(v, Ref):
            v = it.read_ref(st, v)
            continue
        if kind(v) == "take":
            v = v.field(0)
            continue
        break
    return clos_view(v) if kind(v) == "gen" else None


def mark_check(seg, rem_now, bad, what="at the end", tail=None):
    """The continuation mark comes first after the digits and is present iff the remainder left by the last printed digit
    (rem_now: the remainder at the start of an exit segment, in which no digit is printed) is non-zero, and show_continuation.
    Digits pulled after the last printed one are harmless as long as the decision is equivalent to that test.
    `tail`: the atoms printed after the digits (default: everything the segment printed)."""
    tail = seg.out if tail is None else tail
    has = bool(tail) and tail[0][0] == "lit" and tail[0][1].startswith("…")
    if any(a[0] == "lit" and "…" in (a[1][1:] if i == 0 else a[1]) for i, a in enumerate(tail)):
        bad.append("%s a mark is printed somewhere else than directly after the digits (%s)" % (what, describe_out(tail)))
    z = seg.pc.get(repr(T("is_zero", rem_now)))
    show = seg.pc.get("show")
    if has:
        if z is not False:
            bad.append("%s the mark is printed on a path where the remainder after the last printed digit (%r) is not known to be non-zero (path %s)" % (what, rem_now, seg.pc))
        if show is not True:
            bad.append("%s the mark is printed although show_continuation was not tested true" % what)
    else:
        if z is not True and show is not False:
            bad.append("%s no mark is printed on a path where the remainder after the last printed digit (%r) is not known to be zero (path %s)" % (what, rem_now, seg.pc))
    return has


def strip_mark(out):
    """The atoms with a leading mark removed."""
    if out and out[0][0] == "lit" and out[0][1].startswith("…"):
        rest = out[0][1][1:]
        return ((("lit", rest),) if rest else ()) + tuple(out[1:])
    return tuple(out)


def find_pred(seg, spec, grid):
    """Outcome on this path of a test equivalent to `spec` (or to its negation): True / False / None (not tested)."""
    for p, b in pc_of(seg.store):
        if not isinstance(p, T) or p.op not in ("Eq", "Ne", "Lt", "Le", "Gt", "Ge", "==", "Not"):
            continue
        try:
            if evalterm.sem_eq(p, spec, grid)[0]:
                return b
            if evalterm.sem_eq(T("Not", p), spec, grid)[0]:
                return not b
        except (evalterm.Unrecognised, KeyError):
            continue
    return None


def excused(seg):
    return any(("fits_u8" in p and b is False) or (p.startswith("Le(") and "to_u8" in p and b is False) for p, b in seg.pc.items())


R, D, I = Sym("R"), Sym("D"), Sym("I")
Q = T("idiv", T("*", R, K(10)), D)
REM1 = T("-", T("*", R, K(10)), T("*", D, Q))
GRID_NZ = [p for p in GRID_RD if p["R"] != 0]


def same(a, b, grid=GRID_NZ):
    try:
        return evalterm.sem_eq(a, b, grid)[0]
    except evalterm.Unrecognised:
        return False


def helper_args(body, st):
    """Arguments for format_whole / format_big: self, f, neg and one symbol per remaining parameter."""
    st, selfref = display_self(st)
    args = []
    syms = {}
    for i in range(1, body.arg_count + 1):
        ty = body.local_ty(i)
        if "rational::display::Display" in ty:
            args.append(selfref)
        elif "Formatter" in ty:
            args.append(FSYM)
        elif ty == "bool":
            args.append(Sym("neg"))
        else:
            s_ = Sym("a%d" % i)
            syms[i] = s_
            args.append(s_)
    return st, args, syms


def subst(v, m):
    """Rename symbols in a term / value."""
    if isinstance(v, Sym):
        return m.get(v.name, v)
    if isinstance(v, T):
        return T(v.op, *[subst(a, m) for a in v.args])
    if isinstance(v, Agg):
        return Agg(v.kind, v.path, v.vi, v.vname, [subst(f, m) for f in v.fields])
    return v


# ---- R2 / R3: splitting the value and choosing the form ----------------------------------------------------------------
def grid_x():
    pts = []
    for num in (0, 1, 3, 7, 10, 99, 100, 12345, 1000000, 123456789):
        for den in (1, 2, 3, 7, 8, 1000, 99991):
            for sg in (1, -1):
                pts.append({"x": Fraction(sg * num, den)})
    return pts


GRID_X = grid_x()
X_ABS_N = T("abs", T("numer", Sym("x")))
X_ABS_D = T("abs", T("denom", Sym("x")))
X_DIV = T("idiv", X_ABS_N, X_ABS_D)
X_REM = T("-", X_ABS_N, T("*", X_ABS_D, X_DIV))


def vop(s):
    return s.value.op if isinstance(s.value, T) else None


def r2_dispatch(facts, rep, names):
    rep.rule("C08-R2", "splitting: the formatter works on neg = (x < 0), whole = floor(|numer| / |denom|), remainder = |numer| - "
                       "|denom| * whole (so 0 <= remainder < denominator, the generator's invariant) and den = |denom|; each of the "
                       "three forms receives exactly these, in the parameter positions in which it uses them (R4-R6)")
    rep.rule("C08-R3", "choice of the form: scientific (format_big) iff digits(whole) >= exponent_limit, where digits(w) counts the "
                       "decimal digits of w after the first (inductive check of its loop: one division by ten per count); otherwise the "
                       "plain form iff whole != 0 or remainder = 0; otherwise the small-fraction form with exp = -1, the full digit "
                       "budget `limit` and the generator over (remainder, den)")
    body = facts.fn(FMT)
    local_callees = sorted({nm for blk, t, sp, nm in body.calls() if facts.fn(nm) is not None})
    # the three forms and digits() are analysed on their own (they contain the loops); small helpers are followed
    from ..callgraph import CallGraph
    cg = CallGraph(facts)

    def has_loop(p_):
        return any(facts.fn(q) is not None and loop_heads(facts.fn(q)) for q in cg.reachable([p_]) if facts.fn(q) is not None and "{closure" not in q)
    def counts_digits(p_):
        # a function from one big integer (by value or by reference) to a machine integer: the digit count, however written
        b_ = facts.fn(p_)
        return b_ is not None and b_.arg_count == 1 and "BigInt" in b_.local_ty(1) and b_.local_ty(0) in ("usize", "u32", "u64")
    no_inline = [n for n in local_callees if n != names.get("emit") and (has_loop(n) or counts_digits(n))]
    h = Harness(facts, body, no_inline=no_inline)
    st0, selfref = display_self({})
    try:
        segs = h.run([selfref, FSYM], extra=st0)
    except core.Undecided as e:
        rep.ob("C08-R2", "split", False, "undecided: %s" % e, body.site())
        return
    def forms_of(segs_):
        calls_, dig_ = {}, None
        for s in segs_:
            if s.end == "ret" and isinstance(s.value, T) and s.value.op.startswith("call:"):
                calls_.setdefault(s.value.op[5:], []).append(s)
        # digits(): the callee whose result is compared with exponent_limit
        for s in segs_:
            for p in s.pc:
                if "call:" in p and "X" in p:
                    for c in no_inline:
                        if "call:%s(" % c in p:
                            dig_ = c
        return calls_, dig_
    calls, dig = forms_of(segs)
    # a helper with a loop that is neither a form (its result is what fmt returns) nor the digit count is part of the
    # small-fraction form itself (a split-off `skip_leading_zeros`): it is followed, its loops are stop points like fmt's own
    inner = [n for n in no_inline if n not in calls and n != dig]
    if inner:
        no_inline = [n for n in no_inline if n not in inner]
        h = Harness(facts, body, no_inline=no_inline)
        st0, selfref = display_self({})
        try:
            segs = h.run([selfref, FSYM], extra=st0)
        except core.Undecided as e:
            rep.ob("C08-R2", "split", False, "undecided: %s" % e, body.site())
            return
        calls, dig = forms_of(segs)
    names["fmt_harness"] = h
    names["fmt_segs"] = segs
    bad = []
    names["digits"] = dig
    big = whole = None
    for c, ss in calls.items():
        for s in ss:
            dp = [b for p, b in s.pc.items() if dig and "call:%s(" % dig in p]
            if dp and dp[0] is True:
                big = c
            elif dp and dp[0] is False:
                whole = c
    names["big"], names["whole"] = big, whole
    if not rep.ob("C08-R3", "anchor:forms", bool(dig and big and whole and big != whole),
                  "forms found from the dispatch: digits=%s scientific=%s plain=%s" % (dig, big, whole), body.site()):
        return
    # ---- the arguments handed to the two helpers --------------------------------------------------------------------
    for role, c in (("big", big), ("whole", whole)):
        cb = facts.fn(c)
        for s in calls[c]:
            a = s.value.args
            negv = s.pc.get("is_negative(x)")
            # positions by type: bool = neg; the BigInt-typed ones in order of the callee's parameters
            got = {}
            for i in range(1, cb.arg_count + 1):
                ty = cb.local_ty(i)
                if ty == "bool":
                    got["neg"] = a[i - 1]
                elif "BigInt" in ty:
                    got.setdefault("ints", []).append((i, a[i - 1]))
            if got.get("neg") != Const(bool(negv)) or negv is None:
                bad.append("%s receives neg = %r on a path where x < 0 is %s" % (role, got.get("neg"), negv))
            names.setdefault("args_" + role, {})
            for i, v in got.get("ints", []):
                names["args_" + role].setdefault("a%d" % i, []).append(v)
    # ---- the dispatch conditions --------------------------------------------------------------------------------------
    small = [s for s in segs if s.end in h.heads]
    for s in segs:
        dp = [b for p, b in s.pc.items() if "call:%s(" % dig in p]
        if not dp:
            bad.append("a path chooses a form without the digit count having been compared with exponent_limit: %s" % s.pc)
            continue
        zs = {p: b for p, b in s.pc.items() if p.startswith("is_zero(")}
        if s.end == "ret" and vop(s) == "call:" + big:
            if dp[0] is not True:
                bad.append("scientific form on a path with digits >= exponent_limit false")
        elif s.end == "ret" and vop(s) == "call:" + whole:
            pass
        elif s.end in h.heads or (s.end == "ret" and vop(s) is None):
            # the small-fraction form: at one of its loops, or straight to its end (checked by R5)
            pass
        else:
            bad.append("%s %s" % (s.kind, s.value))
    # the digits comparison is Ge(digits(whole), X)
    cmp_ok = False
    for s in segs:
        for p, b in pc_of(s.store):
            if isinstance(p, T) and p.op in ("Ge", "Lt", "Le", "Gt") and "call:%s(" % dig in repr(p):
                a0, a1 = p.args
                if p.op in ("Ge", "Lt") and isinstance(a0, T) and a0.op == "call:" + dig and a1 == Sym("X"):
                    arg = a0.args[0]
                    cmp_ok = same(arg, X_DIV, GRID_X) and ((p.op == "Ge") == (b == (s.end == "ret" and vop(s) == "call:" + big)))
                elif p.op in ("Le", "Gt") and a0 == Sym("X") and isinstance(a1, T) and a1.op == "call:" + dig:
                    arg = a1.args[0]
                    cmp_ok = same(arg, X_DIV, GRID_X) and ((p.op == "Le") == (b == (s.end == "ret" and vop(s) == "call:" + big)))
                if not cmp_ok:
                    bad.append("the form is chosen by %r = %s" % (p, b))
    if not cmp_ok:
        bad.append("no comparison digits(whole) >= exponent_limit found")
    # plain vs small: whole != 0 or remainder == 0
    for s in segs:
        dp = [b for p, b in s.pc.items() if "call:%s(" % dig in p]
        if not dp or dp[0] is True:
            continue
        zd = zr = None
        for p, b in pc_of(s.store):
            if isinstance(p, T) and p.op == "is_zero":
                if same(p.args[0], X_DIV, GRID_X):
                    zd = b
                elif same(p.args[0], X_REM, GRID_X):
                    zr = b
                else:
                    bad.append("a zero test of %r takes part in the choice of the form" % (p.args[0],))
        plain = (zd is False) or (zd is True and zr is True)
        smallp = (zd is True and zr is False)
        if s.end == "ret" and vop(s) == "call:" + whole and not plain:
            bad.append("plain form chosen with whole = 0: %s, remainder = 0: %s" % (zd, zr))
        if s.end in h.heads and not smallp:
            bad.append("small-fraction form chosen with whole = 0: %s, remainder = 0: %s" % (zd, zr))
    rep.ob("C08-R3", "dispatch", not bad and len(calls.get(big, [])) >= 1 and len(calls.get(whole, [])) >= 2 and len(small) >= 1,
           "; ".join(bad[:4]) if bad else "scientific iff digits(whole) >= exponent_limit; else plain iff whole != 0 or remainder = 0; else small-fraction (%d paths)" % len(segs),
           body.site(), sample={"paths": len(segs)})
    # ---- digits() -----------------------------------------------------------------------------------------------------
    db = facts.fn(dig)
    hd = Harness(facts, db)
    badd = []

    def digits_on_values(kmax):
        """Constant propagation of digits() through its MIR on the values around every power of ten up to 10^kmax."""
        ws = sorted({w for k in range(0, kmax + 1) for w in (10 ** k - 1, 10 ** k, 10 ** k + 1) if w >= 0} | {12345, 987654321012})
        n_ok, bad_ = 0, []
        for w in ws:
            dom_ = PrinterDomain(facts)
            it_ = core.Interp(facts, dom_, budget=40000)
            st_, wref = it_.fresh_slot({}, K(w))
            arg = wref if db.local_ty(1).startswith("&") else K(w)
            try:
                outs_ = it_.run(db, [arg], st_)
            except core.Undecided as e:
                bad_.append("undecided at %d: %s" % (w, e))
                break
            got = {_as_int(o.value) if o.kind == "ret" else o.kind for o in outs_}
            want = len(str(w)) - 1
            if got != {want}:
                bad_.append("digits(%d) = %s; specified %d" % (w, sorted(map(str, got)), want))
                break
            n_ok += 1
        rep.count("digits(): concrete values evaluated", n_ok)
        return bad_
    if len(hd.heads) == 0:
        # no loop to do induction over (an iterator chain, a string length ...): the function is evaluated on concrete values
        # around every power of ten up to 10^15 (constant propagation through its MIR), against the specified count
        badd = digits_on_values(15)
    elif len(hd.heads) != 1:
        badd.append("%d loops" % len(hd.heads))
    else:
        Hh = hd.heads[0]
        try:
            pro = hd.run([Sym("W")])
        except core.Undecided as e:
            pro = []
            badd.append("undecided: %s" % e)
        GW = [{"W": Fraction(w), "c": Fraction(c)} for w in (0, 1, 9, 10, 11, 99, 100, 12345, 10 ** 9) for c in (0, 3)]
        stp = [s_ for s_ in pro if s_.end == Hh]
        if len(pro) != 1 or len(stp) != 1:
            badd.append("prologue paths: %s" % pro)
        else:
            vs = hd.variant_locals(Hh)
            FH = hd.frame(Hh)
            big_l = [l for l in vs if "BigInt" in hd.ty(Hh, l)]
            cnt_l = [l for l in vs if hd.ty(Hh, l) == "usize"]
            if len(big_l) != 1 or len(cnt_l) != 1:
                badd.append("loop state: %s" % sorted(vs))
            else:
                w0, c0 = hd.local(stp[0], big_l[0]), hd.local(stp[0], cnt_l[0])
                if not same(w0, T("idiv", Sym("W"), K(10)), GW) or c0 != Const(0):
                    badd.append("before the loop: value %r count %r; specified W/10 and 0" % (w0, c0))
                st = dict(stp[0].store)
                st[(FH, big_l[0])] = Sym("W")
                st[(FH, cnt_l[0])] = Sym("c")
                try:
                    step = hd.run(start=(Hh, st))
                except core.Undecided as e:
                    step = []
                    badd.append("undecided: %s" % e)
                kinds = set()
                for s_ in step:
                    z = s_.pc.get("is_zero(W)")
                    if s_.end == Hh and z is False:
                        kinds.add("step")
                        if not same(hd.local(s_, big_l[0]), T("idiv", Sym("W"), K(10)), GW) or not same(hd.local(s_, cnt_l[0]), T("+", Sym("c"), K(1)), GW):
                            badd.append("one turn: value %r count %r; specified W/10 and c+1" % (hd.local(s_, big_l[0]), hd.local(s_, cnt_l[0])))
                    elif s_.end == "ret" and z is True:
                        kinds.add("exit")
                        if s_.value != Sym("c"):
                            badd.append("returns %r at the end; specified the count" % (s_.value,))
                    else:
                        badd.append("path %s -> %s" % (s_.pc, s_.end))
                if kinds != {"step", "exit"}:
                    badd.append("paths: %s" % sorted(kinds))
    shape_note = ""
    if badd and len(hd.heads) >= 1 and not any(x.startswith("undecided") for x in badd):
        # the loop is not the `divide; while non-zero { divide; count }` shape the induction is written for (a `loop` with an
        # early return, a do-while ...): decided on values instead - around every power of ten up to 10^40
        b2 = digits_on_values(40)
        if not b2:
            shape_note = " (loop shape not the inductive one: %s; decided by constant propagation on the values around 10^0..10^40)" % badd[0][:80]
            badd = []
        else:
            badd = b2 + badd
    rep.ob("C08-R3", "digits", not badd, "; ".join(badd[:3]) if badd else
           "digits(W): W := W/10, count 0; while W != 0 { W := W/10; count + 1 }: the number of decimal digits after the first" + shape_note, db.site())
    # ---- R2: the split ---------------------------------------------------------------------------------------------------
    bad2 = []
    for role in ("big", "whole"):
        for pos, vals in names.get("args_" + role, {}).items():
            for v in vals:
                which = [nm for nm, w in (("whole", X_DIV), ("remainder", X_REM), ("den", X_ABS_D)) if same(v, w, GRID_X)]
                if len(which) != 1:
                    bad2.append("%s receives %r in position %s: none of whole / remainder / den" % (role, v, pos))
                else:
                    names.setdefault("passed_" + role, {})[pos] = which[0]
    for role in ("big", "whole"):
        got = names.get("passed_" + role, {})
        if sorted(got.values()) != ["den", "remainder", "whole"]:
            bad2.append("%s receives %s" % (role, got))
    rep.ob("C08-R2", "split", not bad2, "; ".join(bad2[:3]) if bad2 else
           "both helpers receive whole = |numer| / |denom|, remainder = |numer| - |denom| whole, den = |denom| (%s / %s)" % (
               names.get("passed_big"), names.get("passed_whole")), body.site(), sample={"scientific": names.get("passed_big"), "plain": names.get("passed_whole")})


# ---- R4: format_whole --------------------------------------------------------------------------------------------------
def r4_bounded(facts, rep, names):
    """The plain form with limits 0..3, whatever its code looks like: format_whole is explored from its entry with a constant
    limit and symbolic parameters; the digits come from the symbolic generator.  Every path prints [-] whole; nothing more iff
    the remainder is zero; otherwise, with a positive limit, '.' and at most `limit` digits, each the long-division digit of
    the running remainder, fewer only when the remainder ran out; the mark iff the remainder after the last printed digit is
    non-zero and show_continuation."""
    path = names.get("whole")
    body = facts.fn(path) if path else None
    if body is None:
        return
    n_paths = 0
    for L_ in ((0, 1, 2, 3, 4, 5, 6) if names.get("tier") == "thorough" else (0, 1, 2, 3)):
        key = "bounded:limit=%d" % L_
        dom = PrinterDomain(facts)
        it = core.Interp(facts, dom, budget=300000)
        st = {(0, 801): Agg("adt", "rational::display::DisplaySpec", 0, "DisplaySpec", (Const(L_), Sym("X"), Sym("show"))),
              (0, 800): Agg("adt", "rational::display::Display", 0, "Display", (Sym("x"), Ref(0, 801))),
              ("out",): (), ("pulled",): (), ("rems",): ()}
        args, bigs = [], []
        for i in range(1, body.arg_count + 1):
            ty = body.local_ty(i)
            if "rational::display::Display" in ty:
                args.append(Ref(0, 800))
            elif "Formatter" in ty:
                args.append(FSYM)
            elif ty == "bool":
                args.append(Sym("neg"))
            else:
                args.append(Sym("a%d" % i))
                if "BigInt" in ty:
                    bigs.append("a%d" % i)
        try:
            outs = it.run(body, args, st)
        except core.Undecided as e:
            rep.ob("C08-R4", key, False, "undecided: %s" % e, body.site())
            continue
        bad = []
        seen_ok = 0
        classes = set()
        for o in outs:
            n_paths += 1
            pc = pc_dict(o.store)
            if any(("fits_u8" in p and b is False) or (p.startswith("Le(") and "to_u8" in p and b is False) for p, b in pc.items()):
                continue
            if o.kind != "ret":
                bad.append("%s: %s" % (o.kind, str(o.value)[:60]))
                continue
            v = o.value
            if not (isinstance(v, Agg) and v.path == "std::result::Result" and v.vi == 0):
                continue
            seen_ok += 1
            out = list(o.store.get(("out",), ()))
            negv = pc.get("neg")
            if negv is None:
                bad.append("the sign is not consulted")
                continue
            k0 = 1 if negv else 0
            if len(out) <= k0 - 1 or (negv and (not out or out[0][0] != "lit" or not out[0][1].startswith("-"))):
                bad.append("prints %s; specified a leading '-'" % describe_out(out))
                continue
            printed = [a_ for a_ in out if a_[0] == "val" and isinstance(a_[1], Sym) and a_[1].name in bigs]
            if len(printed) != 1:
                bad.append("prints %s; specified the whole part once" % describe_out(out))
                continue
            dv = printed[0][1].name
            others = [b_ for b_ in bigs if b_ != dv]
            remn = [b_ for b_ in others if ("is_zero(%s)" % b_) in pc]
            if len(others) != 2 or len(remn) != 1:
                bad.append("parameter roles: whole part %s, others %s, remainder tested: %s" % (dv, others, remn))
                continue
            ra, da = remn[0], [b_ for b_ in others if b_ != remn[0]][0]
            ren = {ra: R, da: D, dv: I}
            pcr = {repr(subst(p_, ren)): b_ for p_, b_ in pc_of(o.store)}
            pulled = [subst(d_, ren) for d_ in o.store.get(("pulled",), ())]
            rems = [subst(r_, ren) for r_ in o.store.get(("rems",), ())]
            rz = pcr.get("is_zero(R)")
            want = ([("lit", "-")] if negv else []) + [("val", I)]
            if rz is True:
                if pulled:
                    bad.append("digits are pulled although the remainder is zero")
                    continue
                lose = False
            else:
                r_spec = R
                okp = True
                for i_, d_ in enumerate(pulled):
                    q_spec = T("idiv", T("*", r_spec, K(10)), D)
                    zi = pcr.get(repr(T("is_zero", R if i_ == 0 else rems[i_ - 1])))
                    if i_ >= L_ or zi is not False or not same(d_, q_spec):
                        bad.append("digit %d is pulled beyond the limit %d, without R != 0, or is not floor(10R/D)" % (i_ + 1, L_))
                        okp = False
                        break
                    r_spec = T("-", T("*", r_spec, K(10)), T("*", D, q_spec))
                    if i_ < len(rems) and not same(rems[i_], r_spec):
                        bad.append("after digit %d the remainder is %r" % (i_ + 1, rems[i_]))
                if not okp:
                    continue
                if L_ > 0:
                    want.append(("lit", "."))
                want += [("val", d_) for d_ in pulled]
                last = rems[len(pulled) - 1] if pulled else R
                lz = pcr.get(repr(T("is_zero", last)))
                if len(pulled) < L_ and lz is not True:
                    bad.append("the digits stop after %d with limit %d and the remainder not seen to be zero" % (len(pulled), L_))
                lose = None if lz is None else (not lz)

            def flat(atoms):
                o_ = []
                for a_ in atoms:
                    if a_[0] == "lit":
                        o_.extend(("lit", ch_) for ch_ in a_[1])
                    else:
                        o_.append(a_)
                return o_
            want = flat(want)
            got = flat([(a_[0], subst(a_[1], ren)) if a_[0] == "val" else a_ for a_ in out])
            head, tail = got[:len(want)], got[len(want):]
            hm = len(head) == len(want) and all(g_[0] == w_[0] and (same(g_[1], w_[1]) if (g_[0] == "val" and not isinstance(w_[1], Sym)) else g_[1] == w_[1]) for g_, w_ in zip(head, want))
            if not hm:
                bad.append("prints %s; specified %s ..." % (describe_out(out), describe_out(want)))
                continue
            txt = "".join(a_[1] for a_ in tail if a_[0] == "lit")
            show = pc.get("show")
            has_mark = "…" in txt
            if has_mark and not (lose is True and show is True):
                bad.append("the mark is printed where loss = %s, show_continuation = %s" % (lose, show))
            if not has_mark and not (lose is False or show is False):
                bad.append("no mark is printed where loss = %s, show_continuation = %s" % (lose, show))
            if txt.replace("…", "") or any(a_[0] == "val" for a_ in tail):
                bad.append("the end prints %s; specified nothing but the mark" % describe_out(tail))
            classes.add((rz, len(pulled), has_mark))
        rep.ob("C08-R4", key, not bad and seen_ok >= 2, "; ".join(sorted(set(bad))[:3]) if bad else
               "all %d successful path(s) print [-] whole, then up to %d digit(s) behind a '.', the mark iff something is lost (%d classes)" % (seen_ok, L_, len(classes)), body.site())
    rep.count("plain form: bounded paths", n_paths)


def r4_whole(facts, rep, names):
    rep.rule("C08-R4", "plain form (whole part below the exponent threshold): prints [-] whole; ends there iff the remainder is zero; "
                       "otherwise '.' and digits pulled from the generator through a budget of `limit`: one turn of the digit loop from "
                       "an arbitrary budget n and remainder R either leaves without pulling (n = 0, or R = 0) or pulls exactly one digit, "
                       "prints exactly that digit and continues with n - 1; at the end the mark is printed iff the *current* remainder "
                       "is non-zero (and show_continuation).  So every pulled digit is printed, at most `limit` are, and the mark "
                       "appears iff the unprinted rest of the expansion is non-zero")
    path = names.get("whole")
    body = anchor(rep, "C08-R4", facts, path) if path else None
    if body is None:
        return None
    h = Harness(facts, body)
    if not rep.ob("C08-R4", "anchor:loops", len(h.heads) == 1, "the plain form has one digit loop (%d loop heads)" % len(h.heads), body.site()):
        return None
    H = h.heads[0]
    st0, args, syms = helper_args(body, {})
    try:
        segs = h.run(args, extra=st0)
    except core.Undecided as e:
        rep.ob("C08-R4", "prologue", False, "undecided: %s" % e, body.site())
        return None
    # roles of the parameters, from what the prologue does with them
    roles = {}
    stop = [s for s in segs if s.end == H]
    for s in segs:
        for a in s.out:
            if a[0] == "val" and isinstance(a[1], Sym) and a[1].name.startswith("a"):
                roles["div"] = a[1].name
    if stop:
        for l, v in find_iters(h.it, stop[0].store, frame=stop[0].frame):
            c = gen_of(v, h.it, stop[0].store)
            if c is not None:
                r0 = h.it.read_ref(stop[0].store, c.field(0))
                d0 = h.it.read_ref(stop[0].store, c.field(1))
                if isinstance(r0, Sym):
                    roles["rem"] = r0.name
                if isinstance(d0, Sym):
                    roles["den"] = d0.name
    if not rep.ob("C08-R4", "anchor:roles", set(roles) == {"div", "rem", "den"} and len(set(roles.values())) == 3,
                  "parameters by use: whole part printed = %s, generator over (%s, %s)" % (roles.get("div"), roles.get("rem"), roles.get("den")), body.site()):
        return None
    ren = {roles["rem"]: R, roles["den"]: D, roles["div"]: I}
    bad = []
    n_ret = 0
    for s in segs:
        out = tuple((a[0], subst(a[1], ren) if a[0] == "val" else a[1]) for a in s.out)
        pc = {repr(subst(p, ren)): b for p, b in pc_of(s.store)}
        s.pc = pc
        neg = pc.get("neg")
        want = ((("lit", "-"),) if neg else ()) + (("val", I),)
        if s.end == "ret":
            n_ret += 1
            if pc.get("is_zero(R)") is True:
                if out != want:
                    bad.append("zero remainder: prints %s, specified %s" % (describe_out(out), describe_out(want)))
            else:
                if out[:len(want)] != want:
                    bad.append("no digit budget: prints %s" % describe_out(out))
                mark_check(s, R, bad, "with no digit budget", tail=out[len(want):])
                if strip_mark(out[len(want):]):
                    bad.append("no digit budget: prints %s" % describe_out(out))
        elif s.end == H:
            want2 = want[:-1] + (want[-1],) + (("lit", "."),)
            if out != want2:
                bad.append("before the digits: prints %s, specified %s" % (describe_out(out), describe_out(want2)))
            if pc.get("is_zero(R)") is not False:
                bad.append("the digit loop is entered without the remainder having been tested non-zero")
        else:
            bad.append("%s %s" % (s.kind, s.value))
    rep.ob("C08-R4", "prologue", not bad and stop and n_ret >= 2, "; ".join(bad[:4]) if bad else
           "[-] whole, end iff R = 0, '.' before the digit loop (%d paths)" % len(segs), body.site(), sample={"roles": roles})
    if not stop:
        return roles
    # the budget of the loop is `limit`
    base = stop[0].store
    its = [(l, v) for l, v in find_iters(h.it, base, frame=h.frame(H), live=h.live_at(H)) if kind(v) == "take" and gen_of(v, h.it, base) is not None]
    okb = len(its) == 1 and kind(its[0][1]) == "take" and its[0][1].field(1) == Sym("L")
    if not okb and not (len(its) == 1 and kind(its[0][1]) == "take"):
        # the budget is not a Take adaptor over the generator (a counter, a helper ...): not a shape this induction knows
        rep.ob("C08-R4", "anchor:budget", False, "digit iterator at the loop head: %r" % (its,), body.site())
        return roles
    rep.ob("C08-R4", "budget", okb, "the digit loop runs over take(generator, limit)" if okb else "digit iterator at the loop head: %r" % (its,), body.site())
    if not okb:
        return roles
    L_it = its[0][0]
    c = gen_of(its[0][1], h.it, base)
    rem_ref = c.field(0)
    # ---- one arbitrary turn ----
    st = dict(base)
    st[(h.frame(H), L_it)] = take(its[0][1].field(0), Sym("n"))
    st = h.it.write_ref(st, rem_ref, R)
    st = {k: (subst(v, ren) if not isinstance(k[0], str) else v) for k, v in st.items()}
    try:
        segs = h.run(start=(H, st))
    except core.Undecided as e:
        rep.ob("C08-R4", "digit-loop:step", False, "undecided: %s" % e, body.site())
        return roles
    bad = []
    seen = set()
    for s in segs:
        if excused(s):
            continue
        n0 = s.pc.get("Eq(n, Const(0))")
        z = s.pc.get("is_zero(R)")
        rem_now = s.store.get(("rem_now",), TOP)
        if s.end == H:
            if rem_now != h.it.read_ref(s.store, rem_ref):
                bad.append("the remainder is written outside the generator")
            seen.add("digit")
            tk = h.local(s, L_it)
            if n0 is not False or z is not False:
                bad.append("a digit is pulled without n > 0 and R != 0 (path %s)" % s.pc)
            if len(s.out) != 1 or s.out[0][0] != "val" or not same(s.out[0][1], Q):
                bad.append("one turn prints %s; specified exactly the digit floor(10R/D)" % describe_out(s.out))
            if not same(rem_now, REM1):
                bad.append("after one turn the remainder is %r" % (rem_now,))
            if kind(tk) != "take" or tk.field(1) != T("i-", Sym("n"), Const(1)):
                bad.append("after one turn the budget is %r; specified n - 1" % (tk,))
        elif s.end == "ret":
            if n0 is True:
                seen.add("budget-exit")
            elif z is True:
                seen.add("end-exit")
            else:
                bad.append("the loop is left on path %s" % s.pc)
            nb = len(bad)
            mark_check(s, R, bad, "after the digit loop")
            if len(bad) > nb and s.pulled:
                bad.append("(a digit was pulled and dropped before the mark was decided: %r)" % (s.pulled,))
            if strip_mark(s.out):
                bad.append("leaving the loop prints %s" % describe_out(s.out))
        else:
            bad.append("%s %s" % (s.kind, s.value))
    if seen != {"digit", "budget-exit", "end-exit"}:
        bad.append("paths found: %s" % sorted(seen))
    rep.ob("C08-R4", "digit-loop:step", not bad, "; ".join(bad[:4]) if bad else
           "n = 0: leave, remainder untouched; R = 0: leave; else print floor(10R/D), R := 10R - D floor(10R/D), n := n - 1; mark iff current remainder != 0 and show",
           body.site(), sample={"paths": len(segs)})
    return roles


# ---- R5: the small-fraction form ----------------------------------------------------------------------------------------
# Reference transducer.  Phases: LEAD (no significant digit yet; exponent e = -1 - leading zeros), SCI1 (scientific, first digit
# printed), SCI2 (scientific, point printed), PLAIN ("0.00d" printed, exponent 0).
E, N = Sym("e"), Sym("n")


def phase_pc(phase):
    if phase == "PLAIN":
        return ((T("Eq", E, Const(0)), True),)
    return ((T("Le", E, Const(-1)), True),)


def r5_small(facts, rep, names):
    rep.rule("C08-R5", "small-fraction form (|x| < 1), as a transducer checked by product bisimulation with the reference machine LEAD "
                       "-> {SCI1 -> SCI2 | PLAIN}, whatever the loop structure: every loop head is a stop point; from every reachable "
                       "triple (loop, finite code state, phase) with an arbitrary budget n, exponent e and remainder R, the segment to "
                       "the next stop either pulls no digit, or pulls one digit d under n > 0 and R != 0, and the reference machine, fed "
                       "with the pulled digit, prescribes what the segment prints: LEAD, d = 0: e := e - 1, nothing; LEAD, d != 0: the "
                       "sign, then d alone if -e >= exponent_limit (scientific) or '0.', one '0' per integer in e..-1 (a padding loop is "
                       "checked by its own induction) and d (plain, e := 0), n := n - 1; SCI1: '.' d; SCI2 / PLAIN: d; n := n - 1.  At "
                       "the end the mark is printed iff the remainder left by the last printed digit is non-zero (and "
                       "show_continuation), then 'e' exponent iff the exponent is non-zero")
    h = names.get("fmt_harness")
    segs0 = names.get("fmt_segs")
    body = facts.fn(FMT)
    if h is None or segs0 is None:
        rep.ob("C08-R5", "anchor:prologue", False, "the dispatch summary (C08-R3) is missing")
        return
    entry = [s_ for s_ in segs0 if s_.kind == "stop"]
    if not rep.ob("C08-R5", "anchor:entry", len(entry) >= 1 and len({s_.end for s_ in entry}) == 1,
                  "the small-fraction form is entered from the dispatch at one loop (%d paths)" % len(entry), body.site()):
        return
    INT_TY = ("i32", "i64", "isize")
    UNS_TY = ("usize", "u32", "u64")
    SIGN_LOCALS = set()

    def state_of(sg):
        """(flags {local: finite value}, e-local, n-local, range local, generator ref, sign locals) at the loop where sg stopped."""
        H = sg.end
        F = sg.frame
        b = sg.body
        live = h.live_at(H)
        strict = h.strict_live(H)
        var = h.variant_locals(H)
        flags, ints, uns, rng, gens, signs = {}, [], [], [], [], []
        for l in sorted(live):
            v = h.it.read_ref(sg.store, Ref(F, l))
            if v is TOP:
                continue
            ty = b.local_ty(l).replace(" ", "")
            if ty == "bool":
                if (b.path, l) in SIGN_LOCALS:
                    signs.append(l)
                elif l in var:
                    flags[l] = v
            elif ty.startswith("std::option::Option<") and isinstance(v, Agg):
                flags[l] = v
            elif ty in INT_TY:
                ints.append(l)
            elif ty in UNS_TY:
                uns.append(l)
            elif isinstance(v, Agg) and (v.path == "std::ops::Range" or v.kind == "it:range") and l in var and l in strict:
                rng.append(l)
            if isinstance(v, Agg) and gen_of(v, h.it, sg.store) is not None:
                gens.append(l)
        return flags, ints, uns, rng, gens, signs

    def fkey(flags):
        out = []
        for l, v in sorted(flags.items()):
            if isinstance(v, Const):
                out.append((l, bool(v.v)))
            elif isinstance(v, Agg) and v.path == "std::option::Option":
                out.append((l, "Some" if v.vi == 1 else "None"))
            else:
                out.append((l, "?"))
        return tuple(out)

    def budget_kind(sg):
        """Where the digit budget lives at this stop: an unsigned counter, a Take adaptor over the generator, or nowhere yet
        (then it is still the full `limit`)."""
        flags, ints, uns, rng, gens, signs = state_of(sg)
        if uns:
            return ("local", uns[0])
        takes = [l for l in gens if kind(h.it.read_ref(sg.store, Ref(sg.frame, l))) == "take"]
        # the adaptor the loop itself drives (a moved-from copy may still be around)
        var = h.variant_locals(sg.end) if sg.kind == "stop" else set()
        strict = h.strict_live(sg.end) if sg.kind == "stop" else set()
        takes.sort(key=lambda l: (l not in var, l not in strict, l))
        if takes:
            return ("take", takes[0])
        return ("implicit",)

    def read_budget(sg, renamed=False):
        bk = budget_kind(sg)
        if bk[0] == "local":
            return h.it.read_ref(sg.store, Ref(sg.frame, bk[1]))
        if bk[0] == "take":
            return h.it.read_ref(sg.store, Ref(sg.frame, bk[1])).field(1)
        return N if renamed else Sym("L")

    def set_budget(st, sg):
        """The store with the budget made arbitrary (N).  -> (store, renamed): an implicit budget is the limit itself, which is
        then renamed to n everywhere (values and path condition)."""
        bk = budget_kind(sg)
        if bk[0] == "local":
            st[(sg.frame, bk[1])] = N
            return st, False
        if bk[0] == "take":
            v_ = h.it.read_ref(st, Ref(sg.frame, bk[1]))
            st[(sg.frame, bk[1])] = take(v_.field(0), N)
            return st, False
        ren = {"L": N}
        st2 = {}
        for k_, v_ in st.items():
            if k_ == ("pc",):
                st2[k_] = tuple((subst(p_, ren), b_) for p_, b_ in v_)
            elif isinstance(k_, tuple) and len(k_) == 2 and isinstance(k_[0], int):
                st2[k_] = subst(v_, ren)
            else:
                st2[k_] = v_
        return st2, True

    first = entry[0]
    # the sign: the boolean that equals (x < 0) on every way into the form
    for l in sorted(h.live_at(first.end)):
        if first.body.local_ty(l) != "bool":
            continue
        vals_ = [(h.it.read_ref(e_.store, Ref(e_.frame, l)), e_.pc.get("is_negative(x)")) for e_ in entry]
        if len({repr(v_) for v_, _ in vals_}) == 2 and all(isinstance(v_, Const) and bool(v_.v) == p_ for v_, p_ in vals_):
            SIGN_LOCALS.add((first.body.path, l))
    flags0, ints0, uns0, rng0, gens0, signs0 = state_of(first)
    # drop-flag style constants that never change are not state
    flags0 = {l: v for l, v in flags0.items() if l in h.variant_locals(first.end)}
    okk = len(ints0) == 1 and len(uns0) <= 1 and len(gens0) >= 1
    if not rep.ob("C08-R5", "anchor:state", okk, "state at the first loop by type: flags %s, exponent %s, budget %s, generator %s" % (
            sorted(flags0), ints0, budget_kind(first), gens0), body.site()):
        return
    F0 = first.frame
    clos = gen_of(h.it.read_ref(first.store, Ref(F0, gens0[0])), h.it, first.store)
    rem_ref = clos.field(0)
    den0 = h.it.read_ref(first.store, clos.field(1))
    rem0 = h.it.read_ref(first.store, rem_ref)
    e0, n0_ = h.it.read_ref(first.store, Ref(F0, ints0[0])), read_budget(first)
    init_ok = e0 == Const(-1) and n0_ == Sym("L") and same(rem0, X_REM, GRID_X) and same(den0, X_ABS_D, GRID_X)
    rep.ob("C08-R5", "entry", init_ok, "at the first turn: exponent %r (specified -1), budget %r (specified limit), generator over (%r, %r) (specified remainder, den)" % (
        e0, n0_, rem0, den0), body.site())
    if not init_ok:
        return
    GRID_E = [{"e": Fraction(e), "X": Fraction(x)} for e in range(-6, 0) for x in range(1, 8)]
    GRID_N = [{"n": Fraction(k)} for k in range(0, 5)]
    GRID_EE = [{"e": Fraction(k)} for k in range(-5, 1)]

    def sci_pred(seg):
        for p_, b_ in pc_of(seg.store):
            rp = repr(p_)
            if "X" in rp and "e" in rp and isinstance(p_, T):
                try:
                    eq, w = evalterm.sem_eq(p_, T("Ge", T("neg", E), Sym("X")), GRID_E)
                except evalterm.Unrecognised:
                    return b_, False
                return b_, eq
        return None, True

    def merge(atoms):
        out = []
        for a in atoms:
            if a[0] == "lit" and out and out[-1][0] == "lit":
                out[-1] = ("lit", out[-1][1] + a[1])
            else:
                out.append(a)
        return out

    def same_atoms(got, want):
        got, want = merge(got), merge(want)
        return len(got) == len(want) and all(g[0] == w[0] and (same(g[1], w[1]) if g[0] == "val" else g[1] == w[1]) for g, w in zip(got, want))

    # work items: (representative segment, flag key, phase, pending expected atoms after a padding loop, is-padding)
    ARRIVAL = {}
    reps = {}
    work = []

    def limit_facts(sg):
        """With the budget still implicit (= limit, untouched), what the path knows about the limit alone stays true."""
        if budget_kind(sg)[0] != "implicit":
            return ()
        out = []
        for p_, b_ in pc_of(sg.store):
            names_ = set()

            def syms(t_):
                if isinstance(t_, Sym):
                    names_.add(t_.name)
                elif isinstance(t_, T):
                    for a_ in t_.args:
                        syms(a_)
            syms(p_)
            if names_ and names_ <= {"L", "n"}:
                out.append((p_, b_))
        uniq = {}
        for p_, b_ in out:
            uniq.setdefault((repr(p_), b_), (p_, b_))
        return tuple(uniq[k_] for k_ in sorted(uniq))

    def replace_term(t_, old_, new_):
        if t_ == old_:
            return new_
        if isinstance(t_, T):
            return T(t_.op, *[replace_term(a_, old_, new_) for a_ in t_.args])
        return t_

    def arrival_facts(sg, renamed_):
        """What the arriving path knows about the budget and the remainder *as they are now*: the work item makes both
        arbitrary (n, R), and facts about exactly these two values stay true of the arbitrary ones (e.g. `the budget is
        used up` or `the expansion has ended` after a failed extra pull)."""
        if sg.kind != "stop":
            return ()
        cur_n = read_budget(sg, renamed_)
        cur_r = h.it.read_ref(sg.store, rem_ref)
        out = []
        for p_, b_ in pc_of(sg.store):
            q_ = replace_term(replace_term(p_, cur_r, Sym("R'")), cur_n, Sym("n'"))
            names_ = set()

            def syms(t_):
                if isinstance(t_, Sym):
                    names_.add(t_.name)
                elif isinstance(t_, T):
                    for a_ in t_.args:
                        syms(a_)
            syms(q_)
            if names_ and names_ <= {"R'", "n'"}:
                out.append((subst(q_, {"R'": R, "n'": N}), b_))
        uniq = {}
        for p_, b_ in out:
            uniq.setdefault((repr(p_), b_), (p_, b_))
        return tuple(uniq[k_] for k_ in sorted(uniq))

    def push(sg, phase, pending=(), e_known_zero=False, renamed_=False):
        flags, ints, uns, rng, gens, signs = state_of(sg)
        af = arrival_facts(sg, renamed_)
        key = (sg.end, fkey(flags), phase, tuple(map(repr, pending)), bool(rng), tuple((repr(p_), b_) for p_, b_ in limit_facts(sg)) + tuple((repr(p_), b_) for p_, b_ in af))
        ARRIVAL[key] = af
        if key not in reps:
            reps[key] = (sg, pending)
            work.append(key)

    push(first, "LEAD")
    done = set()
    n_seg = 0
    phases_seen = set()
    problems = {}
    cases = {}
    while work:
        key = work.pop()
        if key in done:
            continue
        done.add(key)
        if len(done) > 60:
            import os as _os
            if _os.environ.get("C08_DEBUG"):
                for k_ in sorted(done, key=repr)[:70]:
                    print("KEY", k_[0][1], k_[1], k_[2], k_[4], [x[0][:60] + "=" + str(x[1]) for x in k_[5]])
            rep.ob("C08-R5", "bisimulation", False, "more than 60 (loop, code state, phase) triples: the code states do not correspond to the reference phases")
            return
        H, fk, phase, _, is_pad, _lf = key
        sg0, pending = reps[key]
        phases_seen.add(phase[4:] if phase.startswith("PAD>") else phase)
        flags, ints, uns, rng, gens, signs = state_of(sg0)
        F = sg0.frame
        st = dict(sg0.store)
        for l in ints[:1]:
            st[(F, l)] = E
        lfacts = limit_facts(sg0)
        st, renamed = set_budget(st, sg0)
        for l in signs:
            st[(F, l)] = Sym("neg")
        st = h.it.write_ref(st, rem_ref, R)
        if isinstance(clos.field(1), Ref):
            st = h.it.write_ref(st, clos.field(1), D)
        post = None
        if phase.startswith("PAD>"):
            post = phase[4:]
            extra = {"pc": phase_pc("LEAD")}
        else:
            extra = {"pc": phase_pc(phase)}
        if renamed and lfacts:
            extra = {"pc": tuple(extra["pc"]) + tuple((subst(p_, {"L": N}), b_) for p_, b_ in lfacts)}
        if ARRIVAL.get(key):
            have = {(repr(p_), b_) for p_, b_ in extra["pc"]}
            extra = {"pc": tuple(extra["pc"]) + tuple(x_ for x_ in ARRIVAL[key] if (repr(x_[0]), x_[1]) not in have)}
        if is_pad:
            rl = rng[0]
            rv = h.it.read_ref(st, Ref(F, rl))
            st[(F, rl)] = Agg(rv.kind, rv.path, rv.vi, rv.vname, (Sym("a"), rv.field(1)))
        label = "%s:%s@%s" % (phase, "".join(str(v)[0] for _, v in fk) or "-", "pad" if is_pad else "bb%d" % H[1])
        bad = problems.setdefault(label, [])
        kinds = cases.setdefault(label, set())
        try:
            segs = h.run(start=(H, st), extra=extra)
        except core.Undecided as e:
            bad.append("undecided: %s" % e)
            continue
        for s_ in segs:
            n_seg += 1
            if excused(s_):
                continue
            n_pos = find_pred(s_, T("Gt", N, Const(0)), GRID_N)
            z = s_.pc.get("is_zero(R)")
            rem_now = s_.store.get(("rem_now",), TOP)
            pulled = s_.pulled
            out = list(s_.out)
            sign = [("lit", "-")] if s_.pc.get("neg") else []
            if is_pad:
                # one turn of a zero-padding loop over a..-1
                lt = find_pred(s_, T("Lt", Sym("a"), Const(-1)), [{"a": Fraction(k)} for k in range(-5, 1)])
                if s_.end == H and lt is True:
                    kinds.add("pad-turn")
                    r2 = h.it.read_ref(s_.store, Ref(F, rng[0]))
                    if out != [("lit", "0")] or pulled or not same(r2.field(0), T("+", Sym("a"), K(1)), [{"a": Fraction(k)} for k in range(-5, 0)]):
                        bad.append("one turn of the zero padding prints %s, pulls %r, range start %r" % (describe_out(out), pulled, r2.field(0)))
                    continue
                if lt is not False:
                    bad.append("the zero padding is left on path %s" % s_.pc)
                    continue
                kinds.add("pad-exit")
                want = list(pending)
                nphase = post or phase
                want_e, want_n = (K(0) if nphase == "PLAIN" else E), N
            else:
                want = []
                nphase = phase
                want_e, want_n = E, N
                rems = s_.store.get(("rems",), ())
                r_spec, r_term = R, R      # the remainder before the next pull: as specified / as the store writes it
                broken = False
                for i_, d in enumerate(pulled):
                    q_spec = T("idiv", T("*", r_spec, K(10)), D)
                    # (after i_ digits that each needed a positive budget the grid starts at n = consumed so far)
                    npos_i = n_pos if i_ == 0 else find_pred(s_, T("Gt", want_n, Const(0)), [g_ for g_ in GRID_N if g_["n"] >= i_])
                    z_i = z if i_ == 0 else s_.pc.get(repr(T("is_zero", r_term)))
                    if npos_i is not True or z_i is not False or not same(d, q_spec):
                        bad.append("digit %d of the segment is pulled without n > 0 and R != 0 having been tested (path %s)" % (i_ + 1, s_.pc))
                        broken = True
                        break
                    rem_after = rems[i_] if i_ < len(rems) else rem_now
                    if not same(rem_after, T("-", T("*", r_spec, K(10)), T("*", D, q_spec))):
                        bad.append("after pull %d the remainder is %r" % (i_ + 1, rem_after))
                    dz = None
                    for p_, b_ in pc_of(s_.store):
                        if isinstance(p_, T) and p_.op == "is_zero" and same(p_.args[0], q_spec):
                            dz = b_
                    if dz is None:
                        # the same test written as a comparison with 0 (`Some(0) => ..`, `d == 0`)
                        dz = find_pred(s_, T("Eq", q_spec, Const(0)), GRID_NZ)
                    dig = ("val", d)
                    if nphase == "LEAD":
                        if dz is True:
                            kinds.add("lead-zero")
                            want_e = T("-", want_e, K(1))
                        elif dz is False:
                            if want_e != E:
                                bad.append("undecided: a first significant digit follows a leading zero within one segment")
                                broken = True
                                break
                            sp, sp_ok = sci_pred(s_)
                            if not sp_ok or sp is None:
                                bad.append("the scientific form is chosen by a test that is not -e >= exponent_limit (path %s)" % s_.pc)
                                broken = True
                                break
                            if s_.pc.get("neg") is None:
                                bad.append("the first significant digit is printed without the sign having been consulted")
                            if sp:
                                kinds.add("lead-sci")
                                want, want_n, nphase = want + sign + [dig], T("-", want_n, K(1)), "SCI1"
                            else:
                                kinds.add("lead-plain")
                                want, want_e, want_n, nphase = want + sign + [("lit", "0."), ("PAD",), dig], K(0), T("-", want_n, K(1)), "PLAIN"
                        else:
                            bad.append("before the first significant digit a digit is used without being tested for zero")
                            broken = True
                            break
                    elif nphase == "SCI1":
                        kinds.add("sci1")
                        want, want_n, nphase = want + [("lit", "."), dig], T("-", want_n, K(1)), "SCI2"
                    else:
                        kinds.add(nphase.lower())
                        want, want_n = want + [dig], T("-", want_n, K(1))
                    r_spec = T("-", T("*", r_spec, K(10)), T("*", D, q_spec))
                    r_term = rem_after
                if broken:
                    continue
            # where does the segment end?
            if s_.kind == "stop":
                nflags, nints, nuns, nrng, ngens, nsigns = state_of(s_)
                if nrng and any(a == ("PAD",) for a in want):
                    # arrived at a padding loop: what was printed so far is the part before the padding
                    k = want.index(("PAD",))
                    if not same_atoms(out, want[:k]):
                        bad.append("%s: before the zero padding %s is printed; specified %s" % (phase, describe_out(out), describe_out(want[:k])))
                    rv = h.it.read_ref(s_.store, Ref(s_.frame, nrng[0]))
                    if not (same(rv.field(0), E, GRID_EE) and rv.field(1) == Const(-1)):
                        bad.append("the zero padding runs over %r..%r; specified e..-1" % (rv.field(0), rv.field(1)))
                    push(s_, "PAD>" + nphase, tuple(want[k + 1:]), renamed_=renamed)
                    continue
                want_clean = [a for a in want if a != ("PAD",)]
                if ("PAD",) in want and not nrng:
                    bad.append("%s: no zero padding between '0.' and the first digit" % phase)
                if not same_atoms(out, want_clean):
                    bad.append("%s: the segment prints %s; specified %s" % (phase, describe_out(merge(out)), describe_out(merge(want_clean))))
                if True:
                    e2 = h.it.read_ref(s_.store, Ref(s_.frame, nints[0])) if nints else None
                    n2 = read_budget(s_, renamed)
                    if e2 is not None and not (same(e2, want_e, GRID_EE) or (nphase == "PLAIN" and e2 == Const(0))):
                        bad.append("%s: the exponent becomes %r; specified %r" % (phase, e2, want_e))
                    # once the expansion has ended no digit can come any more: what is left of the budget does not matter
                    ended = s_.pc.get(repr(T("is_zero", rem_now if pulled else R))) is True
                    if n2 is not None and not ended and not same(n2, want_n, GRID_N):
                        bad.append("%s: the budget becomes %r; specified %r" % (phase, n2, want_n))
                if pulled and rem_now != h.it.read_ref(s_.store, rem_ref):
                    bad.append("the remainder is written outside the generator")
                push(s_, nphase, renamed_=renamed)
            elif s_.kind == "ret":
                # the segment ends the function: whatever it still owes, then the epilogue
                if pulled or (is_pad and pending):
                    body_out, tail = out[:len(merge([a for a in want if a != ("PAD",)]))], None
                want_clean = merge([a for a in want if a != ("PAD",)])
                got = merge(out)
                # split: the owed atoms come first, the epilogue after
                head, tail = got[:len(want_clean)], got[len(want_clean):]
                if want_clean and not same_atoms(head, want_clean):
                    # a literal of the epilogue may have merged with the last owed literal: compare on the flattened text
                    bad.append("%s: before the end %s is printed; specified %s" % (phase, describe_out(head), describe_out(want_clean)))
                if n_pos is False and not pulled:
                    kinds.add("exit-budget")
                elif z is True and not pulled:
                    kinds.add("exit-end")
                elif pulled:
                    kinds.add("exit-after-digit")
                ph_end = nphase
                nb = len(bad)
                s_.out = tuple(tail)
                mark_check(s_, rem_now if pulled else R, bad, "%s: at the end" % ph_end, tail=tuple(tail))
                if len(bad) > nb and pulled and not want_clean:
                    bad.append("(a digit was pulled and dropped before the mark was decided: %r)" % (pulled,))
                rest = strip_mark(tuple(tail))
                if ph_end == "PLAIN":
                    if rest:
                        bad.append("PLAIN: the end prints %s after the digits" % describe_out(rest))
                elif ph_end in ("SCI1", "SCI2"):
                    okexp = len(rest) == 2 and rest[0] == ("lit", "e") and rest[1][0] == "val" and same(rest[1][1], E, GRID_EE)
                    if not okexp:
                        bad.append("%s: the end prints %s; specified 'e' exponent" % (ph_end, describe_out(rest)))
            else:
                bad.append("%s %s" % (s_.kind, s_.value))
    rep.count("small-fraction path segments", n_seg)
    for label in sorted(problems):
        bad = problems[label]
        rep.ob("C08-R5", "step:%s" % label.split("@")[0] if False else "step:%s" % label, not bad,
               "; ".join(bad[:4]) if bad else "every segment from this state prints what the reference machine prescribes (%s)" % ", ".join(sorted(cases[label])),
               body.site(), sample={"state": label, "cases": sorted(cases[label])})
    allk = set().union(*cases.values()) if cases else set()
    need = {"lead-zero", "lead-sci", "lead-plain", "sci1", "sci2", "plain", "pad-turn", "pad-exit", "exit-budget", "exit-end"}
    rep.ob("C08-R5", "bisimulation", phases_seen == {"LEAD", "SCI1", "SCI2", "PLAIN"} and need <= allk,
           "reachable phases %s; cases exercised %s%s" % (sorted(phases_seen), sorted(allk), "" if need <= allk else "; MISSING %s" % sorted(need - allk)), body.site())


# ---- R6: the scientific form ---------------------------------------------------------------------------------------------
U = Sym("u")


def zero_known(store, d):
    """What the path knows about digit d being zero: True / False / None (is_zero(d), d == 0, d != 0, a match on d)."""
    for p_, b_ in pc_of(store):
        if not isinstance(p_, T):
            continue
        if p_.op == "is_zero" and len(p_.args) == 1 and p_.args[0] == d:
            return b_
        if p_.op in ("Eq", "==", "Ne") and len(p_.args) == 2 and d in p_.args and any(
                isinstance(a_, Const) and a_.v == 0 and not isinstance(a_.v, bool) for a_ in p_.args):
            return b_ if p_.op != "Ne" else (not b_)
    return None


def r5_bounded(facts, rep, names, tier="quick"):
    """The small-fraction form on values with 0..3 leading zero digits, limits 1..3 and exponent limits 1..3, whatever its code
    looks like (one loop with flags, several phases, helpers): Display::fmt is explored from its entry with a constant spec
    and a symbolic value; the digits come from the symbolic generator, the number of leading zeros followed is bounded.  On
    every path into the form (whole part zero, remainder non-zero): with z leading zeros the text is [-] d ['.' more digits]
    'e' -(z+1) if z + 1 >= exponent_limit, else [-] '0.' z zeros and the digits; at most `limit` digits from the first non-zero
    one, fewer only when the remainder ran out; the mark iff the remainder after the last printed digit is non-zero and
    show_continuation."""
    body = facts.fn(FMT)
    no_inline = [n for n in (names.get("digits"), names.get("big"), names.get("whole")) if n]
    ZMAX = 3 if tier == "thorough" else 2
    n_small = 0
    n_paths = 0
    role_memo, first_memo = {}, {}
    combos = [(l_, x_) for l_ in ((1, 2, 3) if tier == "quick" else (1, 2, 3, 4)) for x_ in (1, 2, 3)]
    for L_, X_ in combos:
        if True:
            key = "bounded:limit=%d:exponent_limit=%d" % (L_, X_)
            dom = PrinterDomain(facts, no_inline=no_inline)
            it = core.Interp(facts, dom, budget=400000)
            st = {(0, 801): Agg("adt", "rational::display::DisplaySpec", 0, "DisplaySpec", (Const(L_), Const(X_), Sym("show"))),
                  (0, 800): Agg("adt", "rational::display::Display", 0, "Display", (Sym("x"), Ref(0, 801))),
                  ("out",): (), ("pulled",): (), ("rems",): (), ("lead_cap",): ZMAX}
            try:
                outs = it.run(body, [Ref(0, 800), FSYM], st)
            except core.Undecided as e:
                rep.ob("C08-R5", key, False, "undecided: %s" % e, body.site())
                continue
            bad = []
            seen = {}
            for o in outs:
                n_paths += 1
                pcl = pc_of(o.store)
                pc = pc_dict(o.store)
                whole_zero = rem_zero = None
                for p_, b_ in pcl:
                    if isinstance(p_, T) and p_.op == "is_zero" and len(p_.args) == 1 and "x" in repr(p_.args[0]):
                        ka_ = repr(p_.args[0])
                        if ka_ not in role_memo:
                            role_memo[ka_] = "whole" if same(p_.args[0], X_DIV, GRID_X) else ("rem" if same(p_.args[0], X_REM, GRID_X) else None)
                        if role_memo[ka_] == "whole":
                            whole_zero = b_
                        elif role_memo[ka_] == "rem":
                            rem_zero = b_
                if not (whole_zero is True and rem_zero is False):
                    continue
                if any(("fits_u8" in p and b is False) or (p.startswith("Le(") and "to_u8" in p and b is False) for p, b in pc.items()):
                    continue
                if o.kind != "ret":
                    bad.append("%s: %s" % (o.kind, str(o.value)[:60]))
                    continue
                v = o.value
                if not (isinstance(v, Agg) and v.path == "std::result::Result" and v.vi == 0):
                    continue
                pulled = list(o.store.get(("pulled",), ()))
                rems = list(o.store.get(("rems",), ()))
                z = 0
                while z < len(pulled) and zero_known(o.store, pulled[z]) is True:
                    z += 1
                sig = pulled[z:]
                if not sig:
                    # the generator ran dry on zero digits only: arithmetically impossible (10 * r != 0), not a path of the form
                    continue
                n_small += 1
                if zero_known(o.store, sig[0]) is not False and z > 0:
                    bad.append("a digit not known to be non-zero ends the leading zeros")
                    continue
                kp_ = repr(pulled[0]) if pulled else None
                if pulled and kp_ not in first_memo:
                    first_memo[kp_] = same(pulled[0], T("idiv", T("*", X_REM, K(10)), X_ABS_D), GRID_X)
                if pulled and not first_memo[kp_]:
                    bad.append("the first digit pulled is %r, not the first digit of remainder / den" % (pulled[0],))
                    continue
                negv = pc.get("is_negative(x)")
                if negv is None:
                    bad.append("the sign is not consulted")
                    continue
                if len(sig) > L_:
                    bad.append("%d digits are printed with limit %d" % (len(sig), L_))
                    continue
                last_rem = rems[len(pulled) - 1] if len(rems) >= len(pulled) else None
                lz = pc.get(repr(T("is_zero", last_rem))) if last_rem is not None else None
                if len(sig) < L_ and lz is not True:
                    bad.append("only %d digit(s) are printed with limit %d although the remainder was not seen to be zero" % (len(sig), L_))
                    continue
                sci = (z + 1) >= X_
                want = [("lit", "-")] if negv else []
                if sci:
                    want.append(("val", sig[0]))
                    if len(sig) > 1:
                        want.append(("lit", "."))
                    want += [("val", d_) for d_ in sig[1:]]
                else:
                    want.append(("lit", "0." + "0" * z))
                    want += [("val", d_) for d_ in sig]

                def flat(atoms):
                    o_ = []
                    for a_ in atoms:
                        if a_[0] == "lit":
                            o_.extend(("lit", ch_) for ch_ in a_[1])
                        else:
                            o_.append(a_)
                    return o_
                want = flat(want)
                got = flat(o.store.get(("out",), ()))
                head, tail = got[:len(want)], got[len(want):]
                if head != want:
                    bad.append("with %d leading zero(s) prints %s; specified %s ..." % (z, describe_out(o.store.get(("out",), ())), describe_out(want)))
                    continue
                txt = "".join(a_[1] for a_ in tail if a_[0] == "lit")
                vals_ = [a_[1] for a_ in tail if a_[0] == "val"]
                show = pc.get("show")
                has_mark = "…" in txt
                lose = None if lz is None else (not lz)
                if has_mark and not (lose is True and show is True):
                    bad.append("the mark is printed where loss = %s, show_continuation = %s" % (lose, show))
                if not has_mark and not (lose is False or show is False):
                    bad.append("no mark is printed where loss = %s, show_continuation = %s" % (lose, show))
                if txt.replace("…", "") != ("e" if sci else "") or (vals_ != [Const(-(z + 1))] if sci else bool(vals_)) \
                        or (has_mark and not txt.startswith("…")):
                    bad.append("with %d leading zero(s) the end prints %s; specified %s" % (z, describe_out(tail), "[mark] 'e' %d" % -(z + 1) if sci else "[mark]"))
                seen[(z, len(sig), sci)] = seen.get((z, len(sig), sci), 0) + 1
            zs = {k_[0] for k_ in seen}
            rep.ob("C08-R5", key, not bad and zs >= {0, 1, 2}, "; ".join(sorted(set(bad))[:3]) if bad else (
                "all small-fraction paths print as specified (leading zeros %s, %d classes)" % (sorted(zs), len(seen)) if zs >= {0, 1, 2}
                else "paths with 0, 1 and 2 leading zeros were expected; found %s" % sorted(zs)), body.site())
    rep.count("small-fraction form: bounded paths", n_paths)
    rep.floor("C08-R5", "small-fraction paths in the bounded exploration", n_small, 50)


def deepening(rep, sub):
    """Merge a rule that has a bounded form (keys `bounded:*`) and an inductive form (everything else), run into `sub`.
    The inductive form is written for loops it can recognise; where only its anchors fail (`anchor:*` / `floor:*`: the
    state of the loops is not laid out the way it knows) and the bounded form has decided the rule, that is not a finding
    about the code and is recorded as a note.  Any other failure is reported as it is."""
    def base(o):
        return o["key"].split("[")[0]
    bounded = [o for o in sub.obls if base(o).startswith("bounded:")]
    decided_ok = bool(bounded) and all(o["ok"] for o in bounded)
    failed = [o for o in sub.obls if not o["ok"] and not base(o).startswith("bounded:")]
    only_anchors = bool(failed) and all(base(o).startswith("anchor:") or (base(o).startswith("floor:") and "bounded" not in base(o)) for o in failed)
    for o in sub.obls:
        if not o["ok"] and o in failed and only_anchors and decided_ok:
            o = dict(o)
            o["ok"] = True
            o["nontrivial"] = False
            o["detail"] = "inductive deepening not applicable (the bounded form of this rule decides): " + o["detail"]
        rep.obls.append(o)
    rep.floors.extend(sub.floors)
    for k_, v_ in sub.analysed.items():
        rep.count(k_, v_)
    for k_, v_ in sub.rules.items():
        rep.rules.setdefault(k_, v_)
    for a_ in sub.assumptions:
        rep.assume(a_)


def r6_big(facts, rep, names):
    rep.rule("C08-R6", "scientific form (whole part W with at least exponent_limit + 1 digits): prints [-] first digit of W, '.' iff W has "
                       "more digits; then W's further digits through a budget of `limit` (one turn from an arbitrary state: budget n = 0 or "
                       "no digit left: leave without consuming; else print exactly the next digit, used := used + 1, n := n - 1; "
                       "invariant n = limit - used).  If digits of W are left over, no fraction digit is pulled and the mark is printed "
                       "iff one of the left-over digits is not '0' or the remainder is non-zero; otherwise fraction digits are pulled "
                       "through a budget of limit - used, each pulled digit is printed, and the mark is printed iff the current remainder "
                       "is non-zero (always: and show_continuation).  Then 'e' and (left-over digits + used) iff that is positive: the "
                       "number of digits of W after the first")
    path = names.get("big")
    body = anchor(rep, "C08-R6", facts, path) if path else None
    if body is None:
        return
    h = Harness(facts, body)
    r6_bounded(facts, rep, names, body)
    if len(h.heads) != 2:
        # another way of walking the digits (slices, more loops): the bounded check above is all there is; not an alarm
        rep.ob("C08-R6", "structure", True, "the scientific form has %d loops: decided on whole parts of 1..5 digits with limits 0..3 only "
               "(the one-arbitrary-turn induction needs a digit loop and a fraction loop)" % len(h.heads), body.site(), nontrivial=False)
        return
    H1, H2 = h.heads
    st0, args, syms = helper_args(body, {})
    c0, c1, c2 = Sym("c0"), Sym("c1"), Sym("c2")
    bad = []
    pro = {}
    for label, script in (("several", (c0, c1)), ("one", (c0, "EOF"))):
        ex = dict(st0)
        ex[("script",)] = script
        try:
            segs = h.run(args, extra=ex)
        except core.Undecided as e:
            bad.append("undecided: %s" % e)
            continue
        pro[label] = segs
        for s_ in segs:
            sign = (("lit", "-"),) if s_.pc.get("neg") else ()
            want = sign + (("val", c0),) + ((("lit", "."),) if label == "several" else ())
            got = tuple(s_.out)
            merged = []
            for a in want:
                merged.append(a)
            if s_.end != H1 or got != tuple(merged) or s_.pc.get("neg") is None:
                bad.append("whole part with %s digit(s): prints %s and reaches %s; specified %s at the digit loop" % (label, describe_out(got), s_.end, describe_out(want)))
    stop = [s_ for s_ in pro.get("several", []) if s_.end == H1]
    src = stop[0].store.get(("peek_of",)) if stop else None
    roles = {}
    if isinstance(src, T) and src.op == "decimal" and isinstance(src.args[0], Sym):
        roles["div"] = src.args[0].name
    else:
        bad.append("the digit string is %r; specified the decimal digits of the whole part" % (src,))
    rep.ob("C08-R6", "prologue", not bad and len(stop) >= 1, "; ".join(bad[:3]) if bad else "[-] first digit, '.' iff more digits follow; the digits are those of the whole part's decimal string", body.site())
    if bad or not stop:
        return
    base = stop[0].store
    live = h.live_at(H1)
    vs = {l for l in h.variant_locals(H1) if l in live}
    FB = h.frame(H1)
    uns = sorted(l for l in vs if h.ty(H1, l) in ("usize", "u32", "u64"))
    its = find_iters(h.it, base, frame=FB, live=live)
    takes = [(l, v) for l, v in its if kind(v) == "take"]
    peeks = [(l, v) for l, v in its if kind(v) == "peek"]
    # the budget is either a Take adaptor over the digit iterator (its counter n, invariant n = limit - used) or the test
    # `used < limit` itself
    okk = len(uns) == 1 and len(takes) <= 1 and len(peeks) == 1 and (not takes or (
        isinstance(takes[0][1].field(0), Ref) and takes[0][1].field(0) == Ref(FB, peeks[0][0])))
    if not rep.ob("C08-R6", "anchor:state", okk, "loop state: used %s, budget iterator %s over the digit iterator %s" % (uns, [l for l, _ in takes], [l for l, _ in peeks]), body.site()):
        return
    Lu, Lt, Lp = uns[0], (takes[0][0] if takes else None), peeks[0][0]
    init_ok = h.local(base, Lu, FB) == Const(0) and (not takes or takes[0][1].field(1) == Sym("L")) and peeks[0][1].field(0) == Const(1)
    rep.ob("C08-R6", "whole-digits:entry", init_ok, "before the digit loop: used = %r (specified 0), budget %s (specified limit), one digit consumed" % (
        h.local(base, Lu, FB), repr(takes[0][1].field(1)) if takes else "by the test used < limit"), body.site())

    def budget_left(seg):
        """Does the path say that the whole-part budget is not exhausted?  True / False / None"""
        if Lt is not None:
            z = seg.pc.get("Eq(n, Const(0))")
            return None if z is None else (not z)
        return find_pred(seg, T("Lt", U, Sym("L")), [{"L": Fraction(l_), "u": Fraction(u_)} for l_ in range(0, 5) for u_ in range(0, 6)])

    def seed1(script):
        st = dict(base)
        st[(FB, Lu)] = U
        if Lt is not None:
            st[(FB, Lt)] = take(Ref(FB, Lp), N)
        st[(FB, Lp)] = peekv(0)
        # the by-value BigInt parameters become symbols by role later; here every a<i> stays as is
        return st, {("script",): tuple(script)}

    GRID_LU = [{"L": Fraction(l), "u": Fraction(u), "n": Fraction(l - u)} for l in range(0, 6) for u in range(0, l + 1)]
    badl = []
    kinds = set()
    h2_entries = []
    rest_exits = []
    for script in ((c1, c2), (c1, "EOF"), ("EOF",)):
        st, ex = seed1(script)
        try:
            segs = h.run(start=(H1, st), extra=ex)
        except core.Undecided as e:
            badl.append("undecided: %s" % e)
            continue
        for s_ in segs:
            bl = budget_left(s_)
            n0 = None if bl is None else (not bl)
            pk = h.local(s_, Lp) if s_.end != "ret" else None
            if s_.end == H1:
                kinds.add("digit")
                tk = h.local(s_, Lt) if Lt is not None else None
                if n0 is not False or script[0] == "EOF":
                    badl.append("a turn continues without budget and a digit left")
                if tuple(s_.out) != (("val", c1),):
                    badl.append("one turn prints %s; specified exactly the next digit" % describe_out(s_.out))
                if not same(h.local(s_, Lu), T("+", U, K(1)), GRID_LU):
                    badl.append("used becomes %r; specified used + 1" % (h.local(s_, Lu),))
                if Lt is not None and (kind(tk) != "take" or not same(tk.field(1), T("-", N, K(1)), GRID_LU) or tk.field(0) != Ref(FB, Lp)):
                    badl.append("the budget becomes %r; specified n - 1" % (tk,))
                if kind(pk) != "peek" or pk.field(0) != Const(1):
                    badl.append("the digit iterator moves to %r; specified one digit further" % (pk,))
                if s_.pulled:
                    badl.append("a fraction digit is pulled inside the whole-part loop")
            elif s_.end == H2:
                # no digit of the whole part is left: on to the fraction digits
                if script[0] != "EOF" and n0 is not True:
                    badl.append("the whole-part loop is left with digits remaining and budget (path %s)" % s_.pc)
                if script[0] != "EOF":
                    badl.append("fraction digits are pulled although digits of the whole part are left over")
                    continue
                kinds.add("to-fraction")
                if s_.out:
                    badl.append("between the loops %s is printed" % describe_out(s_.out))
                if h.local(s_, Lu) != U:
                    badl.append("used changes on leaving the loop")
                h2_entries.append(s_)
            elif s_.end == "ret":
                if script[0] == "EOF":
                    badl.append("with no digit of the whole part left the function returns without the fraction loop (path %s)" % s_.pc)
                    continue
                if n0 is not True:
                    badl.append("the whole-part loop is left with budget and digits remaining (path %s)" % s_.pc)
                    continue
                kinds.add("cut")
                rest_exits.append(s_)
            else:
                badl.append("%s %s" % (s_.kind, s_.value))
    if kinds != {"digit", "to-fraction", "cut"}:
        badl.append("cases found: %s" % sorted(kinds))
    rep.ob("C08-R6", "whole-digits:step", not badl, "; ".join(badl[:4]) if badl else
           "n = 0 or no digit left: leave without consuming; else print the next digit, used + 1, n - 1 (invariant n = limit - used)", body.site())
    # ---- digits of the whole part are cut off -------------------------------------------------------------------------------
    badc = []
    anyp = set()
    for pr in h.any_closures:
        anyp |= set(pr)
    for s_ in rest_exits:
        nz = None
        for p, b in s_.pc.items():
            if p.startswith("rest_nonzero("):
                nz = b
        zr = None
        remsym = None
        for p, b in pc_of(s_.store):
            if isinstance(p, T) and p.op == "is_zero" and isinstance(p.args[0], Sym):
                zr, remsym = b, p.args[0].name
        if s_.pulled:
            badc.append("a fraction digit is pulled although digits of the whole part were cut off")
        has = bool(s_.out) and s_.out[0][0] == "lit" and s_.out[0][1].startswith("…")
        lost = (nz is True) or (zr is False)
        known_clean = (nz is False) and (zr is True)
        show = s_.pc.get("show")
        if has and not (lost and show is True):
            badc.append("the mark is printed on a path where no cut-off digit and no remainder is known to be non-zero (path %s)" % s_.pc)
        if not has and not (known_clean or show is False):
            badc.append("no mark on a path where the cut-off digits / the remainder are not known to be zero (path %s)" % s_.pc)
        if remsym:
            roles.setdefault("rem", remsym)
        rest = strip_mark(tuple(s_.out))
        want_exp = T("+", T("rest_len", Sym("pos0")), U)
        if len(rest) == 2 and rest[0] == ("lit", "e") and rest[1][0] == "val":
            try:
                eq = evalterm.sem_eq(rest[1][1], want_exp, [{"u": Fraction(u), "rest_len": (lambda p, k=k: Fraction(k)), "pos0": Fraction(0)} for u in range(0, 4) for k in range(1, 4)])[0]
            except evalterm.Unrecognised:
                eq = False
            if not eq:
                badc.append("the exponent printed is %r; specified left-over digits + used" % (rest[1][1],))
        elif rest:
            badc.append("after the digits %s is printed; specified [mark] 'e' exponent" % describe_out(s_.out))
        else:
            # no exponent printed: only when it was tested not positive
            if not any(p.startswith("Gt(") and b is False or p.startswith("Eq(") and b is True for p, b in s_.pc.items() if "rest_len" in p):
                badc.append("no exponent is printed on a path that does not test it (path %s)" % s_.pc)
    want_any = {"Ne(anychar, Const(48))"}
    if rest_exits and anyp != want_any:
        badc.append("the left-over digits are tested with %s; specified `digit != '0'`" % sorted(anyp))
    rep.ob("C08-R6", "cut-off", not badc and len(rest_exits) >= 4, "; ".join(badc[:4]) if badc else
           "left-over digits: no fraction digit pulled; mark iff (a left-over digit != '0' or remainder != 0) and show; exponent = left-over + used (%d paths)" % len(rest_exits), body.site())
    # ---- fraction digits -------------------------------------------------------------------------------------------------------
    badf = []
    if not h2_entries:
        rep.ob("C08-R6", "fraction:entry", False, "the fraction loop is never reached from the whole-part loop", body.site())
        return
    ent = h2_entries[0]
    live2 = h.live_at(H2)
    F2 = h.frame(H2)
    gens2 = [(l, v) for l, v in find_iters(h.it, ent.store, frame=F2, live=live2) if gen_of(v, h.it, ent.store) is not None]
    its2 = [(l, v) for l, v in gens2 if kind(v) == "take"]
    cnt2 = sorted(l for l in h.variant_locals(H2) if l in live2 and h.ty(H2, l) in ("usize", "u32", "u64") and h.local(ent, l, F2) is not TOP)
    # the budget: a Take adaptor over the generator, or a counter of the loop tested > 0
    okf = (len(its2) == 1) or (not its2 and len(gens2) == 1 and len(cnt2) == 1)
    if okf:
        bud = its2[0][1].field(1) if its2 else h.local(ent, cnt2[0], F2)
        okf = same(bud, T("-", Sym("L"), U), GRID_LU)
        clos = gen_of((its2 or gens2)[0][1], h.it, ent.store)
        r0 = h.it.read_ref(ent.store, clos.field(0))
        d0 = h.it.read_ref(ent.store, clos.field(1))
        if isinstance(r0, Sym) and isinstance(d0, Sym):
            roles["rem"], roles["den"] = r0.name, d0.name
        else:
            okf = False
    if not okf and not ((len(its2) == 1) or (not its2 and len(gens2) == 1 and len(cnt2) == 1)):
        # the budget of the fraction loop is kept in a way the induction does not know (a counter counting up, a helper ...)
        rep.ob("C08-R6", "anchor:fraction", False, "fraction iterators: %r, counters %s" % (gens2, cnt2), body.site())
        return
    rep.ob("C08-R6", "fraction:entry", okf, "fraction digits come from generator(remainder, den) under a budget of limit - used" if okf else "fraction iterators: %r, counters %s" % (gens2, cnt2), body.site())
    if not okf:
        return
    ok_roles = set(roles) == {"div", "rem", "den"} and len(set(roles.values())) == 3
    rep.ob("C08-R6", "anchor:roles", ok_roles, "parameters by use: digits of %s, generator over (%s, %s)" % (roles.get("div"), roles.get("rem"), roles.get("den")), body.site())
    if not ok_roles:
        return
    names["roles_big"] = roles
    Lf = its2[0][0] if its2 else None
    rem_ref = clos.field(0)
    st = dict(ent.store)
    if its2:
        st[(F2, Lf)] = take(its2[0][1].field(0), N)
    else:
        st[(F2, cnt2[0])] = N
    st = h.it.write_ref(st, rem_ref, R)
    ren = {roles["den"]: D}
    st = {k: (subst(v, ren) if len(k) == 2 else v) for k, v in st.items()}
    try:
        segs = h.run(start=(H2, st), extra={("script",): ("EOF",)})
    except core.Undecided as e:
        rep.ob("C08-R6", "fraction:step", False, "undecided: %s" % e, body.site())
        return
    seen = set()
    for s_ in segs:
        if excused(s_):
            continue
        if its2:
            n0 = s_.pc.get("Eq(n, Const(0))")
        else:
            np_ = find_pred(s_, T("Gt", N, Const(0)), [{"n": Fraction(k)} for k in range(0, 5)])
            n0 = None if np_ is None else (not np_)
        z = s_.pc.get("is_zero(R)")
        rem_now = s_.store.get(("rem_now",), TOP)
        if s_.end == H2:
            seen.add("digit")
            tk = h.local(s_, Lf) if its2 else take(None, h.local(s_, cnt2[0], F2))
            if n0 is not False or z is not False:
                badf.append("a digit is pulled without n > 0 and R != 0")
            if len(s_.out) != 1 or s_.out[0][0] != "val" or not same(s_.out[0][1], Q):
                badf.append("one turn prints %s; specified exactly the digit floor(10R/D)" % describe_out(s_.out))
            if not same(rem_now, REM1) or rem_now != h.it.read_ref(s_.store, rem_ref):
                badf.append("after one turn the remainder is %r" % (rem_now,))
            if kind(tk) != "take" or not same(tk.field(1), T("-", N, K(1)), GRID_LU):
                badf.append("the budget becomes %r; specified n - 1" % (tk,))
            # the count of whole-part digits (it becomes the exponent) is not touched by a fraction digit
            if Lu in live2 and F2 == FB and not same(h.local(s_, Lu, FB), U, GRID_LU):
                badf.append("a fraction digit changes the count of printed whole-part digits to %r (it is the exponent)" % (h.local(s_, Lu, FB),))
        elif s_.end == "ret":
            if n0 is True:
                seen.add("budget-exit")
            elif z is True:
                seen.add("end-exit")
            else:
                badf.append("the fraction loop is left on path %s" % s_.pc)
            nb = len(badf)
            mark_check(s_, R, badf, "after the fraction digits")
            if len(badf) > nb and s_.pulled:
                badf.append("(a digit was pulled and dropped before the mark was decided: %r)" % (s_.pulled,))
            rest = strip_mark(tuple(s_.out))
            up = find_pred(s_, T("Gt", U, Const(0)), [{"u": Fraction(k)} for k in range(0, 5)])
            if up is True:
                if not (len(rest) == 2 and rest[0] == ("lit", "e") and rest[1][0] == "val" and same(rest[1][1], U, [{"u": Fraction(k)} for k in range(0, 5)])):
                    badf.append("the end prints %s; specified 'e' used" % describe_out(rest))
            elif up is False:
                if rest:
                    badf.append("with no further digit of the whole part the end prints %s" % describe_out(rest))
            else:
                badf.append("the exponent is printed without testing it positive (path %s)" % s_.pc)
        else:
            badf.append("%s %s" % (s_.kind, s_.value))
    if seen != {"digit", "budget-exit", "end-exit"}:
        badf.append("cases found: %s" % sorted(seen))
    rep.ob("C08-R6", "fraction:step", not badf, "; ".join(badf[:4]) if badf else
           "n = 0: leave, remainder untouched; R = 0: leave; else print floor(10R/D), n - 1; mark iff current remainder != 0 and show; 'e' used iff used > 0",
           body.site(), sample={"paths": len(segs)})


def r6_bounded(facts, rep, names, body):
    """The scientific form on whole parts of 1..5 digits with limits 0..3, whatever its code looks like (loops, slices,
    iterator chains): the digit string is a sequence of n symbolic characters, the limit a constant, so every walk over the
    digits is a finite one; the fraction digits still come from the symbolic generator.  Every path must print
    [-] c0 ['.' c1..ck] (k = min(n-1, limit)), then - only if no digit of the whole part was cut off - up to limit-(n-1)
    fraction digits (each the long-division digit of the running remainder, pulled only while it is non-zero), the mark iff
    something is lost (a cut-off digit other than '0', or the remainder after the last printed digit non-zero) and
    show_continuation, and 'e' n-1 iff n > 1."""
    n_paths = 0
    roles_seen = set()
    deep = names.get("tier") == "thorough"
    for n_ in ((1, 2, 3, 4, 5, 6, 7) if deep else (1, 2, 3, 4, 5)):
        for L_ in ((0, 1, 2, 3, 4, 5) if deep else (0, 1, 2, 3)):
            key = "bounded:digits=%d:limit=%d" % (n_, L_)
            dom = PrinterDomain(facts)
            it = core.Interp(facts, dom, budget=300000)
            st = {(0, 801): Agg("adt", "rational::display::DisplaySpec", 0, "DisplaySpec", (Const(L_), Sym("X"), Sym("show"))),
                  (0, 800): Agg("adt", "rational::display::Display", 0, "Display", (Sym("x"), Ref(0, 801))),
                  ("digits_n",): n_, ("out",): (), ("pulled",): (), ("rems",): ()}
            args, bigs = [], []
            for i in range(1, body.arg_count + 1):
                ty = body.local_ty(i)
                if "rational::display::Display" in ty:
                    args.append(Ref(0, 800))
                elif "Formatter" in ty:
                    args.append(FSYM)
                elif ty == "bool":
                    args.append(Sym("neg"))
                else:
                    args.append(Sym("a%d" % i))
                    if "BigInt" in ty:
                        bigs.append("a%d" % i)
            try:
                outs = it.run(body, args, st)
            except core.Undecided as e:
                rep.ob("C08-R6", key, False, "undecided: %s" % e, body.site())
                continue
            bad = []
            seen_ok = 0
            k_ = min(n_ - 1, L_)
            cut = list(range(k_ + 1, n_))
            budget = L_ - (n_ - 1)
            for o in outs:
                pc = pc_dict(o.store)
                n_paths += 1
                # paths behind a failed digit-range test (a digit that is not 0..9) are excluded by the generator's invariant (R1)
                impossible = any(("fits_u8" in p and b is False) or (p.startswith("Le(") and "to_u8" in p and b is False) for p, b in pc.items())
                if impossible:
                    continue
                if o.kind != "ret":
                    bad.append("%s: %s" % (o.kind, str(o.value)[:60]))
                    continue
                v = o.value
                if not (isinstance(v, Agg) and v.path == "std::result::Result" and v.vi == 0):
                    continue
                seen_ok += 1
                out = list(o.store.get(("out",), ()))
                digits_of = o.store.get(("digits_of",))
                others = [b_ for b_ in bigs if Sym(b_) != digits_of]
                remn_ev = [b_ for b_ in others if any(("is_zero(%s)" % b_) == p for p in pc)]
                remn = remn_ev or others[:1]
                if len(others) != 2 or not remn:
                    bad.append("parameter roles: digits of %r, others %s" % (digits_of, others))
                    continue
                ra, da = remn[0], [b_ for b_ in others if b_ != remn[0]][0]
                ren = {ra: R, da: D}
                if isinstance(digits_of, Sym) and len(remn_ev) == 1:
                    roles_seen.add((digits_of.name, ra, da))
                negv = pc.get("neg")
                if negv is None:
                    bad.append("the sign is not consulted")
                    continue
                want = ([("lit", "-")] if negv else []) + [("val", Sym("c0"))]
                if n_ > 1:
                    want.append(("lit", "."))
                want += [("val", Sym("c%d" % j)) for j in range(1, k_ + 1)]
                pulled = [subst(d_, ren) for d_ in o.store.get(("pulled",), ())]
                rems = [subst(r_, ren) for r_ in o.store.get(("rems",), ())]
                pcr = {repr(subst(p_, ren)): b_ for p_, b_ in pc_of(o.store)}
                lose = None
                if cut:
                    if pulled:
                        bad.append("fraction digits are pulled although %d digit(s) of the whole part are cut off" % len(cut))
                        continue
                    known = []
                    for j in cut:
                        nz = None
                        for p_, b_ in pc_of(o.store):
                            if isinstance(p_, T) and p_.op in ("Ne", "Eq", "==") and len(p_.args) == 2 and Sym("c%d" % j) in p_.args and any(
                                    isinstance(a_, Const) and a_.v in (48, "0") for a_ in p_.args):
                                nz = b_ if p_.op == "Ne" else (not b_)
                        known.append(nz)
                    rz = pcr.get("is_zero(R)")
                    if any(x is True for x in known) or rz is False:
                        lose = True
                    elif all(x is False for x in known) and rz is True:
                        lose = False
                    printed_frac = []
                else:
                    r_spec = R
                    okp = True
                    for i_, d_ in enumerate(pulled):
                        q_spec = T("idiv", T("*", r_spec, K(10)), D)
                        zi = pcr.get(repr(T("is_zero", R if i_ == 0 else rems[i_ - 1])))
                        if i_ >= budget or zi is not False or not same(d_, q_spec):
                            bad.append("fraction digit %d is pulled beyond the budget %d, without R != 0, or is not floor(10R/D)" % (i_ + 1, budget))
                            okp = False
                            break
                        if i_ < len(rems) and not same(rems[i_], T("-", T("*", r_spec, K(10)), T("*", D, q_spec))):
                            bad.append("after fraction digit %d the remainder is %r" % (i_ + 1, rems[i_]))
                        r_spec = T("-", T("*", r_spec, K(10)), T("*", D, q_spec))
                    if not okp:
                        continue
                    printed_frac = [("val", d_) for d_ in pulled]
                    last = rems[len(pulled) - 1] if pulled else R
                    lz = pcr.get(repr(T("is_zero", last)))
                    if len(pulled) < budget and lz is not True:
                        bad.append("the fraction stops after %d digit(s) with budget %d and the remainder not tested zero" % (len(pulled), budget))
                    lose = None if lz is None else (not lz)
                want += printed_frac
                show = pc.get("show")
                def flat(atoms):
                    o_ = []
                    for a_ in atoms:
                        if a_[0] == "lit":
                            o_.extend(("lit", ch_) for ch_ in a_[1])
                        else:
                            o_.append(a_)
                    return o_
                want = flat(want)
                got = flat([(a_[0], subst(a_[1], ren)) if a_[0] == "val" else a_ for a_ in out])
                # split the literals of the tail
                head, tail = got[:len(want)], got[len(want):]
                hm = len(head) == len(want) and all(g_[0] == w_[0] and (same(g_[1], w_[1]) if (g_[0] == "val" and not isinstance(w_[1], Sym)) else g_[1] == w_[1]) for g_, w_ in zip(head, want))
                if not hm:
                    # a literal of the tail may have merged with the '.' / '-' of the head: compare on the flattened text
                    bad.append("prints %s; specified %s ..." % (describe_out(out), describe_out(want)))
                    continue
                txt = "".join(a_[1] for a_ in tail if a_[0] == "lit")
                vals_ = [a_[1] for a_ in tail if a_[0] == "val"]
                has_mark = "…" in txt
                want_e = n_ > 1
                if has_mark and not (lose is True and show is True):
                    bad.append("the mark is printed where loss = %s, show_continuation = %s" % (lose, show))
                if not has_mark and not (lose is False or show is False):
                    bad.append("no mark is printed where loss = %s, show_continuation = %s" % (lose, show))
                if txt.replace("…", "") != ("e" if want_e else "") or (vals_ != [Const(n_ - 1)] if want_e else bool(vals_)):
                    bad.append("the end prints %s; specified %s" % (describe_out(tail), "'e' %d" % (n_ - 1) if want_e else "nothing"))
            rep.ob("C08-R6", key, not bad and seen_ok >= 1, "; ".join(sorted(set(bad))[:3]) if bad else
                   "all %d successful path(s) print first digit, %d more digit(s), %s, the mark iff something is lost, %s" % (
                       seen_ok, k_, "no fraction digit (%d cut off)" % len(cut) if cut else "up to %d fraction digit(s)" % max(budget, 0),
                       "'e' %d" % (n_ - 1) if n_ > 1 else "no exponent"), body.site())
    rep.count("scientific form: bounded paths", n_paths)
    # parameters by use (on paths where the remainder is looked at the roles are unambiguous)
    firm = {r_ for r_ in roles_seen}
    if len({r_[0] for r_ in firm}) == 1 and "roles_big" not in names:
        by_rem = {}
        for d_, ra_, da_ in firm:
            by_rem[(ra_, da_)] = by_rem.get((ra_, da_), 0) + 1
        (ra_, da_), _ = max(by_rem.items(), key=lambda kv: kv[1])
        names["roles_big_bounded"] = {"div": next(iter(firm))[0], "rem": ra_, "den": da_}


def r7_agreement(facts, rep, names):
    rep.rule("C08-R7", "caller / callee agreement: the dispatcher hands whole, remainder and den to each helper in exactly the parameter "
                       "positions in which the helper uses them as digit string / generator remainder / generator denominator")
    for role, key in (("big", "roles_big"), ("whole", "roles_whole")):
        passed = names.get("passed_" + role)
        used = names.get(key) or names.get(key + "_bounded")
        if not passed or not used:
            rep.ob("C08-R7", "agreement:" + role, False, "summary missing (passed %s, used %s)" % (passed, used))
            continue
        m = {"div": "whole", "rem": "remainder", "den": "den"}
        okk = all(passed.get(used[r_]) == m[r_] for r_ in ("div", "rem", "den"))
        rep.ob("C08-R7", "agreement:" + role, okk, "%s: passed %s, used as %s" % (names.get(role), passed, used), facts.fn(names[role]).site())


def run(fx, rep, tier):
    rep.assume("BigInt arithmetic is exact; std's Take asks the inner iterator only while its budget is positive; "
               "Peekable/Chars/ToString of a BigInt yield its decimal digits in order; the Formatter accepts every write "
               "(on a failed write the formatter returns the error)")
    facts = fx["dev"]
    names = discover(facts, rep)
    if names is None:
        return
    names["tier"] = tier
    r1_generator(facts, rep, names)
    r2_dispatch(facts, rep, names)
    sub4 = type(rep)(rep.prop, rep.tier)
    sub4.only = rep.only
    r4_bounded(facts, sub4, names)
    rw = r4_whole(facts, sub4, names)
    deepening(rep, sub4)
    if rw:
        names["roles_whole"] = rw
    def with_deepening(fn, *more):
        sub_ = type(rep)(rep.prop, rep.tier)
        sub_.only = rep.only
        for f_ in more:
            f_(facts, sub_, names)
        fn(facts, sub_, names)
        deepening(rep, sub_)
    with_deepening(r5_small, lambda f_, r_, n_: r5_bounded(f_, r_, n_, tier))
    with_deepening(r6_big)
    r7_agreement(facts, rep, names)
    if "rel" in fx:
        # thorough: the same rules on the release-like MIR (no debug assertions, no overflow checks)
        sub = type(rep)(rep.prop, rep.tier)
        f2 = fx["rel"]
        n2 = discover(f2, sub)
        if n2 is not None:
            n2["tier"] = tier
            r1_generator(f2, sub, n2)
            r2_dispatch(f2, sub, n2)
            s4_ = type(rep)(rep.prop, rep.tier)
            r4_bounded(f2, s4_, n2)
            rw = r4_whole(f2, s4_, n2)
            deepening(sub, s4_)
            if rw:
                n2["roles_whole"] = rw
            for fns_ in ((lambda f_, r_, n_: r5_bounded(f_, r_, n_, tier), r5_small), (r6_big,)):
                s2_ = type(rep)(rep.prop, rep.tier)
                for f_ in fns_:
                    f_(f2, s2_, n2)
                deepening(sub, s2_)
            r7_agreement(f2, sub, n2)
        for o in sub.obls:
            o["key"] += "[rel]"
            rep.obls.append(o)


def discover(facts, rep):
    body = anchor(rep, "C08-R0", facts, FMT)
    if body is None:
        return None
    names = {}
    # crate-local callees reachable from the formatter (depth 2), by role
    seen = set()
    work = [FMT]
    while work:
        p = work.pop()
        b = facts.fn(p)
        if b is None or p in seen:
            continue
        seen.add(p)
        for blk, t, sp, nm in b.calls():
            if facts.fn(nm) is not None and nm not in seen:
                work.append(nm)
            if nm == "std::iter::from_fn":
                names["emit"] = p
        # ... or a function returning a struct of the crate that is an iterator over (remainder, denominator)
        rty = b.local_ty(0).split("<")[0]
        adt = facts.adt(rty)
        nxt = facts.iterator_impl(rty) if adt is not None else None
        if nxt and not adt["is_enum"] and p != FMT:
            fs = adt["variants"][0]["fields"]
            rem = [i for i, f in enumerate(fs) if f["ty"].replace(" ", "").startswith("&'amut") or f["ty"].startswith("&mut") or "mut num" in f["ty"]]
            den = [i for i, f in enumerate(fs) if i not in rem and "BigInt" in f["ty"]]
            if len(fs) == 2 and len(rem) == 1 and len(den) == 1:
                GEN_ADTS[rty] = {"next": nxt, "rem": rem[0], "den": den[0]}
                names["emit"] = p
    names["reachable"] = sorted(seen)
    return names


def generator_code_paths(facts):
    """Paths of the code that is the digit generator's step: the closure(s) of the function that builds it with
    iter::from_fn, or the next() of a generator struct."""
    from .. import report as _report
    names = discover(facts, _report.Report("C08", "quick"))
    out = set()
    if names and names.get("emit"):
        e = names["emit"]
        out |= {b.path for b in facts.all if b.promoted < 0 and b.path.startswith(e + "::{closure")}
        rty = facts.fn(e).local_ty(0).split("<")[0]
        if rty in GEN_ADTS:
            out.add(GEN_ADTS[rty]["next"])
        # ... and the functions only that step uses (a `next_digit(rem, den)` the closure forwards to)
        from ..callgraph import CallGraph as _CG
        cg = _CG(facts)
        roots = [p_ for p_ in out if p_ in cg.local]
        if roots:
            out |= {p_ for p_ in cg.exclusive(roots) if facts.fn(p_) is not None and facts.fn(p_).file == facts.fn(e).file}
    return out

